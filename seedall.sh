#!/bin/bash
# seedall.sh [dirs...]: re-run every stored seeded change (default: all of seeded/*) against the property's quick
# check in a scratch worktree (seedtest.sh) and write one line per change to seeded/RESULTS.txt.
# The existing-suite step is skipped (SKIP_SUITE=1): it was confirmed when the change was stored.
cd "$(dirname "$(readlink -f "$0")")"
dirs=${*:-seeded/*/}
out=seeded/RESULTS.txt
: > $out.tmp
for d in $dirs; do
  d=${d%/}
  [ -f "$d/patch.diff" ] || continue
  id=$(basename $d); prop=${id%%-*}
  res=$(SKIP_SUITE=1 ./seedtest.sh $prop "$PWD/$d/patch.diff" 2>&1)
  rc=$(echo "$res" | sed -n 's/^CHECK .* quick: exit \([0-9]*\)$/\1/p' | head -1)
  first=$(echo "$res" | grep -a "^  \[" | head -1 | cut -c1-200)
  case "$rc" in
    1) verdict=caught ;;
    0) verdict=MISSED ;;
    *) verdict="error($rc) $(echo "$res" | tail -2 | tr '\n' ' ' | cut -c1-150)" ;;
  esac
  echo "$id $verdict $first" | tee -a $out.tmp
done
mv $out.tmp $out
