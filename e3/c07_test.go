package e3

import (
	"fmt"
	"testing"
)

// TestC07Proc — brokered gRPC connections in both directions behind custom runners that translate addresses
// (runner-xlate: a container-like runner; runner-fwd: the plugin's Unix sockets are reached through loopback TCP
// port-forwards, so the translation changes the network type as well): the
// plugin sees the shared socket directory under another path, the runner translates addresses both ways and
// refuses anything outside that directory (as a bind mount would). With and without AutoMTLS, with and
// without multiplexing (where no address is exchanged); real plugin.Serve child, real Client.
func TestC07Proc(t *testing.T) {
	base := scratch(t)
	var cells []Cell
	for _, tls := range []string{"none", "auto"} {
		for _, mux := range []bool{false, true} {
			for _, launch := range []string{"runner", "runner-xlate", "runner-fwd", "runner-fwdname"} {
				for _, hist := range [][]string{{"callback"}, {"revcallback"}, {"callback", "revcallback"}, {"revcallback", "callback", "callback"}} {
					ops := append([]string{"new", "start", "client", "dispense", "set:5"}, hist...)
					ops = append(ops, "get", "ping", "kill")
					cells = append(cells, Cell{
						Name:   fmt.Sprintf("grpc mux=%v tls=%s launch=%s history=%v", mux, tls, launch, hist),
						Plugin: PluginConf{CookieKey: cookieKey, CookieValue: cookieVal, Legacy: 1, LegacyProto: "grpc", GRPCServer: true, TLS: "none"},
						Host:   HostConf{Allowed: []string{"grpc"}, TLS: tls, Mux: mux, Launch: launch, Legacy: 1, SkipHostEnv: true},
						Ops:    ops,
					})
				}
			}
		}
	}
	results := runCells(base, cells)
	out := &enumResult{Exhaustive: true, Outcomes: map[string]int{}}
	for i, r := range results {
		c := cells[i]
		out.Evaluations++
		out.Distinct++
		bad := func(f string, a ...any) {
			out.Violations = append(out.Violations, enumViolation{Case: c.Name, Class: "S", Msg: fmt.Sprintf(f, a...) + " [" + c.Name + "]"})
		}
		if r.HelperErr != "" || r.Panic != "" {
			bad("%s%s", r.HelperErr, r.Panic)
			continue
		}
		if op, e := firstErr(r); e != "" {
			bad("brokered session behind the runner failed at %s: %s", op, e)
		}
		if r.XlateRefused > 0 {
			bad("go-plugin handed the runner %d address(es) outside the shared socket directory", r.XlateRefused)
		}
		for _, o := range r.Ops {
			if o.Op == "get" && o.Val != "5" {
				bad("read %s, wrote 5", o.Val)
			}
		}
		out.Outcomes[fmt.Sprintf("launch=%s ok=%v", c.Host.Launch, len(out.Violations) == 0)]++
		if len(out.Samples) < 3 && i%7 == 0 {
			out.Samples = append(out.Samples, map[string]any{"cell": c.Name, "ops": c.Ops})
		}
	}
	emit(out)
}
