package e3

import (
	"fmt"
	"os"
	"sort"
	"strconv"
	"strings"
	"testing"
)

type ambientItem struct {
	name string
	vars map[string]string
}

// TestC17 — what a launched command receives (host half) and what a real
// plugin does with it when the host's own environment carries PLUGIN_* variables (plugin half).
func TestC17(t *testing.T) {
	base := scratch(t)
	certPEM, _ := genCert(t)
	gid := strconv.Itoa(os.Getgid())
	items := []ambientItem{
		{"PLUGIN_CLIENT_CERT", map[string]string{"PLUGIN_CLIENT_CERT": certPEM}},
		{"PLUGIN_MULTIPLEX_GRPC", map[string]string{"PLUGIN_MULTIPLEX_GRPC": "true"}},
		{"PLUGIN_PROTOCOL_VERSIONS", map[string]string{"PLUGIN_PROTOCOL_VERSIONS": "9"}},
		{"PLUGIN_MIN/MAX_PORT", map[string]string{"PLUGIN_MIN_PORT": "1", "PLUGIN_MAX_PORT": "2"}},
		{"PLUGIN_UNIX_SOCKET_DIR", map[string]string{"PLUGIN_UNIX_SOCKET_DIR": base}}, // an existing directory, as a host that is itself a plugin would carry
		{"PLUGIN_UNIX_SOCKET_GROUP", map[string]string{"PLUGIN_UNIX_SOCKET_GROUP": "99999"}},
		{"cookie", map[string]string{cookieKey: "stale-cookie"}},
		{"UNRELATED_MARKER", map[string]string{"UNRELATED_MARKER": "1"}},
	}
	var subsets [][]int
	subsets = append(subsets, nil)
	for i := range items {
		subsets = append(subsets, []int{i})
		for j := i + 1; j < len(items); j++ {
			subsets = append(subsets, []int{i, j})
		}
	}
	amb := func(sub []int) (map[string]string, string) {
		m := map[string]string{}
		var names []string
		for _, i := range sub {
			names = append(names, items[i].name)
			for k, v := range items[i].vars {
				m[k] = v
			}
		}
		return m, strings.Join(names, "+")
	}
	type vcfg struct {
		legacy int
		vers   []int
	}
	var cells []Cell
	kind := []string{}
	// ---- host half
	for _, vc := range []vcfg{{1, nil}, {-1, []int{1, 2}}, {1, []int{2}}} {
		for _, auto := range []bool{false, true} {
			for _, mux := range []bool{false, true} {
				for _, skip := range []bool{false, true} {
					for _, grp := range []string{"", gid} {
						for _, ports := range [][2]uint{{0, 0}, {12000, 12999}, {0, 9000}, {20000, 0}} {
							for _, sub := range subsets {
								if tier() == "quick" && len(sub) == 2 && (grp != "" || ports[0] != 0 || ports[1] != 0) {
									continue
								}
								if (ports[0] == 0) != (ports[1] == 0) && (len(sub) > 0 || grp != "") {
									continue // one-sided ranges: with an empty ambient environment only
								}
								a, an := amb(sub)
								tls := "none"
								if auto {
									tls = "auto"
								}
								// launch: the first launch of a fresh configuration; a second client built from
								// the same *ClientConfig; the same client started again after a failed runner creation
								for _, how := range []string{"first", "reuse", "retry", "cmd", "cmdenv", "reuseok", "cmdstdin", "symlinktmp", "cmdzero"} {
									if how == "reuseok" && (len(sub) > 0 || grp != "" || ports[0] != 0 || ports[1] != 0 || auto || mux) {
										continue // the configuration has served a real, successfully negotiated start before: plain configurations
									}
									if how != "first" && len(sub) == 2 {
										continue
									}
									if how == "cmdenv" && len(sub) == 0 {
										continue
									}
									if how == "cmdzero" && (len(sub) > 0 || grp != "" || ports[0] != 0 || ports[1] != 0) {
										continue
									}
									if how == "cmdstdin" && (len(sub) > 0 || grp != "" || ports[0] != 0 || ports[1] != 0) {
										continue
									}
									if how == "symlinktmp" && (len(sub) > 0 || ports[0] != 0 || ports[1] != 0) {
										continue
									}
									op := "env"
									if how != "first" {
										op += ":" + how
									}
									inCmd := how == "cmdenv" // the ambient variables sit in Cmd.Env (with SkipHostEnv that is the only way they travel)
									if inCmd {
										op = "env:cmd"
									}
									cells = append(cells, Cell{
										Name:    fmt.Sprintf("host-half launch=%s legacy=%d versioned=%v AutoMTLS=%v mux=%v SkipHostEnv=%v group=%q ports=%v ambient=[%s]", how, vc.legacy, vc.vers, auto, mux, skip, grp, ports, an),
										Plugin:  PluginConf{CookieKey: cookieKey, CookieValue: cookieVal, Legacy: 1, LegacyProto: "netrpc", GRPCServer: true, TLS: "none"},
										Host:    HostConf{TLS: tls, Mux: mux, Launch: "runner", Legacy: vc.legacy, Versions: vc.vers, SkipHostEnv: skip, Group: grp, MinPort: ports[0], MaxPort: ports[1], AmbientInCmd: inCmd},
										Ops:     []string{op},
										Ambient: a,
									})
									kind = append(kind, "host")
								}
							}
						}
					}
				}
			}
		}
	}
	// cookie values with characters that mean something to a formatter, a shell or the environment block
	for _, cv := range []string{"50%2Foff", "%s%d%v%%", "100%", "a=b=c", "with space", "quote'\"$HOME", "ünï"} {
		for _, how := range []string{"first", "cmd"} {
			op := "env"
			if how == "cmd" {
				op = "env:cmd"
			}
			cells = append(cells, Cell{
				Name:   fmt.Sprintf("host-half launch=%s legacy=1 versioned=[] AutoMTLS=false mux=false SkipHostEnv=true group=\"\" ports=[0 0] ambient=[] cookie=%q", how, cv),
				Plugin: PluginConf{CookieKey: cookieKey, CookieValue: cv, Legacy: 1, LegacyProto: "netrpc", GRPCServer: true, TLS: "none"},
				Host:   HostConf{TLS: "none", Launch: "runner", Legacy: 1, SkipHostEnv: true, CookieValue: cv},
				Ops:    []string{op},
			})
			kind = append(kind, "host")
		}
	}
	nHost := len(cells)
	// ... and end to end: a real plugin served with the same handshake configuration must start
	for _, cv := range []string{"50%2Foff", "%s%d%v%%", "a=b=c"} {
		cells = append(cells, Cell{
			Name:   fmt.Sprintf("plugin-half netrpc AutoMTLS=false mux=false ambient=[] cookie=%q", cv),
			Plugin: PluginConf{CookieKey: cookieKey, CookieValue: cv, Legacy: 1, LegacyProto: "netrpc", GRPCServer: true, TLS: "none"},
			Host:   HostConf{Allowed: []string{"netrpc", "grpc"}, TLS: "none", Launch: "cmd", Legacy: 1, CookieValue: cv},
			Ops:    []string{"new", "start", "client", "dispense", "set:5", "get", "callback", "ping", "kill"},
		})
		kind = append(kind, "plugin")
	}
	// ---- plugin half: a real Serve child launched from a host with ambient variables
	for _, proto := range []string{"netrpc", "grpc"} {
		for _, auto := range []bool{false, true} {
			for _, mux := range []bool{false, true} {
				for si, sub := range subsets {
					if len(sub) > 1 {
						continue
					}
					_ = si
					a, an := amb(sub)
					tls := "none"
					if auto {
						tls = "auto"
					}
					cells = append(cells, Cell{
						Name:    fmt.Sprintf("plugin-half %s AutoMTLS=%v mux=%v ambient=[%s]", proto, auto, mux, an),
						Plugin:  PluginConf{CookieKey: cookieKey, CookieValue: cookieVal, Legacy: 1, LegacyProto: proto, GRPCServer: true, TLS: "none"},
						Host:    HostConf{Allowed: []string{"netrpc", "grpc"}, TLS: tls, Mux: mux, Launch: "cmd", Legacy: 1},
						Ops:     []string{"new", "start", "client", "dispense", "set:5", "get", "callback", "ping", "kill"},
						Ambient: a,
					})
					kind = append(kind, "plugin")
				}
			}
		}
	}
	results := runCells(base, cells)
	out := &enumResult{Exhaustive: true, Outcomes: map[string]int{}}
	for i, r := range results {
		c := cells[i]
		out.Evaluations++
		if len(c.Ambient) > 0 {
			out.Distinct++
		}
		bad := func(f string, a ...any) {
			out.Violations = append(out.Violations, enumViolation{Case: c.Name, Class: "S", Msg: fmt.Sprintf(f, a...) + " [" + c.Name + "]"})
		}
		if r.HelperErr != "" {
			bad("%s", r.HelperErr)
			continue
		}
		if r.Panic != "" {
			out.Violations = append(out.Violations, enumViolation{Case: c.Name, Class: "PANIC", Msg: "host panicked: " + r.Panic + " [" + c.Name + "]"})
			continue
		}
		if i >= nHost {
			// plugin half: the pair must work exactly as configured
			if op, e := firstErr(r); e != "" {
				bad("plugin launched from a host with this ambient environment failed at %s: %s", op, e)
			} else if r.Protocol != c.Plugin.LegacyProto {
				bad("negotiated protocol %q", r.Protocol)
			}
			out.Outcomes["plugin-half"]++
			continue
		}
		out.Outcomes["host-half"]++
		// effective environment: the last assignment of a name wins (os/exec and getenv)
		eff := map[string]string{}
		for _, kv := range r.Env {
			k, v, _ := strings.Cut(kv, "=")
			eff[k] = v
		}
		wantCookie := cookieVal
		if c.Host.CookieValue != "" {
			wantCookie = c.Host.CookieValue
		}
		if eff[cookieKey] != wantCookie {
			bad("magic cookie handed to the command is %q, configured %q", eff[cookieKey], wantCookie)
		}
		want := map[int]bool{}
		for _, v := range c.Host.Versions {
			want[v] = true
		}
		if c.Host.Legacy >= 0 {
			want[c.Host.Legacy] = true
		}
		got := map[int]bool{}
		for _, f := range strings.Split(eff["PLUGIN_PROTOCOL_VERSIONS"], ",") {
			if n, err := strconv.Atoi(f); err == nil {
				got[n] = true
			}
		}
		if fmt.Sprint(keysOf(got)) != fmt.Sprint(keysOf(want)) {
			bad("PLUGIN_PROTOCOL_VERSIONS=%q, offered versions %v", eff["PLUGIN_PROTOCOL_VERSIONS"], keysOf(want))
		}
		wmin, wmax := "10000", "25000"
		if c.Host.MinPort != 0 || c.Host.MaxPort != 0 {
			wmin, wmax = strconv.Itoa(int(c.Host.MinPort)), strconv.Itoa(int(c.Host.MaxPort))
		}
		if eff["PLUGIN_MIN_PORT"] != wmin || eff["PLUGIN_MAX_PORT"] != wmax {
			bad("port range %s-%s, configured %s-%s", eff["PLUGIN_MIN_PORT"], eff["PLUGIN_MAX_PORT"], wmin, wmax)
		}
		if (eff["PLUGIN_CLIENT_CERT"] != "") != (c.Host.TLS == "auto") {
			bad("PLUGIN_CLIENT_CERT present=%v but AutoMTLS=%v", eff["PLUGIN_CLIENT_CERT"] != "", c.Host.TLS == "auto")
		}
		if c.Host.TLS == "auto" && eff["PLUGIN_CLIENT_CERT"] != "" && eff["PLUGIN_CLIENT_CERT"] == c.Ambient["PLUGIN_CLIENT_CERT"] {
			bad("the client certificate handed to the command is the host's inherited one, not this client's")
		}
		if (eff["PLUGIN_MULTIPLEX_GRPC"] != "") != c.Host.Mux {
			bad("PLUGIN_MULTIPLEX_GRPC=%q but multiplexing requested=%v", eff["PLUGIN_MULTIPLEX_GRPC"], c.Host.Mux)
		}
		if c.Host.Group != "" && eff["PLUGIN_UNIX_SOCKET_GROUP"] != c.Host.Group {
			bad("socket group %q, configured %q", eff["PLUGIN_UNIX_SOCKET_GROUP"], c.Host.Group)
		}
		cmdLaunch := strings.Contains(c.Name, "launch=cmd ") || strings.Contains(c.Name, "launch=cmdenv ") || strings.Contains(c.Name, "launch=cmdstdin ") || strings.Contains(c.Name, "launch=cmdzero ")
		if strings.Contains(c.Name, "launch=cmdzero ") && r.StdinSeen != strings.Repeat("\x00", 10) {
			bad("the launched command read %q from its stdin, the host's stdin is /dev/zero (ten NUL bytes expected)", r.StdinSeen)
		}
		if strings.Contains(c.Name, "launch=cmdstdin ") && r.StdinSeen != "HOST-STDIN" {
			bad("the launched command read %q from its stdin, the host's stdin holds \"HOST-STDIN\" (the application had preset Cmd.Stdin)", r.StdinSeen)
		}
		if !cmdLaunch && (eff["PLUGIN_UNIX_SOCKET_DIR"] != r.SocketDir || r.SocketDir == "") {
			// (a command launch creates no per-plugin socket directory)
			bad("socket dir %q, the client's is %q", eff["PLUGIN_UNIX_SOCKET_DIR"], r.SocketDir)
		}
		if !cmdLaunch && r.SocketDirState != "ok" {
			bad("the socket directory handed to the runner (%s) is %s", r.SocketDir, r.SocketDirState)
		}
		if c.Host.SkipHostEnv {
			// nothing but go-plugin's own variables, the cookie and what the caller put into Cmd.Env (whatever its name: the host
			// process itself carries TMPDIR, HOME, PATH and a marker)
			for k := range eff {
				_, fromCaller := c.Ambient[k]
				switch {
				case strings.HasPrefix(k, "PLUGIN_"), k == cookieKey, fromCaller && c.Host.AmbientInCmd:
				case cmdLaunch && (k == "PWD" || k == "OLDPWD" || k == "SHLVL" || k == "_"): // the observing shell's own
				default:
					bad("SkipHostEnv: variable %s=%q reached the launched command; it is neither go-plugin's nor the caller's", k, eff[k])
				}
			}
			for _, k := range []string{"UNRELATED_MARKER", "VERIF_HOST_MARKER", "HOME", "PATH"} {
				if k == "UNRELATED_MARKER" && c.Host.AmbientInCmd {
					continue // put into Cmd.Env by the caller: not a host variable
				}
				if _, ok := eff[k]; ok {
					bad("SkipHostEnv: host variable %s was passed", k)
				}
			}
		} else if eff["VERIF_HOST_MARKER"] != "present" {
			bad("host environment not passed although SkipHostEnv is off")
		}
		if !r.StdinIsHost && !cmdLaunch { // observed at the RunnerFunc seam only
			bad("command's stdin is not the host's stdin")
		}
		if e, _ := opErr(r, "env"); e != "" {
			bad("environment of the launched command could not be observed: %s", e)
		}
		if len(out.Samples) < 3 && i%601 == 0 {
			out.Samples = append(out.Samples, map[string]any{"cell": c.Name, "effective_env_names": keysOfS(eff)})
		}
	}
	emit(out)
}

func keysOf(m map[int]bool) []int {
	var k []int
	for v := range m {
		k = append(k, v)
	}
	sort.Ints(k)
	return k
}

func keysOfS(m map[string]string) []string {
	var k []string
	for v := range m {
		if strings.HasPrefix(v, "PLUGIN_") || v == cookieKey {
			k = append(k, v)
		}
	}
	sort.Strings(k)
	return k
}
