package e3

import (
	"bufio"
	"encoding/json"
	"fmt"
	"os"
	"os/exec"
	"path/filepath"
	"strings"
	"testing"
	"time"
)

// TestC12 — intruders against a real AutoMTLS pair: main listener and every
// brokered listener, every credential class.
func TestC12(t *testing.T) {
	base := scratch(t)
	creds := []string{"plain", "tls-nocert", "tls-selfsigned", "tls-samename", "tls-systrusted"}
	// a certificate listed in the machine's trust store (SSL_CERT_FILE of the host and of the plugins it launches)
	trustCert, trustKey := genCert(t)
	var cells []Cell
	for _, proto := range []string{"netrpc", "grpc"} {
		for _, mux := range []bool{false, true} {
			if mux && proto != "grpc" {
				continue
			}
			for _, auto := range []bool{true, false} {
				ops := []string{"systrust?", "new", "start", "client", "dispense", "set:5", "callback", "revcallback"}
				for _, c := range creds {
					ops = append(ops, "intrude:"+c)
				}
				ops = append(ops, "get", "ping", "kill")
				tls := "none"
				if auto {
					tls = "auto"
				}
				cells = append(cells, Cell{
					Name:   fmt.Sprintf("%s mux=%v AutoMTLS=%v", proto, mux, auto),
					Plugin: PluginConf{CookieKey: cookieKey, CookieValue: cookieVal, Legacy: 1, LegacyProto: proto, GRPCServer: true, TLS: "none"},
					Host:   HostConf{Allowed: []string{"netrpc", "grpc"}, TLS: tls, Mux: mux, Launch: "cmd", Legacy: 1, SkipHostEnv: true, SysTrustCert: trustCert, SysTrustKey: trustKey},
					Ops:    ops,
				})
				if auto {
					// a host that is itself a plugin of an AutoMTLS host (its environment carries the certificate of ITS host) and
					// builds the command's environment from its own, as hosts commonly do: the plugin must trust the host that
					// launched it, not the one further up (whose key pair the intruder of class tls-systrusted holds)
					cells = append(cells, Cell{
						Name:    fmt.Sprintf("%s mux=%v AutoMTLS=%v nested host (PLUGIN_CLIENT_CERT of its own host in its environment and in Cmd.Env)", proto, mux, auto),
						Plugin:  PluginConf{CookieKey: cookieKey, CookieValue: cookieVal, Legacy: 1, LegacyProto: proto, GRPCServer: true, TLS: "none"},
						Host:    HostConf{Allowed: []string{"netrpc", "grpc"}, TLS: tls, Mux: mux, Launch: "cmd", Legacy: 1, SysTrustCert: trustCert, SysTrustKey: trustKey, AmbientInCmd: true, AmbientBoth: true},
						Ambient: map[string]string{"PLUGIN_CLIENT_CERT": trustCert},
						Ops:     ops,
					})
				}
			}
		}
	}
	// impostor plugins (hand-made AutoMTLS plugin processes, cmd/vplugin/impostor.go): the host first runs an
	// honest one (control, and the "sibling" whose key the impostor may hold), then a second client launches
	// a plugin that announces one certificate and serves another / a sibling's / none
	nIntr := len(cells)
	sibCert, sibKey := genCert(t)
	for _, proto := range []string{"netrpc", "grpc"} {
		for _, mode := range []string{"legit", "other-cert", "sibling-cert", "plaintext", "nocert-plaintext", "chain-with-announced", "sibling-chain", "sibling-address"} {
			cells = append(cells, Cell{
				Name:   fmt.Sprintf("impostor %s second-plugin=%s", proto, mode),
				Plugin: PluginConf{CookieKey: cookieKey, CookieValue: cookieVal, Legacy: 1, LegacyProto: proto, GRPCServer: true, TLS: "none", CertPEM: sibCert, KeyPEM: sibKey, Impostor: "legit"},
				Host:   HostConf{Allowed: []string{"netrpc", "grpc"}, TLS: "auto", Launch: "cmd", Legacy: 1, SkipHostEnv: true, SysTrustCert: sibCert, SysTrustKey: sibKey},
				Ops:    []string{"new", "start", "client", "dispense", "set:5", "get", "newimp:" + mode, "start", "client", "dispense", "set:6", "get", "ping", "kill:1", "kill:0"},
			})
		}
	}
	// the application keeps one *ClientConfig for all its plugins (only Cmd is swapped): the replacement plugin is started,
	// the old one is retired (Kill), then the replacement is connected — "launch the replacement, then retire the old one"
	nShared := len(cells)
	for _, proto := range []string{"netrpc", "grpc"} {
		for _, mode := range []string{"legit", "plaintext", "nocert-plaintext", "other-cert"} {
			cells = append(cells, Cell{
				Name:   fmt.Sprintf("impostor %s second-plugin=%s, one shared ClientConfig, first plugin killed between the second's Start and Client()", proto, mode),
				Plugin: PluginConf{CookieKey: cookieKey, CookieValue: cookieVal, Legacy: 1, LegacyProto: proto, GRPCServer: true, TLS: "none", CertPEM: sibCert, KeyPEM: sibKey, Impostor: "legit"},
				Host:   HostConf{Allowed: []string{"netrpc", "grpc"}, TLS: "auto", Launch: "cmd", Legacy: 1, SkipHostEnv: true, SharedConfig: true},
				Ops:    []string{"new", "start", "client", "dispense", "set:5", "get", "newimp:" + mode, "start", "kill:0", "client", "dispense", "set:6", "get", "ping", "kill:1"},
			})
		}
	}
	_ = nShared
	results := runCells(base, cells)
	out := &enumResult{Exhaustive: true, Outcomes: map[string]int{}}
	for i, r := range results {
		c := cells[i]
		auto := c.Host.TLS == "auto"
		if i >= nIntr {
			out.Evaluations++
			out.Distinct++
			mode := strings.TrimPrefix(c.Ops[6], "newimp:")
			bad := func(f string, a ...any) {
				out.Violations = append(out.Violations, enumViolation{Case: c.Name, Class: "S", Msg: fmt.Sprintf(f, a...) + " [" + c.Name + "]"})
			}
			if r.HelperErr != "" || r.Panic != "" {
				bad("%s%s", r.HelperErr, r.Panic)
				continue
			}
			answered := ""
			for k, o := range r.Ops {
				switch {
				case k < 6 && o.Err != "":
					bad("control: the honest hand-made AutoMTLS plugin does not work: %s failed: %s", o.Op, o.Err)
				case k < 6 && o.Op == "get" && o.Val != "5":
					bad("control: read %s from the honest plugin", o.Val)
				case k > 6 && k < 14 && mode == "legit" && o.Err != "":
					bad("control: a second honest plugin does not work: %s failed: %s", o.Op, o.Err)
				case k > 7 && k < 14 && mode != "legit" && o.Err == "" && o.Op != "client" && !strings.HasPrefix(o.Op, "kill") && !(o.Op == "dispense" && c.Plugin.LegacyProto == "grpc"): // a gRPC Dispense is local
					answered += " " + o.Op
				}
			}
			out.Outcomes[fmt.Sprintf("impostor=%s accepted=%v", mode, answered != "")]++
			if answered != "" {
				bad("the host accepted an impostor plugin (%s): answered%s", mode, answered)
			}
			continue
		}
		bad := func(f string, a ...any) {
			out.Violations = append(out.Violations, enumViolation{Case: c.Name, Class: "S", Msg: fmt.Sprintf(f, a...) + " [" + c.Name + "]"})
		}
		if r.HelperErr != "" {
			bad("%s", r.HelperErr)
			continue
		}
		if r.Panic != "" {
			bad("host panicked: %s", r.Panic)
			continue
		}
		for _, o := range r.Ops {
			if o.Op == "systrust?" {
				if o.Val != "listed" {
					bad("control: the cell's trust store does not list the system-trusted certificate (intruder class tls-systrusted is vacuous)")
				}
				continue
			}
			if !strings.HasPrefix(o.Op, "intrude:") {
				if o.Err != "" {
					bad("legitimate session disturbed: %s failed: %s", o.Op, o.Err)
				}
				if o.Op == "get" && o.Val != "5" {
					bad("legitimate session read %s", o.Val)
				}
				continue
			}
			out.Evaluations++
			out.Distinct++
			var answered, targets int
			var where string
			fmt.Sscanf(o.Val, "answered=%d targets=%d %s", &answered, &targets, &where)
			out.Outcomes[fmt.Sprintf("AutoMTLS=%v answered=%v", auto, answered > 0)]++
			if auto && answered > 0 {
				bad("intruder with credentials %q got an application-level answer from %s", o.Op[8:], where)
			}
			if auto && targets == 0 {
				bad("no target found: the intrusion attempt is vacuous")
			}
			if !auto && !c.Host.Mux && o.Op == "intrude:plain" && answered == 0 {
				bad("control cell: even without TLS the plaintext intruder got no answer (the intruder does not work)")
			}
			if len(out.Samples) < 3 {
				out.Samples = append(out.Samples, map[string]any{"cell": c.Name, "attempt": o.Op, "result": o.Val})
			}
		}
	}
	// ---- a hand-written host (this test itself) launches a real plugin.Serve child and hands it a PLUGIN_CLIENT_CERT that
	// the plugin cannot load (escaped line breaks, another PEM label, garbage): whatever the plugin does then, it does not
	// serve a plaintext peer. Control: without the variable the same probe is answered.
	vp := filepath.Join(base, "vplugin")
	if os.Getenv("VERIF_OLD_TOOLCHAIN") != "" {
		vp = filepath.Join(base, "old", "vplugin")
	}
	hostCert, _ := genCert(t)
	variants := map[string]string{
		"<unset> (control)":         "\x00",
		"garbage":                   "this is not a certificate",
		"PEM with escaped newlines": strings.ReplaceAll(hostCert, "\n", "\\n"),
		"other PEM label":           strings.ReplaceAll(hostCert, "CERTIFICATE", "TRUSTED CERTIFICATE"),
		"truncated PEM":             hostCert[:len(hostCert)/2],
	}
	for name, val := range variants {
		for _, proto := range []string{"netrpc", "grpc"} {
			desc := fmt.Sprintf("hand-written host, %s plugin, PLUGIN_CLIENT_CERT=%s", proto, name)
			dir := filepath.Join(base, fmt.Sprintf("c12raw-%s-%d", proto, len(out.Outcomes)+out.Evaluations))
			os.MkdirAll(dir, 0o755)
			pc, _ := json.Marshal(PluginConf{CookieKey: cookieKey, CookieValue: cookieVal, Legacy: 1, LegacyProto: proto, GRPCServer: true, TLS: "none"})
			cmd := exec.Command(vp)
			cmd.Env = []string{"VP_CONF=" + string(pc), "TMPDIR=" + dir, "PLUGIN_UNIX_SOCKET_DIR=" + dir, cookieKey + "=" + cookieVal, "PLUGIN_PROTOCOL_VERSIONS=1"}
			if val != "\x00" {
				cmd.Env = append(cmd.Env, "PLUGIN_CLIENT_CERT="+val)
			}
			stdout, _ := cmd.StdoutPipe()
			out.Evaluations++
			out.Distinct++
			bad := func(f string, a ...any) {
				out.Violations = append(out.Violations, enumViolation{Case: desc, Class: "S", Msg: fmt.Sprintf(f, a...) + " [" + desc + "]"})
			}
			if err := cmd.Start(); err != nil {
				bad("cannot start the plugin: %v", err)
				continue
			}
			lineCh := make(chan string, 1)
			go func() { l, _ := bufio.NewReader(stdout).ReadString('\n'); lineCh <- l }()
			var line string
			select {
			case line = <-lineCh:
			case <-time.After(15 * time.Second):
			}
			f := strings.Split(strings.TrimSpace(line), "|")
			answered := false
			if len(f) >= 5 && f[2] == "unix" {
				answered = intrude(f[3], proto, "plain")
			}
			cmd.Process.Kill()
			cmd.Wait()
			os.RemoveAll(dir)
			switch {
			case val == "\x00" && !answered:
				bad("control: without PLUGIN_CLIENT_CERT the plaintext probe got no answer (line %q): the probe does not work", line)
			case val != "\x00" && answered:
				bad("a plaintext peer was served although the host had asked for AutoMTLS (handshake line %q)", strings.TrimSpace(line))
			}
			out.Outcomes[fmt.Sprintf("raw-host answered=%v", answered)]++
		}
	}
	emit(out)
}
