package e3

import (
	"fmt"
	"strings"
	"testing"
)

// TestC12 — intruders against a real AutoMTLS pair: main listener and every
// brokered listener, every credential class.
func TestC12(t *testing.T) {
	base := scratch(t)
	creds := []string{"plain", "tls-nocert", "tls-selfsigned", "tls-samename"}
	var cells []Cell
	for _, proto := range []string{"netrpc", "grpc"} {
		for _, mux := range []bool{false, true} {
			if mux && proto != "grpc" {
				continue
			}
			for _, auto := range []bool{true, false} {
				ops := []string{"new", "start", "client", "dispense", "set:5", "callback", "revcallback"}
				for _, c := range creds {
					ops = append(ops, "intrude:"+c)
				}
				ops = append(ops, "get", "ping", "kill")
				tls := "none"
				if auto {
					tls = "auto"
				}
				cells = append(cells, Cell{
					Name:   fmt.Sprintf("%s mux=%v AutoMTLS=%v", proto, mux, auto),
					Plugin: PluginConf{CookieKey: cookieKey, CookieValue: cookieVal, Legacy: 1, LegacyProto: proto, GRPCServer: true, TLS: "none"},
					Host:   HostConf{Allowed: []string{"netrpc", "grpc"}, TLS: tls, Mux: mux, Launch: "cmd", Legacy: 1, SkipHostEnv: true},
					Ops:    ops,
				})
			}
		}
	}
	results := runCells(base, cells)
	out := &enumResult{Exhaustive: true, Outcomes: map[string]int{}}
	for i, r := range results {
		c := cells[i]
		auto := c.Host.TLS == "auto"
		bad := func(f string, a ...any) {
			out.Violations = append(out.Violations, enumViolation{Case: c.Name, Class: "S", Msg: fmt.Sprintf(f, a...) + " [" + c.Name + "]"})
		}
		if r.HelperErr != "" {
			bad("%s", r.HelperErr)
			continue
		}
		if r.Panic != "" {
			bad("host panicked: %s", r.Panic)
			continue
		}
		for _, o := range r.Ops {
			if !strings.HasPrefix(o.Op, "intrude:") {
				if o.Err != "" {
					bad("legitimate session disturbed: %s failed: %s", o.Op, o.Err)
				}
				if o.Op == "get" && o.Val != "5" {
					bad("legitimate session read %s", o.Val)
				}
				continue
			}
			out.Evaluations++
			out.Distinct++
			var answered, targets int
			var where string
			fmt.Sscanf(o.Val, "answered=%d targets=%d %s", &answered, &targets, &where)
			out.Outcomes[fmt.Sprintf("AutoMTLS=%v answered=%v", auto, answered > 0)]++
			if auto && answered > 0 {
				bad("intruder with credentials %q got an application-level answer from %s", o.Op[8:], where)
			}
			if auto && targets == 0 {
				bad("no target found: the intrusion attempt is vacuous")
			}
			if !auto && !c.Host.Mux && o.Op == "intrude:plain" && answered == 0 {
				bad("control cell: even without TLS the plaintext intruder got no answer (the intruder does not work)")
			}
			if len(out.Samples) < 3 {
				out.Samples = append(out.Samples, map[string]any{"cell": c.Name, "attempt": o.Op, "result": o.Val})
			}
		}
	}
	emit(out)
}
