package e3

import (
	"fmt"
	"net"
	"strings"
	"testing"
)

// TestC01Proc — what the client reports after a successful start is exactly what the line said, with a
// real process behind the default command runner (and its address translation) and behind a custom runner.
func TestC01Proc(t *testing.T) {
	base := scratch(t)
	lines := []string{
		"1|1|tcp|127.0.0.1:1234",
		"1|1|tcp|127.0.0.1:1234|netrpc",
		"1|1|tcp|0.0.0.0:1234|netrpc",
		"1|1|tcp|0.0.0.0:1234|grpc",
		"1|1|tcp|[::]:4321|grpc",
		"1|1|tcp|[::1]:4321|grpc",
		"1|1|tcp|:4321|grpc",
		"1|1|tcp|127.0.0.2:80|grpc",
		"1|1|unix|/tmp/some/plugin.sock|grpc",
		"1|1|unix|relative.sock|netrpc",
		"1|2|tcp|127.0.0.1:1|grpc",
	}
	var cells []Cell
	for _, launch := range []string{"cmd", "runner"} {
		for _, l := range lines {
			cells = append(cells, Cell{
				Name:   fmt.Sprintf("launch=%s line=%q", launch, l),
				Plugin: PluginConf{LegacyProto: "netrpc"},
				Host:   HostConf{Allowed: []string{"netrpc", "grpc"}, TLS: "none", Launch: launch, Legacy: 1, Versions: []int{2}, ScriptLine: l, StartTimeoutMs: 5000},
				Ops:    []string{"new", "start", "kill"},
			})
		}
	}
	// a plugin whose process tree keeps the stdout / stderr pipes open after the launched process was killed (a wrapper
	// script that started a helper in the background): a rejected line, or no line, is still answered within the start timeout
	nGood := len(cells)
	for _, launch := range []string{"cmd", "runner"} {
		for name, first := range map[string]string{"banner text": "echo 'usage: tool [flags]'", "wrong core version": "echo '9|1|tcp|127.0.0.1:1'", "version not offered": "echo '1|7|tcp|127.0.0.1:1'",
			"unknown network": "echo '1|1|udp|127.0.0.1:1'", "protocol not allowed": "echo '1|1|tcp|127.0.0.1:1|bogus'", "no line at all": "true"} {
			cells = append(cells, Cell{
				Name:   fmt.Sprintf("launch=%s rejected line (%s) from a plugin whose background helper keeps the pipes open", launch, name),
				Plugin: PluginConf{LegacyProto: "netrpc"},
				Host:   HostConf{Allowed: []string{"netrpc", "grpc"}, TLS: "none", Launch: launch, Legacy: 1, Script: "sleep 12 & " + first + "; exec sleep 30", StartTimeoutMs: 3000},
				Ops:    []string{"new", "start", "kill"},
			})
		}
	}
	results := runCells(base, cells)
	out := &enumResult{Exhaustive: true, Outcomes: map[string]int{}}
	for i, r := range results {
		c := cells[i]
		out.Evaluations++
		out.Distinct++
		bad := func(f string, a ...any) {
			out.Violations = append(out.Violations, enumViolation{Case: c.Name, Class: "S", Msg: fmt.Sprintf(f, a...) + " [" + c.Name + "]"})
		}
		if r.HelperErr != "" || r.Panic != "" {
			bad("%s%s", r.HelperErr, r.Panic)
			continue
		}
		if i >= nGood {
			for _, o := range r.Ops {
				if o.Op == "start" {
					if o.Err == "" {
						bad("Start accepted the line")
					}
					if o.Ms > 9000 {
						bad("Start returned its error only after %d ms (start timeout 3000 ms)", o.Ms)
					}
				}
				// (how long the following Kill takes is not C01's matter: on the unchanged tree it waits until the last holder
				// of the pipes is gone — the helper's 25 s — which no property's quantifier covers; noted in DESIGN 9.6)
			}
			out.Outcomes["rejected-in-time"]++
			continue
		}
		parts := strings.Split(c.Host.ScriptLine, "|")
		if e, _ := opErr(r, "start"); e != "" {
			bad("Start rejected a well-formed line: %s", e)
			continue
		}
		wantNet, wantAddr := parts[2], parts[3]
		if wantNet == "tcp" {
			if ta, err := net.ResolveTCPAddr("tcp", wantAddr); err == nil {
				wantAddr = ta.String()
			}
		}
		if r.Addr != wantNet+"|"+wantAddr {
			bad("Start reported address %q, the line says %q", r.Addr, wantNet+"|"+wantAddr)
		}
		wantProto := "netrpc"
		if len(parts) > 4 {
			wantProto = parts[4]
		}
		if r.Protocol != wantProto {
			bad("Protocol() = %q, the line says %q", r.Protocol, wantProto)
		}
		if fmt.Sprint(r.Version) != parts[1] {
			bad("NegotiatedVersion() = %d, the line says %s", r.Version, parts[1])
		}
		out.Outcomes["reported="+r.Addr]++
		if len(out.Samples) < 3 {
			out.Samples = append(out.Samples, map[string]any{"cell": c.Name, "reported": r.Addr})
		}
	}
	emit(out)
}
