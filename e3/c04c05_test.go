package e3

import (
	"fmt"
	"strings"
	"testing"
)

// TestC04Proc — Kill against real processes: pid gone and reaped, cleanup
// marker, latency, for every shutdown behaviour x protocol x launch method.
func TestC04Proc(t *testing.T) {
	base := scratch(t)
	type beh struct {
		name      string
		delayMs   int      // plugin's deferred cleanup takes this long after the shutdown request
		pre       []string // ops before kill
		marker    bool     // deferred cleanup must have run
		maxKillMs int64
	}
	behs := []beh{
		{"exits-at-once", 0, nil, true, 30000},
		{"exits-after-1s", 1000, nil, true, 30000},
		{"ignores-shutdown", 60000, nil, false, 30000},
		{"frozen", 0, []string{"sigstop"}, false, 60000},
		{"already-crashed", 0, []string{"sigkillplugin"}, false, 30000},
	}
	var cells []Cell
	var exp []beh
	for _, proto := range []string{"netrpc", "grpc"} {
		for _, launch := range []string{"cmd", "runner", "reattach"} {
			for _, b0 := range behs {
				for _, killOp := range []string{"kill", "killconc:4"} {
					b := b0
					if killOp != "kill" {
						if b.name == "exits-after-1s" || b.name == "frozen" {
							continue // concurrent Kill: at once / ignoring / already crashed
						}
						b.name += " (4 concurrent Kills)"
						b.marker = false // which of the racing Kills wins decides whether the cleanup ran: not judged here
					}
					ops := []string{"new", "start", "client", "dispense", "set:1"}
					if launch == "reattach" {
						ops = append(ops, "reattach:0", "start", "client", "dispense", "get")
					}
					ops = append(ops, b.pre...)
					ops = append(ops, killOp, "proc?")
					if launch == "reattach" {
						ops = append(ops, "kill:0", "proc?")
					}
					hl := launch
					if launch == "reattach" {
						hl = "cmd"
					}
					cells = append(cells, Cell{
						Name:   fmt.Sprintf("%s launch=%s plugin=%s", proto, launch, b.name),
						Plugin: PluginConf{CookieKey: cookieKey, CookieValue: cookieVal, Legacy: 1, LegacyProto: proto, GRPCServer: true, TLS: "none", ExitMarker: "auto", ExitDelayMs: b.delayMs},
						Host:   HostConf{Allowed: []string{"netrpc", "grpc"}, TLS: "none", Launch: hl, Legacy: 1, SkipHostEnv: true},
						Ops:    ops,
					})
					exp = append(exp, b)
				}
			}
		}
		// frozen right after Start: no protocol client exists yet when Kill is called (with and without AutoMTLS)
		for _, tl := range []string{"none", "auto"} {
			cells = append(cells, Cell{
				Name:   fmt.Sprintf("%s launch=cmd tls=%s plugin=frozen before the first Client()", proto, tl),
				Plugin: PluginConf{CookieKey: cookieKey, CookieValue: cookieVal, Legacy: 1, LegacyProto: proto, GRPCServer: true, TLS: "none"},
				Host:   HostConf{Allowed: []string{"netrpc", "grpc"}, TLS: tl, Launch: "cmd", Legacy: 1, SkipHostEnv: true},
				Ops:    []string{"new", "start", "sigstop", "kill", "proc?"},
			})
			exp = append(exp, beh{name: "frozen-early", maxKillMs: 60000})
		}
		// CleanupClients over managed clients, one per launch method (the reattached one must be killed as well)
		for _, launch := range []string{"cmd", "runner", "reattach"} {
			ops := []string{"new", "start", "client", "dispense", "set:1"}
			hl := launch
			if launch == "reattach" {
				ops = append(ops, "reattach:0", "start", "client", "dispense", "get")
				hl = "cmd"
			}
			ops = append(ops, "cleanup", "proc?")
			cells = append(cells, Cell{
				Name:   fmt.Sprintf("%s launch=%s plugin=exits-at-once (managed, CleanupClients)", proto, launch),
				Plugin: PluginConf{CookieKey: cookieKey, CookieValue: cookieVal, Legacy: 1, LegacyProto: proto, GRPCServer: true, TLS: "none", ExitMarker: "auto"},
				Host:   HostConf{Allowed: []string{"netrpc", "grpc"}, TLS: "none", Launch: hl, Legacy: 1, SkipHostEnv: true, Managed: true},
				Ops:    ops,
			})
			exp = append(exp, beh{name: "managed-cleanup", maxKillMs: 30000})
		}
		// a client that was started but never connected (no Client() call): Kill / CleanupClients still deliver the
		// shutdown request, so a healthy plugin exits by itself and completes its cleanup (300 ms of it)
		for _, how := range []string{"kill", "cleanup", "cleanup-twice"} {
			for _, tl := range []string{"none", "auto"} {
				ops := []string{"new", "start"}
				switch how {
				case "kill":
					ops = append(ops, "kill", "proc?")
				case "cleanup":
					ops = append(ops, "cleanup", "proc?")
				case "cleanup-twice": // the process-wide clean-up has run before (for an earlier plugin); this one comes later
					ops = append(ops, "client", "dispense", "cleanup", "rmmarker", "new", "start", "cleanup", "proc?")
				}
				cells = append(cells, Cell{
					Name:   fmt.Sprintf("%s launch=cmd tls=%s plugin=exits-after-300ms, started only (%s)", proto, tl, how),
					Plugin: PluginConf{CookieKey: cookieKey, CookieValue: cookieVal, Legacy: 1, LegacyProto: proto, GRPCServer: true, TLS: "none", ExitMarker: "auto", ExitDelayMs: 300},
					Host:   HostConf{Allowed: []string{"netrpc", "grpc"}, TLS: tl, Launch: "cmd", Legacy: 1, SkipHostEnv: true, Managed: how != "kill"},
					Ops:    ops,
				})
				exp = append(exp, beh{name: "started-only " + how, marker: true, maxKillMs: 30000})
			}
		}
		// the first Client() call failed for a reason that is gone when Kill comes (a blocking dial with a 1.5 s timeout against
		// a plugin that was stopped for a moment): the healthy plugin is still asked to shut down and finishes its clean-up
		if proto == "grpc" {
			cells = append(cells, Cell{
				Name:   "grpc launch=cmd plugin=exits-after-300ms, first Client() timed out while the plugin was stopped for a moment",
				Plugin: PluginConf{CookieKey: cookieKey, CookieValue: cookieVal, Legacy: 1, LegacyProto: proto, GRPCServer: true, TLS: "none", ExitMarker: "auto", ExitDelayMs: 300},
				Host:   HostConf{Allowed: []string{"netrpc", "grpc"}, TLS: "none", Launch: "cmd", Legacy: 1, SkipHostEnv: true, GRPCBlock: true, GRPCDialTimeoutMs: 1500},
				Ops:    []string{"new", "start", "sigstop", "client!err", "sigcont", "sleep:300", "kill", "proc?"},
			})
			exp = append(exp, beh{name: "transient-client-error", marker: true, maxKillMs: 30000})
		}
		// the application built the command with exec.CommandContext and a polite Cancel hook (SIGTERM): a plugin that does
		// not exit on its own is still force-killed
		for _, b0 := range []beh{{"frozen", 0, []string{"sigstop"}, false, 60000}, {"exits-at-once", 0, nil, true, 30000}} {
			ops := append([]string{"new", "start", "client", "dispense", "set:1"}, b0.pre...)
			ops = append(ops, "kill", "proc?")
			cells = append(cells, Cell{
				Name:   fmt.Sprintf("%s launch=cmd plugin=%s, command built with CommandContext and Cancel=SIGTERM", proto, b0.name),
				Plugin: PluginConf{CookieKey: cookieKey, CookieValue: cookieVal, Legacy: 1, LegacyProto: proto, GRPCServer: true, TLS: "none", ExitMarker: "auto", ExitDelayMs: b0.delayMs},
				Host:   HostConf{Allowed: []string{"netrpc", "grpc"}, TLS: "none", Launch: "cmd", Legacy: 1, SkipHostEnv: true, CmdCancel: "sigterm"},
				Ops:    ops,
			})
			exp = append(exp, b0)
		}
		// the application had preset Cmd.Stdin to a reader that stays open and silent (the read end of an io.Pipe)
		for _, b0 := range []beh{{"exits-at-once", 0, nil, true, 30000}, {"ignores-shutdown", 60000, nil, false, 30000}, {"already-crashed", 0, []string{"sigkillplugin"}, false, 30000}} {
			ops := append([]string{"new", "start", "client", "dispense", "set:1"}, b0.pre...)
			ops = append(ops, "kill", "proc?")
			cells = append(cells, Cell{
				Name:   fmt.Sprintf("%s launch=cmd plugin=%s, Cmd.Stdin preset to an idle pipe", proto, b0.name),
				Plugin: PluginConf{CookieKey: cookieKey, CookieValue: cookieVal, Legacy: 1, LegacyProto: proto, GRPCServer: true, TLS: "none", ExitMarker: "auto", ExitDelayMs: b0.delayMs},
				Host:   HostConf{Allowed: []string{"netrpc", "grpc"}, TLS: "none", Launch: "cmd", Legacy: 1, SkipHostEnv: true, PresetStdin: "idle-pipe"},
				Ops:    ops,
			})
			exp = append(exp, b0)
		}
		// never completed the handshake
		cells = append(cells, Cell{Name: proto + " launch=cmd plugin=silent (start timeout)", Plugin: PluginConf{LegacyProto: proto},
			Host: HostConf{Allowed: []string{"netrpc", "grpc"}, TLS: "none", Launch: "cmd", Legacy: 1, Script: "exec sleep 30", StartTimeoutMs: 1500},
			Ops:  []string{"new", "start", "kill", "proc?"}})
		exp = append(exp, beh{name: "silent", maxKillMs: 30000})
		// failed the handshake: a program that is not a plugin prints a usage text (several lines) and either
		// keeps running or exits; Start fails, Kill must still return and the process must be gone and reaped
		for _, launch := range []string{"cmd", "runner"} {
			for n, sc := range map[string]string{
				"usage-text-then-stays": "echo 'usage: tool [flags]'; echo '  -h  help'; echo '  -v  version'; exec sleep 30",
				"usage-text-then-exits": "echo 'usage: tool [flags]'; echo '  -h  help'; echo '  -v  version'; exit 2",
			} {
				cells = append(cells, Cell{Name: fmt.Sprintf("%s launch=%s plugin=%s", proto, launch, n), Plugin: PluginConf{LegacyProto: proto},
					Host: HostConf{Allowed: []string{"netrpc", "grpc"}, TLS: "none", Launch: launch, Legacy: 1, Script: sc, StartTimeoutMs: 3000},
					Ops:  []string{"new", "start", "kill", "proc?"}})
				exp = append(exp, beh{name: "silent", maxKillMs: 30000})
			}
		}
	}
	results := runCells(base, cells)
	out := &enumResult{Exhaustive: true, Outcomes: map[string]int{}}
	for i, r := range results {
		c, b := cells[i], exp[i]
		out.Evaluations++
		out.Distinct++
		bad := func(class, f string, a ...any) {
			out.Violations = append(out.Violations, enumViolation{Case: c.Name, Class: class, Msg: fmt.Sprintf(f, a...) + " [" + c.Name + "]"})
		}
		if r.HelperErr != "" {
			bad("L", "%s", r.HelperErr)
			continue
		}
		if r.Panic != "" {
			bad("PANIC", "host panicked: %s", r.Panic)
			continue
		}
		lastProc := ""
		for _, o := range r.Ops {
			if strings.HasPrefix(o.Op, "killconc") && o.Err != "" {
				bad("PANIC", "%s", o.Err)
			}
			if o.Op == "cleanup" && o.Val != "true" {
				bad("L", "Exited() is false for a managed client after CleanupClients returned")
			}
			if (strings.HasPrefix(o.Op, "kill") || o.Op == "cleanup") && o.Ms > b.maxKillMs {
				bad("T", "%s took %d ms", o.Op, o.Ms)
			}
			if strings.HasPrefix(o.Op, "kill") && o.Val == "false" && (c.Host.Launch != "cmd" || !strings.Contains(c.Name, "reattach") || o.Op == "kill:0") && b.name != "silent" {
				// Exited() must be true for the client that was killed
				if !(strings.Contains(c.Name, "reattach") && o.Op == "kill") {
					bad("L", "Exited() is false after %s returned", o.Op)
				}
			}
			if o.Op == "proc?" {
				lastProc = o.Val
			}
		}
		if lastProc != "gone" {
			bad("L", "plugin process state after Kill: %s (expected gone and reaped)", lastProc)
		}
		if b.marker && !r.ExitMarker {
			bad("S", "plugin exits within the grace period but its cleanup did not complete (force-killed?)")
		}
		if strings.HasPrefix(b.name, "ignores-shutdown") && r.ExitMarker {
			bad("S", "plugin that ignores the request for 60 s was not force-killed after the grace period")
		}
		out.Outcomes[b.name+" "+lastProc]++
		if len(out.Samples) < 3 && i%11 == 0 {
			out.Samples = append(out.Samples, map[string]any{"cell": c.Name, "ops": r.Ops})
		}
	}
	emit(out)
}

// TestC05Proc — failed starts with a real command launch: the process is gone shortly after the error.
func TestC05Proc(t *testing.T) {
	base := scratch(t)
	scripts := map[string]string{
		"bad core version":          "echo '9|1|tcp|127.0.0.1:1'; exec sleep 30",
		"bad app version":           "echo '1|9|tcp|127.0.0.1:1'; exec sleep 30",
		"unknown network":           "echo '1|1|udp|127.0.0.1:1'; exec sleep 30",
		"unresolvable address":      "echo '1|1|tcp|127.0.0.1:99999'; exec sleep 30",
		"disallowed protocol":       "echo '1|1|tcp|127.0.0.1:1|bogus'; exec sleep 30",
		"bad certificate":           "echo '1|1|tcp|127.0.0.1:1|netrpc|" + strings.Repeat("!", 60) + "'; exec sleep 30",
		"short line":                "echo '1|1'; exec sleep 30",
		"two lines, first bad":      "echo 'usage: plugin'; echo 'more text'; echo 'and more'; exec sleep 30",
		"silence until timeout":     "exec sleep 30",
		"partial line then silence": "printf '1|1|tcp'; exec sleep 30",
		"exit before output":        "exit 3",
		"stdout closed while alive": "exec >&-; exec sleep 30",
		"mux unsupported":           "echo '1|1|tcp|127.0.0.1:1|grpc|'; exec sleep 30",
	}
	var cells []Cell
	for name, sc := range scripts {
		for _, launch := range []string{"cmd", "runner"} {
			mux := name == "mux unsupported"
			cells = append(cells, Cell{Name: fmt.Sprintf("launch=%s cause=%s", launch, name), Plugin: PluginConf{LegacyProto: "netrpc"},
				Host: HostConf{Allowed: []string{"netrpc", "grpc"}, TLS: "none", Launch: launch, Legacy: 1, Script: sc, StartTimeoutMs: 1500, Mux: mux},
				Ops:  []string{"new", "start", "sleep:1500", "proc?", "kill", "proc?"}})
		}
	}
	// managed clients whose start failed, cleaned up through CleanupClients (never through their own Kill): process gone,
	// the custom runner's socket directory removed
	for _, name := range []string{"bad app version", "exit before output", "short line", "silence until timeout"} {
		for _, launch := range []string{"cmd", "runner"} {
			cells = append(cells, Cell{Name: fmt.Sprintf("launch=%s cause=%s, managed client cleaned up by CleanupClients", launch, name), Plugin: PluginConf{LegacyProto: "netrpc"},
				Host: HostConf{Allowed: []string{"netrpc", "grpc"}, TLS: "none", Launch: launch, Legacy: 1, Script: scripts[name], StartTimeoutMs: 1500, Managed: true},
				Ops:  []string{"new", "start", "sleep:1500", "proc?", "cleanup", "proc?"}})
		}
	}
	// the application built the command with exec.CommandContext and a polite Cancel hook (SIGTERM); the plugin ignores that
	// signal (as go-plugin's own Serve ignores SIGINT): a failed start still terminates it, a later Kill still returns
	for name, tail := range map[string]string{"bad app version": "echo '1|9|tcp|127.0.0.1:1'", "silence until timeout": "true", "short line": "echo '1|1'"} {
		cells = append(cells, Cell{Name: fmt.Sprintf("launch=cmd cause=%s, command built with CommandContext and Cancel=SIGTERM, plugin ignores SIGTERM", name), Plugin: PluginConf{LegacyProto: "netrpc"},
			Host: HostConf{Allowed: []string{"netrpc", "grpc"}, TLS: "none", Launch: "cmd", Legacy: 1, Script: "trap '' TERM; " + tail + "; exec sleep 30", StartTimeoutMs: 1500, CmdCancel: "sigterm"},
			Ops:  []string{"new", "start", "sleep:1500", "proc?", "kill", "proc?"}})
	}
	// the application had preset Cmd.Stdin to a reader that stays open and silent
	for _, name := range []string{"bad app version", "silence until timeout", "exit before output", "short line"} {
		cells = append(cells, Cell{Name: fmt.Sprintf("launch=cmd cause=%s, Cmd.Stdin preset to an idle pipe", name), Plugin: PluginConf{LegacyProto: "netrpc"},
			Host: HostConf{Allowed: []string{"netrpc", "grpc"}, TLS: "none", Launch: "cmd", Legacy: 1, Script: scripts[name], StartTimeoutMs: 1500, PresetStdin: "idle-pipe"},
			Ops:  []string{"new", "start", "sleep:1500", "proc?", "kill", "proc?"}})
	}
	// start timeouts so short that they have expired before the launch call returns (1 ns, 50 us, 2 ms), against a silent
	// plugin and against one that prints a valid-looking line at once
	for _, ns := range []int{1, 50_000, 2_000_000} {
		for _, launch := range []string{"cmd", "runner"} {
			for name, sc := range map[string]string{"silence": "exec sleep 30", "prompt bad line": "echo '1|9|tcp|127.0.0.1:1'; exec sleep 30"} {
				cells = append(cells, Cell{Name: fmt.Sprintf("launch=%s cause=start timeout of %d ns, plugin: %s", launch, ns, name), Plugin: PluginConf{LegacyProto: "netrpc"},
					Host: HostConf{Allowed: []string{"netrpc", "grpc"}, TLS: "none", Launch: launch, Legacy: 1, Script: sc, StartTimeoutNs: ns},
					Ops:  []string{"new", "start", "sleep:1500", "proc?", "kill", "proc?"}})
			}
		}
	}
	// two clients built from one ClientConfig (custom runner, one UnixSocketConfig value), both starts fail while the other
	// client is still around; each is killed afterwards, in either order: both socket directories are gone
	for _, name := range []string{"bad app version", "short line", "silence until timeout"} {
		for _, order := range [][]string{{"kill:0", "kill:1"}, {"kill:1", "kill:0"}} {
			ops := append([]string{"new", "start", "new", "start", "sleep:1500", "proc?"}, order...)
			cells = append(cells, Cell{Name: fmt.Sprintf("launch=runner cause=%s, two clients from one ClientConfig, %s", name, strings.Join(order, " then ")), Plugin: PluginConf{LegacyProto: "netrpc"},
				Host: HostConf{Allowed: []string{"netrpc", "grpc"}, TLS: "none", Launch: "runner", Legacy: 1, Script: scripts[name], StartTimeoutMs: 1500, SharedConfig: true, SharedSocketCfg: true},
				Ops:  append(ops, "proc?")})
		}
	}
	results := runCells(base, cells)
	out := &enumResult{Exhaustive: true, Outcomes: map[string]int{}}
	for i, r := range results {
		c := cells[i]
		out.Evaluations++
		out.Distinct++
		bad := func(class, f string, a ...any) {
			out.Violations = append(out.Violations, enumViolation{Case: c.Name, Class: class, Msg: fmt.Sprintf(f, a...) + " [" + c.Name + "]"})
		}
		if r.HelperErr != "" {
			bad("L", "%s", r.HelperErr)
			continue
		}
		if r.Panic != "" {
			bad("PANIC", "host panicked: %s", r.Panic)
			continue
		}
		se, _ := opErr(r, "start")
		if se == "" {
			bad("S", "Start succeeded")
			continue
		}
		procs := []string{}
		for _, o := range r.Ops {
			if o.Op == "proc?" {
				procs = append(procs, o.Val)
			}
			if strings.HasPrefix(o.Op, "kill") && o.Ms > 10000 {
				bad("T", "Kill after a failed start took %d ms", o.Ms)
			}
		}
		if len(procs) == 2 {
			if procs[0] != "gone" {
				bad("L", "1.5 s after Start returned its error the launched process is still there (state %s)", procs[0])
			}
			if procs[1] != "gone" {
				bad("L", "after Kill the launched process is still there (state %s)", procs[1])
			}
		}
		if len(r.HostFiles) > 0 {
			bad("L", "temporary files left behind after Kill: %v", trimNames(r.HostFiles))
		}
		out.Outcomes[strings.Join(procs, ",")]++
		if len(out.Samples) < 3 && i%9 == 0 {
			out.Samples = append(out.Samples, map[string]any{"cell": c.Name, "start_error": se, "process_after": procs})
		}
	}
	emit(out)
}
