package e3

import (
	"fmt"
	"strings"
	"testing"
)

// reference state of the reattach machine
type rstate struct {
	alive   bool
	val     int
	clients int // number of client objects created (all attached to the same process)
	killed  bool
}

func (s rstate) key() string {
	return fmt.Sprintf("alive=%v val=%d clients=%d", s.alive, s.val, s.clients)
}

type revent struct {
	name string   // for the report
	ops  []string // helper ops
	// expectations, checked against the results of ops (same indices)
	expect []string // "", "ok", "err", "val=<n>", "notfound", "true"
}

// TestC15 — breadth-first search over reattach histories with a reference
// state machine; every transition is replayed on fresh real processes.
func TestC15(t *testing.T) {
	base := scratch(t)
	depth := 4
	maxClients := 2
	if tier() == "thorough" {
		depth, maxClients = 5, 3
	}
	type hist struct {
		events []revent
		st     rstate
	}
	start := revent{name: "S", ops: []string{"new", "start", "client", "dispense"}, expect: []string{"ok", "ok", "ok", "ok"}}
	frontier := []hist{{events: []revent{start}, st: rstate{alive: true, clients: 1}}}
	var all []hist
	states := map[string]bool{}
	transitions := 0
	for d := 1; d <= depth; d++ {
		var next []hist
		for _, h := range frontier {
			all = append(all, h)
			states[h.st.key()] = true
			if d == depth {
				continue
			}
			s := h.st
			var evs []struct {
				e  revent
				st rstate
			}
			add := func(e revent, st rstate) {
				evs = append(evs, struct {
					e  revent
					st rstate
				}{e, st})
			}
			if s.alive {
				if s.clients < maxClients {
					for j := 0; j < s.clients; j++ {
						add(revent{name: fmt.Sprintf("A(%d)", j), ops: []string{fmt.Sprintf("reattach:%d", j), "start", "client", "sameclient?", "dispense"}, expect: []string{"ok", "ok", "ok", "same", "ok"}},
							rstate{alive: true, val: s.val, clients: s.clients + 1})
					}
				}
				for j := 0; j < s.clients; j++ {
					v := 10*d + j + 1
					add(revent{name: fmt.Sprintf("W(%d,%d)", j, v), ops: []string{fmt.Sprintf("set:%d@%d", v, j)}, expect: []string{"ok"}}, rstate{alive: true, val: v, clients: s.clients})
					add(revent{name: fmt.Sprintf("Rd(%d)", j), ops: []string{fmt.Sprintf("get:@%d", j)}, expect: []string{fmt.Sprintf("val=%d", s.val)}}, s)
					add(revent{name: fmt.Sprintf("K(%d)", j), ops: []string{fmt.Sprintf("kill:%d", j), "pidgone"}, expect: []string{"ok", "true"}}, rstate{alive: false, val: s.val, clients: s.clients, killed: true})
				}
			} else {
				for j := 0; j < s.clients; j++ {
					// (asked twice: a failed reattach must not turn into a started client on the second call)
					add(revent{name: fmt.Sprintf("AD(%d)", j), ops: []string{fmt.Sprintf("reattach:%d", j), "start", "start", "client"}, expect: []string{"", "notfound", "notfound", "err"}}, s)
					// nothing listens any more, but the recorded pid is (now) a live process: a reused pid
					add(revent{name: fmt.Sprintf("ADL(%d)", j), ops: []string{fmt.Sprintf("reattachlive:%d", j), "start"}, expect: []string{"", "notfound"}}, s)
					add(revent{name: fmt.Sprintf("RdDead(%d)", j), ops: []string{fmt.Sprintf("get:@%d", j)}, expect: []string{"err"}}, s)
				}
			}
			for _, ev := range evs {
				transitions++
				nh := hist{events: append(append([]revent(nil), h.events...), ev.e), st: ev.st}
				next = append(next, nh)
			}
		}
		frontier = next
	}
	// every history (= path of the BFS tree) is one cell per protocol
	var cells []Cell
	var hs []hist
	slow := 0
	certPEM, keyPEM := genCert(t)
	// a plugin behind a container-like runner (the plugin sees the socket directory under another path): the application
	// reattaches with its own ReattachFunc whose runner translates addresses exactly as the launching runner does
	for _, proto := range []string{"netrpc", "grpc"} {
		for _, h := range all {
			if len(h.events) > 3 {
				continue
			}
			var ops, names []string
			for _, e := range h.events {
				ops = append(ops, e.ops...)
				names = append(names, e.name)
			}
			if strings.Contains(strings.Join(names, " "), "AD") {
				continue // reattach after death goes through the default pid probe, which such a runner does not use
			}
			if h.st.alive {
				ops = append(ops, "kill:0")
			}
			cells = append(cells, Cell{
				Name:   fmt.Sprintf("%s plugin behind a runner that translates addresses history=[%s]", proto, strings.Join(names, " ")),
				Plugin: PluginConf{CookieKey: cookieKey, CookieValue: cookieVal, Legacy: 1, LegacyProto: proto, GRPCServer: true, TLS: "none"},
				Host:   HostConf{Allowed: []string{"netrpc", "grpc"}, TLS: "none", Launch: "runner-xlate", Legacy: 1},
				Ops:    ops,
			})
			hs = append(hs, h)
		}
	}
	// hand-made plugins (not plugin.Serve) that listen where such a plugin may: on a Linux abstract socket (unix|@name)
	for _, proto := range []string{"netrpc", "grpc"} {
		for _, h := range all {
			if len(h.events) > 3 {
				continue
			}
			var ops, names []string
			for _, e := range h.events {
				ops = append(ops, e.ops...)
				names = append(names, e.name)
			}
			if h.st.alive {
				ops = append(ops, "kill:0")
			}
			cells = append(cells, Cell{
				Name:   fmt.Sprintf("%s hand-made plugin on an abstract socket history=[%s]", proto, strings.Join(names, " ")),
				Plugin: PluginConf{CookieKey: cookieKey, CookieValue: cookieVal, Legacy: 1, LegacyProto: proto, GRPCServer: true, TLS: "none", Impostor: "handmade-abstract"},
				Host:   HostConf{Allowed: []string{"netrpc", "grpc"}, TLS: "none", Launch: "cmd", Legacy: 1},
				Ops:    ops,
			})
			hs = append(hs, h)
		}
	}
	for _, proto := range []string{"netrpc", "grpc"} {
		for _, hostVers := range [][]int{nil, {2}, {-1}} { // {-1}: (marker) the static-TLS variant, legacy plugins only
			for _, h := range all {
				if hostVers != nil && len(h.events) > 3 {
					continue // hosts that also configure VersionedPlugins / sessions over TLS: the shorter histories
				}
				var ops, names []string
				for _, e := range h.events {
					ops = append(ops, e.ops...)
					names = append(names, e.name)
				}
				if h.st.alive {
					ops = append(ops, "kill:0")
				}
				if len(hostVers) == 1 && hostVers[0] == -1 {
					// the plugin serves over TLS (TLSProvider) and every client, launching or reattaching, carries the matching TLSConfig
					cells = append(cells, Cell{
						Name:   fmt.Sprintf("%s tls=static history=[%s]", proto, strings.Join(names, " ")),
						Plugin: PluginConf{CookieKey: cookieKey, CookieValue: cookieVal, Legacy: 1, LegacyProto: proto, GRPCServer: true, TLS: "provider", CertPEM: certPEM, KeyPEM: keyPEM},
						Host:   HostConf{Allowed: []string{"netrpc", "grpc"}, TLS: "static", Launch: "cmd", Legacy: 1, CertPEM: certPEM, KeyPEM: keyPEM},
						Ops:    ops,
					})
					hs = append(hs, h)
					continue
				}
				cells = append(cells, Cell{
					Name:   fmt.Sprintf("%s host-versions=%v history=[%s]", proto, hostVers, strings.Join(names, " ")),
					Plugin: PluginConf{CookieKey: cookieKey, CookieValue: cookieVal, Legacy: 1, LegacyProto: proto, GRPCServer: true, TLS: "none"},
					Host:   HostConf{Allowed: []string{"netrpc", "grpc"}, TLS: "none", Launch: "cmd", Legacy: 1, Versions: hostVers},
					Ops:    ops,
				})
				hs = append(hs, h)
			}
		}
	}
	// a plugin whose process needs 20 s to exit after the shutdown request (cleanup after Serve returned): Kill on a
	// reattached client must still terminate it (the grace period is 2 s, then the pid is killed)
	for _, proto := range []string{"netrpc", "grpc"} {
		for _, h := range all {
			if len(h.events) > 3 || h.st.alive || !h.st.killed {
				continue
			}
			viaReattached := false
			var ops, names []string
			for _, e := range h.events {
				ops = append(ops, e.ops...)
				names = append(names, e.name)
				if strings.HasPrefix(e.name, "K(") && e.name != "K(0)" {
					viaReattached = true
				}
			}
			if !viaReattached {
				continue
			}
			cells = append(cells, Cell{
				Name:   fmt.Sprintf("%s slow-exit history=[%s]", proto, strings.Join(names, " ")),
				Plugin: PluginConf{CookieKey: cookieKey, CookieValue: cookieVal, Legacy: 1, LegacyProto: proto, GRPCServer: true, TLS: "none", ExitDelayMs: 20000},
				Host:   HostConf{Allowed: []string{"netrpc", "grpc"}, TLS: "none", Launch: "cmd", Legacy: 1},
				Ops:    ops,
			})
			hs = append(hs, h)
			slow++
		}
	}
	nReal := len(cells)
	// test mode: Kill on the reattached client must leave the in-process server serving
	for _, proto := range []string{"netrpc", "grpc"} {
		for _, ops := range [][]string{
			{"testserve:" + proto, "treattach", "start", "client", "sameclient?", "dispense", "set:7", "kill", "closed?", "treattach", "start", "client", "dispense", "get", "kill", "cancel"},
			{"testserve:" + proto, "treattach", "start", "client", "dispense", "set:7", "treattach", "start", "client", "dispense", "get", "kill:0", "get", "closed?", "cancel"},
			{"testserve:" + proto, "cancel"},
			// reattach after the test-mode server's context was cancelled: nothing listens, the pid (our own) is alive
			{"testserve:" + proto, "treattach", "start", "client", "dispense", "set:7", "kill", "cancel", "treattach", "start!notfound"},
			{"testserve:" + proto, "cancel", "treattach", "start!notfound", "start!notfound"},
			// a test-mode reattach config that also carries a ReattachFunc (custom runner): Kill must neither stop the
			// server nor ask the runner to kill anything
			{"testserve:" + proto, "treattachfn", "start", "client", "dispense", "set:7", "kill", "closed?", "fakekills?", "treattach", "start", "client", "dispense", "get", "kill", "cancel"},
			// second generation: a client reattached from a reattached client's own ReattachConfig
			{"testserve:" + proto, "treattach", "start", "client", "dispense", "set:7", "reattach:0", "start", "client", "dispense", "get", "kill:1", "closed?", "get:@0", "cancel"},
		} {
			cells = append(cells, Cell{Name: fmt.Sprintf("test-mode %s ops=%v", proto, ops[1:]), Plugin: PluginConf{LegacyProto: proto},
				Host: HostConf{Allowed: []string{"netrpc", "grpc"}, TLS: "none", Launch: "cmd", Legacy: 1}, Ops: ops})
		}
	}
	// a long-lived host: it reattached to a plugin and watched it for a while, that plugin is shut down, and later the host
	// reattaches to another plugin process that the kernel gave the same pid (pids are recycled); the second plugin is
	// the one that is used, watched and killed
	nTest := len(cells)
	for _, proto := range []string{"netrpc", "grpc"} {
		for _, watch := range []string{"1500", "300"} {
			cells = append(cells, Cell{
				Name:   fmt.Sprintf("recycled-pid %s first plugin watched for %s ms through a reattached client", proto, watch),
				Plugin: PluginConf{CookieKey: cookieKey, CookieValue: cookieVal, Legacy: 1, LegacyProto: proto, GRPCServer: true, TLS: "none"},
				Host:   HostConf{Allowed: []string{"netrpc", "grpc"}, TLS: "none", Launch: "cmd", Legacy: 1},
				Ops: []string{"new", "start", "client", "dispense", "reattach:0", "start", "client", "dispense", "sleep:" + watch, "kill:1", "pidgone", "kill:0",
					"spawnsamepid", "start", "client", "dispense", "set:7", "sleep:2500", "exited?", "get", "ping", "kill", "pidgone"},
			})
		}
	}
	// the application edits the copy of the reattach configuration it was given (an observer's copy marked Test, another
	// namespace's address) before it asks the client for the configuration again: the second one is the plugin's, unedited
	for _, proto := range []string{"netrpc", "grpc"} {
		cells = append(cells, Cell{
			Name:   fmt.Sprintf("edited-copy %s the first ReattachConfig() result is edited by the application, the second is used", proto),
			Plugin: PluginConf{CookieKey: cookieKey, CookieValue: cookieVal, Legacy: 1, LegacyProto: proto, GRPCServer: true, TLS: "none"},
			Host:   HostConf{Allowed: []string{"netrpc", "grpc"}, TLS: "none", Launch: "cmd", Legacy: 1},
			Ops:    []string{"new", "start", "client", "dispense", "set:7", "scribble:0", "reattach:0", "start", "client", "dispense", "get", "kill:1", "pidgone"},
		})
	}
	results := runCells(base, cells)
	out := &enumResult{Exhaustive: true, Outcomes: map[string]int{}, States: len(states), Transitions: transitions * 2}
	for i, r := range results {
		c := cells[i]
		out.Evaluations++
		out.Validated++ // every reference path is replayed against the implementation
		if len(c.Ops) > 5 {
			out.Distinct++
		}
		bad := func(f string, a ...any) {
			out.Violations = append(out.Violations, enumViolation{Case: c.Name, Class: "S", Msg: fmt.Sprintf(f, a...) + " [" + c.Name + "]"})
		}
		if r.HelperErr != "" {
			bad("%s", r.HelperErr)
			continue
		}
		if r.Panic != "" {
			out.Violations = append(out.Violations, enumViolation{Case: c.Name, Class: "PANIC", Msg: "host panicked: " + r.Panic + " [" + c.Name + "]"})
			continue
		}
		if i < nReal {
			h := hs[i]
			k := 0
			for _, e := range h.events {
				for j, want := range e.expect {
					if k >= len(r.Ops) {
						bad("operation %s of %s was never executed", e.ops[j], e.name)
						break
					}
					o := r.Ops[k]
					k++
					if strings.Contains(c.Name, "slow-exit") && strings.HasPrefix(o.Op, "kill") && o.Ms > 8000 {
						bad("%s: %s took %d ms: the slow plugin was not force-killed after the grace period", e.name, o.Op, o.Ms)
					}
					switch {
					case want == "ok" && o.Err != "":
						bad("%s: %s failed: %s", e.name, o.Op, o.Err)
					case want == "err" && o.Err == "":
						bad("%s: %s succeeded on a dead plugin (value %s)", e.name, o.Op, o.Val)
					case want == "notfound" && !strings.Contains(o.Err, "ErrProcessNotFound"):
						bad("%s: reattach after death gave %q, expected the process-not-found error", e.name, o.Err)
					case want == "same" && (o.Err != "" || o.Val != "same"):
						bad("%s: two Client() calls on the reattached client returned %s protocol clients (%s)", e.name, o.Val, o.Err)
					case want == "true" && o.Val != "true":
						bad("%s: plugin process still alive 10 s after Kill", e.name)
					case strings.HasPrefix(want, "val="):
						if o.Err != "" {
							bad("%s: %s failed: %s", e.name, o.Op, o.Err)
						} else if o.Val != want[4:] {
							bad("%s read %s, the last value written through any client is %s: not the same plugin instance", e.name, o.Val, want[4:])
						}
					}
					if strings.HasPrefix(o.Op, "reattach") && o.Err == "" && o.Val != c.Plugin.LegacyProto {
						bad("%s: reattach config carries protocol %q, plugin speaks %q", e.name, o.Val, c.Plugin.LegacyProto)
					}
				}
			}
			if r.PluginAlive {
				bad("plugin process still alive at the end of the history")
			}
			out.Outcomes["real-process"]++
		} else if i >= nTest {
			skipped := ""
			for _, o := range r.Ops {
				if strings.HasPrefix(o.Val, "skipped:") {
					skipped = o.Val
				}
			}
			if skipped != "" {
				out.Notes = append(out.Notes, c.Name+": undecided, "+skipped)
				out.Outcomes["recycled-pid undecided"]++
				continue
			}
			second := false
			for _, o := range r.Ops {
				if o.Op == "spawnsamepid" {
					second = true
				}
				switch {
				case o.Err != "":
					bad("%s failed: %s", o.Op, o.Err)
				case o.Op == "pidgone" && o.Val != "true":
					bad("plugin process still alive 10 s after Kill (second plugin: %v)", second)
				case o.Op == "exited?" && o.Val != "false":
					bad("the client reattached to the second plugin reports it as exited while it is serving")
				case o.Op == "get" && o.Val != "7":
					bad("read %s through the client reattached to the second plugin, wrote 7", o.Val)
				}
			}
			if r.PluginAlive {
				bad("plugin process still alive at the end of the history")
			}
			out.Outcomes["recycled-pid"]++
		} else {
			// test mode: nothing may fail; the server is still serving after Kill; cancel closes CloseCh
			for k, o := range r.Ops {
				if k < len(c.Ops) && strings.HasSuffix(c.Ops[k], "!notfound") {
					if !strings.Contains(o.Err, "ErrProcessNotFound") {
						bad("test mode: reattach after the server's context was cancelled gave %q, expected the process-not-found error", o.Err)
					}
					continue
				}
				if o.Err != "" {
					bad("test mode: %s failed: %s", o.Op, o.Err)
				}
				if o.Op == "sameclient?" && o.Val != "same" {
					bad("test mode: two Client() calls on the reattached client returned %s protocol clients", o.Val)
				}
				if o.Op == "fakekills?" && o.Val != "0" {
					bad("test mode: Kill on the reattached client asked the runner to kill the serving process (%s times)", o.Val)
				}
				if o.Op == "closed?" && o.Val != "serving" {
					bad("test mode: the server stopped although only the client was killed")
				}
				if o.Op == "get" && o.Val != "7" {
					bad("test mode: read %s after a fresh reattach, wrote 7", o.Val)
				}
			}
			out.Outcomes["test-mode"]++
		}
		if len(out.Samples) < 3 && i%29 == 3 {
			out.Samples = append(out.Samples, map[string]any{"history": c.Name, "ops": c.Ops})
		}
	}
	emit(out)
}
