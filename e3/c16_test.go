package e3

import (
	"bufio"
	"encoding/base64"
	"encoding/json"
	"fmt"
	"io"
	"net"
	"os"
	"os/exec"
	"path/filepath"
	"runtime"
	"strconv"
	"strings"
	"sync"
	"syscall"
	"testing"
	"time"
	"unsafe"
)

type c16case struct {
	cookie    string // "\x00" = unset
	cfgKey    string
	cfgVal    string
	proto     string
	tls       string // none | provider | clientcert
	versioned bool
	mux       string // "\x00" unset
	versions  string // PLUGIN_PROTOCOL_VERSIONS; "" = the default "1,2", "\x00" = unset
	slowInit  bool   // the plugin's registration hook takes 5.5 s (gRPC only)
	dirName   string // name of the socket / temp directory the host hands to the plugin ("" = a plain name)
	chatter   bool   // plugin code prints to os.Stdout / os.Stderr by itself as soon as it is being served
	ttyErr    bool   // the plugin's stderr is a terminal (somebody ran the binary by hand, or the host gives its plugins a pty)
	group     string // PLUGIN_UNIX_SOCKET_GROUP ("" = unset): the host is a member of that group, not the plugin's user
	noSockDir bool   // PLUGIN_UNIX_SOCKET_DIR unset (what Client does for the default command runner): the socket goes to TMPDIR
}

func (c c16case) String() string {
	q := func(s string) string {
		if s == "\x00" {
			return "<unset>"
		}
		return strconv.Quote(s)
	}
	s := fmt.Sprintf("cookie=%s configured{key=%q,value=%q} %s tls=%s versioned=%v PLUGIN_MULTIPLEX_GRPC=%s", q(c.cookie), c.cfgKey, c.cfgVal, c.proto, c.tls, c.versioned, q(c.mux))
	if c.versions != "" {
		s += " PLUGIN_PROTOCOL_VERSIONS=" + q(strings.TrimPrefix(c.versions, "="))
	}
	if c.slowInit {
		s += " slow-init(5.5s)"
	}
	if c.dirName != "" {
		s += fmt.Sprintf(" socket-dir-name=%q", c.dirName)
	}
	if c.chatter {
		s += " plugin-prints-to-its-stdout"
	}
	if c.ttyErr {
		s += " stderr-is-a-terminal"
	}
	if c.group != "" {
		s += fmt.Sprintf(" PLUGIN_UNIX_SOCKET_GROUP=%s PLUGIN_UNIX_SOCKET_DIR-set=%v host-is-another-user-in-that-group", c.group, !c.noSockDir)
	}
	return s
}

// TestC16 — a real vplugin process per case: cookie gate, exit status, raw
// handshake line, listener-before-line, nothing else on stdout.
func TestC16(t *testing.T) {
	base := scratch(t)
	vp := filepath.Join(base, "vplugin")
	certPEM, keyPEM := genCert(t)
	var cases []c16case
	for _, ck := range []string{"\x00", "", cookieVal, cookieVal[:4], cookieVal[2:], cookieVal + " ", strings.ToUpper(cookieVal), "other"} {
		for _, kv := range [][2]string{{cookieKey, cookieVal}, {"", cookieVal}, {cookieKey, ""}} {
			for _, proto := range []string{"netrpc", "grpc"} {
				for _, tl := range []string{"none", "provider", "clientcert"} {
					for _, vd := range []bool{false, true} {
						for _, mx := range []string{"\x00", "", "true", "false", "1", "junk"} {
							cases = append(cases, c16case{ck, kv[0], kv[1], proto, tl, vd, mx, "", false, "", false, false, "", false})
						}
					}
				}
			}
		}
	}
	// version lists a host may send (right cookie): unset, empty, partly or wholly unparsable, no common version.
	// Whatever the list, the first stdout line is the handshake line and nothing else is written there.
	for _, vl := range []string{"\x00", "=", "=1", "=2", "=2,x", "=1, 2", "=1,2,", "=x", "=9", "=,", "=0"} {
		for _, proto := range []string{"netrpc", "grpc"} {
			for _, vd := range []bool{false, true} {
				for _, mx := range []string{"\x00", "true"} {
					cases = append(cases, c16case{cookieVal, cookieKey, cookieVal, proto, "none", vd, mx, vl, false, "", false, false, "", false})
				}
			}
		}
	}
	// a TLSProvider that fails: without the right cookie the binary still refuses (status 1, nothing printed)
	for _, ck := range []string{"\x00", "", cookieVal[:4], cookieVal + " ", strings.ToUpper(cookieVal), "other"} {
		for _, proto := range []string{"netrpc", "grpc"} {
			cases = append(cases, c16case{ck, cookieKey, cookieVal, proto, "provider-fail", false, "\x00", "", false, "", false, false, "", false})
		}
	}
	// a plugin whose start-up work takes longer than any internal timer of go-plugin: the line still comes with
	// a listener that accepts
	for _, tl := range []string{"none", "clientcert"} {
		for _, mx := range []string{"\x00", "true", "false"} {
			cases = append(cases, c16case{cookieVal, cookieKey, cookieVal, "grpc", tl, false, mx, "", true, "", false, false, "", false})
		}
	}
	// socket directories whose names contain characters that mean something to a formatter or a shell
	for _, dn := range []string{"50%off", "a%20b", "100%", "%s%d%v", "with space", "tab\there", "dollar$HOME", "back\\slash", "quote'\"", "ünï-cödé", "SYMLINK/.."} {
		for _, proto := range []string{"netrpc", "grpc"} {
			for _, mx := range []string{"\x00", "true"} {
				cases = append(cases, c16case{cookie: cookieVal, cfgKey: cookieKey, cfgVal: cookieVal, proto: proto, tls: "none", mux: mx, dirName: dn})
			}
		}
	}
	// the plugin's stderr is a pseudo terminal (the binary run by hand, or a host that gives its plugins a pty)
	for _, ck := range []string{"\x00", "", cookieVal[:4], cookieVal + " ", strings.ToUpper(cookieVal), "other", cookieVal} {
		for _, proto := range []string{"netrpc", "grpc"} {
			cases = append(cases, c16case{cookie: ck, cfgKey: cookieKey, cfgVal: cookieVal, proto: proto, tls: "none", mux: "\x00", ttyErr: true})
		}
	}
	// plugin code that prints to its own stdout / stderr right after serving began: that output belongs to the sync
	// streams, the real stdout still carries the handshake line only
	for _, proto := range []string{"netrpc", "grpc"} {
		for _, mx := range []string{"\x00", "true"} {
			for _, tl := range []string{"none", "clientcert"} {
				cases = append(cases, c16case{cookie: cookieVal, cfgKey: cookieKey, cfgVal: cookieVal, proto: proto, tls: tl, mux: mx, chatter: true})
			}
		}
	}
	// the host runs as another user who is a member of the configured socket group (what the group setting is for):
	// with and without a socket directory handed over, group given by name and by number
	os.Chmod(base, 0o755)
	for _, proto := range []string{"netrpc", "grpc"} {
		for _, g := range []string{"daemon", "1"} {
			for _, nd := range []bool{false, true} {
				for _, mx := range []string{"\x00", "true"} {
					cases = append(cases, c16case{cookie: cookieVal, cfgKey: cookieKey, cfgVal: cookieVal, proto: proto, tls: "none", mux: mx, group: g, noSockDir: nd})
				}
			}
		}
	}
	out := &enumResult{Exhaustive: true, Outcomes: map[string]int{}}
	var mu sync.Mutex
	sem := make(chan struct{}, 16)
	var wg sync.WaitGroup
	for i, c := range cases {
		wg.Add(1)
		sem <- struct{}{}
		go func(i int, c c16case) {
			defer wg.Done()
			defer func() { <-sem }()
			dir := filepath.Join(base, fmt.Sprintf("c16-%05d", i))
			os.MkdirAll(dir, 0o755)
			defer os.RemoveAll(dir)
			if c.dirName == "SYMLINK/.." {
				// the socket directory's path goes through a symbolic link followed by "..": l -> deep/dir, the directory is
				// l/../s, which the kernel resolves to deep/s (a lexical clean-up would name another place)
				os.MkdirAll(filepath.Join(dir, "deep", "dir"), 0o755)
				os.MkdirAll(filepath.Join(dir, "deep", "s"), 0o755)
				os.Symlink(filepath.Join("deep", "dir"), filepath.Join(dir, "l"))
				dir = dir + "/l/../s"
			} else if c.dirName != "" {
				dir = filepath.Join(dir, c.dirName)
				os.MkdirAll(dir, 0o755)
			}
			pc := PluginConf{CookieKey: c.cfgKey, CookieValue: c.cfgVal, Legacy: 1, LegacyProto: c.proto, GRPCServer: true, TLS: "none"}
			if c.versioned {
				pc.Legacy = -1
				pc.Versions = map[string]string{"1": c.proto, "2": c.proto}
			}
			if c.tls == "provider" {
				pc.TLS, pc.CertPEM, pc.KeyPEM = "provider", certPEM, keyPEM
			}
			if c.tls == "provider-fail" {
				pc.TLS = "provider-fail"
			}
			if c.slowInit {
				pc.InitDelayMs = 5500
			}
			pc.Chatter = c.chatter
			pj, _ := json.Marshal(pc)
			cmd := exec.Command(vp)
			cmd.Env = []string{"VP_CONF=" + string(pj), "TMPDIR=" + dir, "PLUGIN_UNIX_SOCKET_DIR=" + dir}
			if c.noSockDir {
				cmd.Env = cmd.Env[:2]
			}
			if c.group != "" {
				cmd.Env = append(cmd.Env, "PLUGIN_UNIX_SOCKET_GROUP="+c.group)
			}
			switch {
			case c.versions == "":
				cmd.Env = append(cmd.Env, "PLUGIN_PROTOCOL_VERSIONS=1,2")
			case c.versions != "\x00":
				cmd.Env = append(cmd.Env, "PLUGIN_PROTOCOL_VERSIONS="+c.versions[1:])
			}
			if c.cookie != "\x00" && c.cfgKey != "" {
				cmd.Env = append(cmd.Env, c.cfgKey+"="+c.cookie)
			}
			if c.cookie != "\x00" && c.cfgKey == "" {
				cmd.Env = append(cmd.Env, cookieKey+"="+c.cookie)
			}
			if c.mux != "\x00" {
				cmd.Env = append(cmd.Env, "PLUGIN_MULTIPLEX_GRPC="+c.mux)
			}
			if c.tls == "clientcert" {
				cmd.Env = append(cmd.Env, "PLUGIN_CLIENT_CERT="+certPEM)
			}
			stdout, _ := cmd.StdoutPipe()
			cmd.Stderr = io.Discard
			if c.ttyErr {
				master, slave, err := openPty()
				if err != nil {
					mu.Lock()
					out.Violations = append(out.Violations, enumViolation{Case: c.String(), Class: "ENGINE", Msg: "no pseudo terminal available: " + err.Error()})
					mu.Unlock()
					return
				}
				cmd.Stderr = slave
				go io.Copy(io.Discard, master) // somebody reads the terminal
				defer master.Close()
				defer slave.Close()
			}
			var viol []string
			bad := func(f string, a ...any) { viol = append(viol, fmt.Sprintf(f, a...)) }
			if err := cmd.Start(); err != nil {
				bad("cannot start vplugin: %v", err)
			} else {
				shouldServe := c.cfgKey != "" && c.cfgVal != "" && c.cookie == c.cfgVal
				br := bufio.NewReaderSize(stdout, 1<<16)
				lineCh := make(chan string, 1)
				restCh := make(chan []byte, 1)
				go func() {
					l, _ := br.ReadString('\n')
					lineCh <- l
					rest, _ := io.ReadAll(br)
					restCh <- rest
				}()
				waitCh := make(chan error, 1)
				go func() { waitCh <- cmd.Wait() }()
				if !shouldServe {
					select {
					case err := <-waitCh:
						code := -1
						if ee, ok := err.(*exec.ExitError); ok {
							code = ee.ExitCode()
						} else if err == nil {
							code = 0
						}
						if code != 1 {
							bad("exit status %d, expected 1", code)
						}
					case <-time.After(10 * time.Second):
						bad("plugin without the right cookie still running after 10 s")
						cmd.Process.Kill()
						<-waitCh
					}
					l := <-lineCh
					rest := <-restCh
					if l != "" || len(rest) != 0 {
						bad("wrote %q to stdout", l+string(rest))
					}
					if ents := listDir(dir); len(ents) != 0 {
						bad("created %v in its socket directory", ents)
					}
				} else {
					var line string
					select {
					case line = <-lineCh:
					case err := <-waitCh:
						bad("exited (%v) instead of serving", err)
					case <-time.After(20 * time.Second):
						bad("no handshake line within 20 s")
					}
					if line != "" {
						// the announced address must already accept connections
						f := strings.Split(strings.TrimSuffix(line, "\n"), "|")
						wantFields := 6
						if c.mux != "\x00" && c.mux != "" {
							wantFields = 7
						}
						if len(f) != wantFields {
							bad("handshake line has %d fields, expected %d: %q", len(f), wantFields, line)
						}
						if len(f) >= 6 {
							if f[0] != "1" {
								bad("core protocol field %q", f[0])
							}
							// reference: highest version both offered (parsable entries only) and served, else the lowest served
							served := []int{1}
							if c.versioned {
								served = []int{2, 1}
							}
							offered := map[int]bool{1: true, 2: true}
							if c.versions != "" {
								offered = map[int]bool{}
								if c.versions != "\x00" {
									for _, tok := range strings.Split(c.versions[1:], ",") {
										if n, err := strconv.Atoi(tok); err == nil {
											offered[n] = true
										}
									}
								}
							}
							want := served[len(served)-1]
							for _, v := range served {
								if offered[v] {
									want = v
									break
								}
							}
							if f[1] != strconv.Itoa(want) {
								bad("announced version %s, expected %d (highest common, else the lowest served)", f[1], want)
							}
							inDir := strings.HasPrefix(f[3], dir+"/")
							if !inDir { // another spelling of the same place is as good
								a, e1 := filepath.EvalSymlinks(filepath.Dir(f[3]))
								b, e2 := filepath.EvalSymlinks(dir)
								inDir = e1 == nil && e2 == nil && a == b
							}
							if f[2] != "unix" || !inDir {
								bad("address %s|%s is not a unix socket in the socket dir", f[2], f[3])
							}
							if f[4] != c.proto {
								bad("protocol field %q, serving %s", f[4], c.proto)
							}
							if c.tls == "clientcert" {
								if _, err := base64.RawStdEncoding.DecodeString(f[5]); err != nil || len(f[5]) < 100 {
									bad("certificate field is not base64 DER: %.40q", f[5])
								}
							} else if f[5] != "" {
								bad("certificate field %.40q although no client certificate was supplied", f[5])
							}
							if len(f) == 7 && f[6] != "true" {
								bad("seventh field %q", f[6])
							}
							conn, err := net.DialTimeout(f[2], f[3], 2*time.Second)
							if err != nil {
								bad("announced address not accepting connections when the line appeared: %v", err)
							} else {
								conn.Close()
							}
							if c.group != "" && err == nil {
								if err := dialAs(65534, 1, f[3], dir); err != nil {
									bad("announced address cannot be connected to by a host that is a member of the configured socket group (uid 65534, gid 1): %v", err)
								}
							}
						}
						time.Sleep(150 * time.Millisecond)
						if c.chatter {
							time.Sleep(450 * time.Millisecond)
						}
					}
					cmd.Process.Kill()
					<-waitCh
					if line != "" {
						if rest := <-restCh; len(rest) != 0 {
							bad("go-plugin wrote more to the real stdout after the handshake line: %.80q", rest)
						}
					}
				}
			}
			mu.Lock()
			out.Evaluations++
			if c.cookie != cookieVal || c.cfgKey == "" || c.cfgVal == "" || c.mux != "\x00" || c.tls != "none" {
				out.Distinct++
			}
			for _, v := range viol {
				out.Violations = append(out.Violations, enumViolation{Case: c.String(), Class: "S", Msg: v + " [" + c.String() + "]"})
			}
			if len(out.Samples) < 3 && i%577 == 0 {
				out.Samples = append(out.Samples, c.String())
			}
			mu.Unlock()
		}(i, c)
	}
	wg.Wait()
	emit(out)
}

// openPty opens a pseudo terminal pair through /dev/ptmx.
func openPty() (master, slave *os.File, err error) {
	master, err = os.OpenFile("/dev/ptmx", os.O_RDWR|syscall.O_NOCTTY, 0)
	if err != nil {
		return nil, nil, err
	}
	var unlock int32
	if _, _, e := syscall.Syscall(syscall.SYS_IOCTL, master.Fd(), syscall.TIOCSPTLCK, uintptr(unsafe.Pointer(&unlock))); e != 0 {
		master.Close()
		return nil, nil, e
	}
	var n uint32
	if _, _, e := syscall.Syscall(syscall.SYS_IOCTL, master.Fd(), syscall.TIOCGPTN, uintptr(unsafe.Pointer(&n))); e != 0 {
		master.Close()
		return nil, nil, e
	}
	slave, err = os.OpenFile(fmt.Sprintf("/dev/pts/%d", n), os.O_RDWR|syscall.O_NOCTTY, 0)
	if err != nil {
		master.Close()
		return nil, nil, err
	}
	return master, slave, nil
}

// dialAs connects to a unix socket the way a process with that user and group id would be allowed to: the calling
// thread's filesystem uid/gid are switched (setfsuid/setfsgid are per thread and drop CAP_DAC_OVERRIDE while non-zero);
// the thread is not reused afterwards. control is a directory made by the test on the way to the socket: if that user
// cannot reach even that, nothing is decided.
func dialAs(uid, gid uintptr, path, control string) error {
	res := make(chan error, 1)
	go func() {
		runtime.LockOSThread() // never unlocked: the thread ends with the goroutine
		syscall.RawSyscall(syscall.SYS_SETFSGID, gid, 0, 0)
		syscall.RawSyscall(syscall.SYS_SETFSUID, uid, 0, 0)
		if cur, _, _ := syscall.RawSyscall(syscall.SYS_SETFSUID, uid, 0, 0); cur != uid {
			res <- nil // not privileged enough to impersonate anybody: nothing to decide
			return
		}
		if _, err := os.Stat(control); err != nil {
			res <- nil // that user cannot even reach the directory the test itself made: the rig decides nothing
			return
		}
		c, err := net.Dial("unix", path)
		if err == nil {
			c.Close()
		}
		res <- err
	}()
	return <-res
}
