package e3

import (
	"fmt"
	"strings"
	"testing"
)

// TestC03Proc — the real process half of C03: a real plugin process is killed (SIGKILL, from outside) after the
// session has been up for a while; every client attached to it — the launching one and one reattached to the
// same process — reports the plugin as exited promptly whatever the uptime was, calls on dispensed objects
// and Ping return errors instead of hanging, and Kill returns.
func TestC03Proc(t *testing.T) {
	base := scratch(t)
	ups := []int{200, 2500, 6600}
	if tier() == "thorough" {
		ups = append(ups, 3400, 13000, 26000)
	}
	var cells []Cell
	for _, proto := range []string{"netrpc", "grpc"} {
		for _, re := range []bool{false, true} {
			for _, up := range ups {
				ops := []string{"new", "start", "client", "dispense", "set:5"}
				n := 1
				if re {
					ops = append(ops, "reattach:0", "start", "client", "dispense", "get")
					n = 2
				}
				ops = append(ops, fmt.Sprintf("sleep:%d", up), "sigkillplugin")
				for i := n - 1; i >= 0; i-- {
					ops = append(ops, fmt.Sprintf("exitedin:%d", i))
				}
				for i := n - 1; i >= 0; i-- {
					ops = append(ops, fmt.Sprintf("get:@%d", i))
				}
				ops = append(ops, "ping")
				for i := n - 1; i >= 0; i-- {
					ops = append(ops, fmt.Sprintf("kill:%d", i))
				}
				cells = append(cells, Cell{
					Name:   fmt.Sprintf("%s reattached=%v killed after %d ms", proto, re, up),
					Plugin: PluginConf{CookieKey: cookieKey, CookieValue: cookieVal, Legacy: 1, LegacyProto: proto, GRPCServer: true, TLS: "none"},
					Host:   HostConf{Allowed: []string{"netrpc", "grpc"}, TLS: "none", Launch: "cmd", Legacy: 1, SkipHostEnv: true},
					Ops:    ops,
				})
			}
		}
	}
	// the application had preset Cmd.Stdin to a reader that stays open and silent: the death is still reported
	for _, proto := range []string{"netrpc", "grpc"} {
		cells = append(cells, Cell{
			Name:   fmt.Sprintf("%s killed after connecting, Cmd.Stdin preset to an idle pipe", proto),
			Plugin: PluginConf{CookieKey: cookieKey, CookieValue: cookieVal, Legacy: 1, LegacyProto: proto, GRPCServer: true, TLS: "none"},
			Host:   HostConf{Allowed: []string{"netrpc", "grpc"}, TLS: "none", Launch: "cmd", Legacy: 1, SkipHostEnv: true, PresetStdin: "idle-pipe"},
			Ops:    []string{"new", "start", "client", "dispense", "set:5", "sigkillplugin", "exitedin:0", "get:@0", "ping", "kill:0"},
		})
	}
	// the plugin dies between Start and the first Client() call; the host may have asked for blocking dials
	// (GRPCDialOptions: grpc.WithBlock()): Client() still returns an error in bounded time and nothing else blocks behind it
	for _, proto := range []string{"netrpc", "grpc"} {
		for _, block := range []bool{false, true} {
			if block && proto != "grpc" {
				continue
			}
			cells = append(cells, Cell{
				Name:   fmt.Sprintf("%s killed between Start and Client(), blocking dial=%v", proto, block),
				Plugin: PluginConf{CookieKey: cookieKey, CookieValue: cookieVal, Legacy: 1, LegacyProto: proto, GRPCServer: true, TLS: "none"},
				Host:   HostConf{Allowed: []string{"netrpc", "grpc"}, TLS: "none", Launch: "cmd", Legacy: 1, SkipHostEnv: true, GRPCBlock: block},
				Ops:    []string{"new", "start", "sigkillplugin", "client", "exitedin:0", "kill:0"},
			})
			// the plugin dies after a blocking dial had succeeded: later calls fail, a second Client() is the cached one
			cells = append(cells, Cell{
				Name:   fmt.Sprintf("%s killed after connecting, blocking dial=%v", proto, block),
				Plugin: PluginConf{CookieKey: cookieKey, CookieValue: cookieVal, Legacy: 1, LegacyProto: proto, GRPCServer: true, TLS: "none"},
				Host:   HostConf{Allowed: []string{"netrpc", "grpc"}, TLS: "none", Launch: "cmd", Legacy: 1, SkipHostEnv: true, GRPCBlock: block},
				Ops:    []string{"new", "start", "client", "dispense", "set:5", "sigkillplugin", "get:@0", "ping", "exitedin:0", "kill:0"},
			})
		}
	}
	results := runCells(base, cells)
	out := &enumResult{Exhaustive: true, Outcomes: map[string]int{}}
	for i, r := range results {
		c := cells[i]
		out.Evaluations++
		out.Distinct++
		bad := func(class, f string, a ...any) {
			out.Violations = append(out.Violations, enumViolation{Case: c.Name, Class: class, Msg: fmt.Sprintf(f, a...) + " [" + c.Name + "]"})
		}
		if r.HelperErr != "" {
			bad("L", "%s", r.HelperErr)
			continue
		}
		if r.Panic != "" {
			bad("PANIC", "host panicked: %s", r.Panic)
			continue
		}
		dead := false
		sum := ""
		for _, o := range r.Ops {
			name, _, _ := strings.Cut(o.Op, ":")
			switch {
			case name == "sigkillplugin":
				dead = true
				if o.Err != "" {
					bad("ENGINE", "could not kill the plugin: %s", o.Err)
				}
			case !dead:
				if o.Err != "" {
					bad("S", "session failed before the plugin was killed, at %s: %s", o.Op, o.Err)
				}
			case name == "exitedin":
				// the launching client learns of the death from wait(2), a reattached one polls the pid once a second
				if o.Err != "" {
					bad("L", "%s: %s", o.Op, o.Err)
				} else if o.Ms > 4000 {
					bad("T", "%s: Exited() turned true only %d ms after the plugin was killed (bound 4000 ms)", o.Op, o.Ms)
				}
				sum += "exited "
			case name == "client":
				// (net/rpc: the unix socket of a dead plugin refuses; gRPC without WithBlock connects lazily and may return a client)
				if o.Ms > 8000 {
					bad("T", "%s returned only after %d ms although the plugin process had been killed", o.Op, o.Ms)
				}
				sum += "client "
			case name == "get" || name == "ping":
				if o.Err == "" {
					bad("S", "%s succeeded although the plugin process had been killed", o.Op)
				} else if o.Ms > 8000 {
					bad("T", "%s returned its error only after %d ms", o.Op, o.Ms)
				}
				sum += "err "
			case name == "kill":
				if o.Ms > 8000 {
					bad("T", "%s took %d ms on a client whose plugin was dead", o.Op, o.Ms)
				}
				if o.Val != "true" {
					bad("S", "%s: Exited()=%s after Kill", o.Op, o.Val)
				}
			}
		}
		out.Outcomes[strings.TrimSpace(sum)]++
		if len(out.Samples) < 3 && i%5 == 0 {
			out.Samples = append(out.Samples, map[string]any{"cell": c.Name, "ops": r.Ops})
		}
	}
	emit(out)
}
