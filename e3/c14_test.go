package e3

import (
	"bufio"
	"encoding/json"
	"fmt"
	"os"
	"os/exec"
	"path/filepath"
	"strings"
	"testing"
	"time"
)

// TestC14 — the compatibility matrix: a real Serve child paired with a real Client.
func TestC14(t *testing.T) {
	base := scratch(t)
	certPEM, keyPEM := genCert(t)
	type exp struct {
		kind string // ok | start-error | use-error
		text string // substring required in the first error (start-error)
	}
	var cells []Cell
	var exps []exp
	full := []string{"new", "start", "client", "dispense", "set:5", "get", "callback", "revcallback", "ping", "big:5000000", "print:x", "kill"}
	add := func(c Cell, e exp) { cells = append(cells, c); exps = append(exps, e) }
	allowedSets := [][]string{nil, {"netrpc"}, {"grpc"}, {"netrpc", "grpc"}, {}} // ({}: an explicit empty list allows nothing; only nil means the net/rpc default)
	launches := []string{"cmd", "runner"}
	if tier() == "quick" {
		launches = []string{"cmd"}
	}
	for _, proto := range []string{"netrpc", "grpc"} {
		for _, ptls := range []string{"none", "provider"} {
			for _, al := range allowedSets {
				for _, htls := range []string{"none", "static", "auto"} {
					for _, mux := range []bool{false, true} {
						for _, launch := range launches {
							if tier() == "quick" && launch == "runner" && (mux || htls != "none") {
								continue
							}
							pc := PluginConf{CookieKey: cookieKey, CookieValue: cookieVal, Legacy: 1, LegacyProto: proto, GRPCServer: true, TLS: ptls}
							if ptls == "provider" {
								pc.CertPEM, pc.KeyPEM = certPEM, keyPEM
							}
							hc := HostConf{Allowed: al, TLS: htls, Mux: mux, Launch: launch, Legacy: 1, CertPEM: certPEM, KeyPEM: keyPEM}
							name := fmt.Sprintf("plugin{%s,tls=%s} host{allowed=%v,tls=%s,mux=%v,launch=%s}", proto, ptls, al, htls, mux, launch)
							e := exp{kind: "ok"}
							allowed := map[string]bool{}
							if al == nil {
								allowed["netrpc"] = true
							}
							for _, a := range al {
								allowed[a] = true
							}
							switch {
							case !allowed[proto]:
								e = exp{kind: "start-error", text: "Unsupported plugin protocol"}
							case ptls == "provider" && htls != "static":
								e = exp{kind: "use-error"}
							case ptls == "none" && htls == "static":
								e = exp{kind: "use-error"}
							}
							add(Cell{Name: name, Plugin: pc, Host: hc, Ops: full}, e)
						}
					}
				}
			}
		}
	}
	// a working session stays working once more time than the start timeout (10 s here) has passed
	for _, proto := range []string{"netrpc", "grpc"} {
		for _, htls := range []string{"none", "static", "auto"} {
			pc := PluginConf{CookieKey: cookieKey, CookieValue: cookieVal, Legacy: 1, LegacyProto: proto, GRPCServer: true, TLS: "none"}
			if htls == "static" {
				pc.TLS, pc.CertPEM, pc.KeyPEM = "provider", certPEM, keyPEM
			}
			add(Cell{Name: fmt.Sprintf("long-lived plugin{%s} host{tls=%s}: used again 12 s after connecting", proto, htls), Plugin: pc,
				Host: HostConf{Allowed: []string{"netrpc", "grpc"}, TLS: htls, Launch: "cmd", Legacy: 1, CertPEM: certPEM, KeyPEM: keyPEM},
				Ops:  []string{"new", "start", "client", "dispense", "set:5", "sleep:12000", "get", "ping", "callback", "dispense", "get", "kill"}}, exp{kind: "ok"})
		}
	}
	// one host process, two plugins at once (one Client per plugin, as documented): the first pair keeps working end to end
	// after the second was started, including connections that need a fresh handshake (brokered connections, a first
	// Client() call that comes after the other plugin's Start)
	for _, proto := range []string{"netrpc", "grpc"} {
		for _, htls := range []string{"none", "auto"} {
			for _, mux := range []bool{false, true} {
				if mux && proto != "grpc" {
					continue
				}
				pc := PluginConf{CookieKey: cookieKey, CookieValue: cookieVal, Legacy: 1, LegacyProto: proto, GRPCServer: true, TLS: "none"}
				hc := HostConf{Allowed: []string{"netrpc", "grpc"}, TLS: htls, Mux: mux, Launch: "cmd", Legacy: 1}
				add(Cell{Name: fmt.Sprintf("two plugins at once plugin{%s} host{tls=%s,mux=%v}: first used after the second connected", proto, htls, mux), Plugin: pc, Host: hc,
					Ops: []string{"new", "start", "client", "dispense", "set:5", "new", "start", "client", "dispense", "set:6", "get:@0", "callback:@0", "revcallback:@0", "ping", "dispense:@0", "get:@0", "callback:@1", "get:@1", "kill:1", "get:@0", "callback:@0", "kill:0"}}, exp{kind: "ok"})
				add(Cell{Name: fmt.Sprintf("two plugins at once plugin{%s} host{tls=%s,mux=%v}: both started before either connects", proto, htls, mux), Plugin: pc, Host: hc,
					Ops: []string{"new", "start", "new", "start", "client:@0", "dispense:@0", "set:5@0", "client:@1", "dispense:@1", "set:6@1", "get:@0", "callback:@0", "callback:@1", "get:@1", "kill:0", "get:@1", "kill:1"}}, exp{kind: "ok"})
			}
		}
	}
	// multiplexing requested from a plugin that does not advertise it
	// (every shape a plugin that knows nothing about multiplexing may print: 5 fields as non-Go plugins do,
	// an empty or absent certificate field, an explicit false; an unparsable flag is a different error)
	for _, line := range []string{"1|1|tcp|127.0.0.1:1234|grpc", "1|1|unix|/tmp/p.sock|grpc", "1|1|tcp|127.0.0.1:1234|grpc|", "1|1|tcp|127.0.0.1:1234|grpc||false"} {
		for _, launch := range []string{"cmd", "runner"} {
			add(Cell{Name: "mux requested (launch=" + launch + "), plugin line " + line, Host: HostConf{Allowed: []string{"grpc"}, Mux: true, Launch: launch, Legacy: 1, ScriptLine: line, TLS: "none"},
				Plugin: PluginConf{LegacyProto: "grpc"}, Ops: []string{"new", "start", "kill"}}, exp{kind: "start-error", text: "ErrGRPCBrokerMuxNotSupported"})
		}
	}
	// option conflicts
	add(Cell{Name: "conflict Cmd+Reattach", Host: HostConf{Launch: "cmd", Legacy: 1, Conflict: "cmd+reattach", TLS: "none"}, Plugin: PluginConf{CookieKey: cookieKey, CookieValue: cookieVal, Legacy: 1, LegacyProto: "netrpc"},
		Ops: []string{"new", "start", "kill"}}, exp{kind: "start-error", text: "exactly one of"})
	for _, proto := range []string{"netrpc", "grpc"} {
		pc := PluginConf{CookieKey: cookieKey, CookieValue: cookieVal, Legacy: 1, LegacyProto: proto, GRPCServer: true, TLS: "none"}
		al := []string{"netrpc", "grpc"}
		// unknown plugin name
		add(Cell{Name: "unknown plugin name over " + proto, Plugin: pc, Host: HostConf{Allowed: al, Launch: "cmd", Legacy: 1, TLS: "none"},
			Ops: []string{"new", "start", "client", "dispense:nope", "kill"}}, exp{kind: "use-error", text: "unknown plugin type"})
		// reattach: same protocol, works end to end; conflicts
		add(Cell{Name: "reattach over " + proto, Plugin: pc, Host: HostConf{Allowed: al, Launch: "cmd", Legacy: 1, TLS: "none"},
			Ops: []string{"new", "start", "client", "dispense", "set:9", "reattach:0", "start", "client", "dispense", "get", "callback", "ping", "kill:1", "sleep:1500"}}, exp{kind: "ok"})
		add(Cell{Name: "mux+reattach over " + proto, Plugin: pc, Host: HostConf{Allowed: al, Launch: "cmd", Legacy: 1, TLS: "none", Conflict: "mux+reattach"},
			Ops: []string{"new", "start", "reattach:0", "start", "kill:0"}}, exp{kind: "start-error", text: "multiplexing is not supported with Reattach"})
		add(Cell{Name: "secure+reattach over " + proto, Plugin: pc, Host: HostConf{Allowed: al, Launch: "cmd", Legacy: 1, TLS: "none", Conflict: "secure+reattach"},
			Ops: []string{"new", "start", "reattach:0", "start", "kill:0"}}, exp{kind: "start-error", text: "only one of Reattach or SecureConfig"})
	}
	results := runCells(base, cells)
	out := &enumResult{Exhaustive: true, Outcomes: map[string]int{}}
	for i, r := range results {
		c, e := cells[i], exps[i]
		out.Evaluations++
		if e.kind != "ok" || c.Host.Mux || c.Host.TLS != "none" || c.Plugin.TLS != "none" {
			out.Distinct++
		}
		bad := func(class, f string, a ...any) {
			out.Violations = append(out.Violations, enumViolation{Case: c.Name, Class: class, Msg: fmt.Sprintf(f, a...) + " [" + c.Name + "]", Input: c})
		}
		if r.HelperErr != "" {
			bad("L", "%s", r.HelperErr)
			continue
		}
		if r.Panic != "" {
			bad("PANIC", "host panicked: %s", r.Panic)
			continue
		}
		fop, ferr := firstErr(r)
		out.Outcomes[e.kind]++
		if len(out.Samples) < 3 && i%37 == 0 {
			out.Samples = append(out.Samples, map[string]any{"cell": c.Name, "expected": e.kind, "first_error": ferr, "protocol": r.Protocol})
		}
		switch e.kind {
		case "ok":
			if ferr != "" {
				bad("S", "compatible pair failed at %s: %s", fop, ferr)
				break
			}
			for _, o := range r.Ops {
				if o.Op == "get" && o.Val != "5" && o.Val != "9" {
					bad("S", "store read back %s", o.Val)
				}
				if (o.Op == "get:@0" && o.Val != "5") || (o.Op == "get:@1" && o.Val != "6") {
					bad("S", "%s read back %s (plugin 0 holds 5, plugin 1 holds 6)", o.Op, o.Val)
				}
				if strings.HasPrefix(o.Op, "big") && o.Val != "5000000" {
					bad("S", "large response truncated: %s bytes", o.Val)
				}
				// never a silently downgraded connection: a brokered gRPC connection carries the transport security
				// of the session it belongs to (observed by the host: as server for callback, as client for revcallback)
				if (o.Op == "callback" || o.Op == "revcallback" || strings.HasPrefix(o.Op, "callback:") || strings.HasPrefix(o.Op, "revcallback:")) && c.Plugin.LegacyProto == "grpc" && c.Host.TLS != "none" && o.Val != "tls" {
					bad("S", "the brokered connection of %s has transport security %q although the session uses TLS (%s)", o.Op, o.Val, c.Host.TLS)
				}
			}
			if r.Protocol != c.Plugin.LegacyProto {
				bad("S", "client speaks %q, plugin serves %q", r.Protocol, c.Plugin.LegacyProto)
			}
			if strings.Contains(strings.Join(c.Ops, ","), "print:x") && (!strings.Contains(r.SyncOut, "OUT-x") || !strings.Contains(r.SyncErr, "ERR-x")) {
				bad("S", "plugin's process stdout/stderr did not reach the sync writers (out=%q err=%q)", r.SyncOut, r.SyncErr)
			}
		case "start-error":
			se, ok := opErr(r, "start")
			if last := lastStart(r); last != "" {
				se = last
			}
			if !ok || se == "" {
				bad("S", "incompatible configuration was accepted at start (expected %q)", e.text)
			} else if !strings.Contains(se, e.text) {
				bad("S", "start failed with %q, expected %q", se, e.text)
			}
		case "use-error":
			if ferr == "" {
				bad("S", "mismatch went unnoticed: every operation succeeded (silent downgrade?)")
			} else if fop == "start" || fop == "new" {
				// allowed: surfacing earlier than first use is still an error, not a downgrade
			} else if e.text != "" && !strings.Contains(ferr, e.text) {
				bad("S", "failed with %q, expected %q", ferr, e.text)
			}
		}
		if r.PluginAlive {
			bad("L", "plugin process still alive at the end of the cell")
		}
	}
	// ---- a hand-written host (this test) that exports its "multiplexing" setting as a boolean in any spelling: when the value
	// does not mean true, host and plugin agree on a plain gRPC connection, and it works (health check over plain gRPC)
	vp := filepath.Join(base, "vplugin")
	for _, mv := range []string{"\x00", "", "false", "0", "f", "FALSE", "junk"} {
		desc := fmt.Sprintf("hand-written host, grpc plugin, PLUGIN_MULTIPLEX_GRPC=%q", strings.ReplaceAll(mv, "\x00", "<unset>"))
		dir := filepath.Join(base, fmt.Sprintf("c14raw-%d", out.Evaluations))
		os.MkdirAll(dir, 0o755)
		pc, _ := json.Marshal(PluginConf{CookieKey: cookieKey, CookieValue: cookieVal, Legacy: 1, LegacyProto: "grpc", GRPCServer: true, TLS: "none"})
		cmd := exec.Command(vp)
		cmd.Env = []string{"VP_CONF=" + string(pc), "TMPDIR=" + dir, "PLUGIN_UNIX_SOCKET_DIR=" + dir, cookieKey + "=" + cookieVal, "PLUGIN_PROTOCOL_VERSIONS=1"}
		if mv != "\x00" {
			cmd.Env = append(cmd.Env, "PLUGIN_MULTIPLEX_GRPC="+mv)
		}
		stdout, _ := cmd.StdoutPipe()
		out.Evaluations++
		out.Distinct++
		badRaw := func(f string, a ...any) {
			out.Violations = append(out.Violations, enumViolation{Case: desc, Class: "S", Msg: fmt.Sprintf(f, a...) + " [" + desc + "]"})
		}
		if err := cmd.Start(); err != nil {
			badRaw("cannot start the plugin: %v", err)
			continue
		}
		lineCh := make(chan string, 1)
		go func() { l, _ := bufio.NewReader(stdout).ReadString('\n'); lineCh <- l }()
		var line string
		select {
		case line = <-lineCh:
		case <-time.After(15 * time.Second):
		}
		f := strings.Split(strings.TrimSpace(line), "|")
		if len(f) < 5 || f[2] != "unix" {
			badRaw("no usable handshake line: %q", line)
		} else if !intrude(f[3], "grpc", "plain") { // (the same probe as C12's plaintext peer: here it is the legitimate host)
			badRaw("the plugin does not answer a plain gRPC health check at the address it announced (line %q)", strings.TrimSpace(line))
		}
		cmd.Process.Kill()
		cmd.Wait()
		os.RemoveAll(dir)
		out.Outcomes["raw-host"]++
	}
	emit(out)
}

func lastStart(r *Result) string {
	s := ""
	for _, o := range r.Ops {
		if o.Op == "start" {
			s = o.Err
		}
	}
	return s
}
