// Package kv is the test plugin served by vplugin and consumed by the E3
// hosts: a one-cell store (so that "same plugin instance" is observable), a
// brokered callback, large responses and writes to the process stdout/stderr —
// over net/rpc and gRPC.
package kv

import (
	"context"
	"errors"
	"fmt"
	"google.golang.org/grpc/peer"
	"net/rpc"
	"os"
	"runtime"
	"strings"
	"sync"
	"sync/atomic"
	"time"

	plugin "github.com/hashicorp/go-plugin"
	grpctest "github.com/hashicorp/go-plugin/test/grpc"
	"google.golang.org/grpc"
	"google.golang.org/protobuf/types/known/emptypb"
)

// Store is the interface the host sees.
type Store interface {
	Set(v int32) error
	Get() (int32, error)
	Callback() error
	Orphan() error          // the plugin advertises a brokered listener twice on an id nobody ever dials
	RevCallback() error     // host calls the plugin over a connection brokered by the plugin        // plugin calls back into the host over a brokered connection
	Big(n int) (int, error) // response of n bytes
	Print(out, err string) error
}

type Impl struct {
	mu  sync.Mutex
	val int32
	Tag string
}

// ---------------- net/rpc

type RPCServer struct {
	Impl   *Impl
	Broker *plugin.MuxBroker
}

type PrintArgs struct{ Out, Err string }

func (s *RPCServer) Set(v int32, _ *int) error {
	s.Impl.mu.Lock()
	s.Impl.val = v
	s.Impl.mu.Unlock()
	return nil
}
func (s *RPCServer) Get(_ int, out *int32) error {
	s.Impl.mu.Lock()
	*out = s.Impl.val
	s.Impl.mu.Unlock()
	return nil
}
func (s *RPCServer) Big(n int, out *[]byte) error { *out = []byte(strings.Repeat("b", n)); return nil }

// collect runs the garbage collector and lets finalizers run: a serving plugin lives long enough for that to
// happen, the short-lived test plugin must be made to (whatever go-plugin swapped into os.Stdout / os.Stderr has
// to survive it).
func collect() {
	runtime.GC()
	time.Sleep(20 * time.Millisecond)
	runtime.GC()
}

func (s *RPCServer) Print(a PrintArgs, _ *int) error {
	collect()
	fmt.Fprint(os.Stdout, a.Out)
	fmt.Fprint(os.Stderr, a.Err)
	return nil
}
func (s *RPCServer) Callback(id uint32, _ *int) error {
	conn, err := s.Broker.Dial(id)
	if err != nil {
		return err
	}
	defer conn.Close()
	c := rpc.NewClient(conn)
	var r int
	if err := c.Call("Plugin.Pong", 41, &r); err != nil {
		return err
	}
	if r != 42 {
		return fmt.Errorf("bad pong %d", r)
	}
	return nil
}

// ServeNew serves pongRPC on a fresh id. The ACCEPTING side allocates the id (as go-plugin's own
// Dispense and the bidirectional example do): a MuxBroker's pending map is keyed by id only, and
// NextId is unique per broker, so ids accepted on one side must all come from that side's counter.
// (An earlier version let the dialling host allocate it: id 1 then collided with the id the plugin
// had allocated for Dispense, and Accept closed the lingering entry's doneCh a second time.)
// ServeID serves pongRPC on the given id (used with an id far from both counters).
func (s *RPCServer) ServeID(id uint32, _ *int) error {
	go s.Broker.AcceptAndServe(id, pongRPC{})
	return nil
}

func (s *RPCServer) ServeNew(_ int, id *uint32) error {
	*id = s.Broker.NextId()
	go s.Broker.AcceptAndServe(*id, pongRPC{})
	return nil
}

type pongRPC struct{}

func (pongRPC) Pong(v int, out *int) error { *out = v + 1; return nil }

type RPCClient struct {
	c *rpc.Client
	b *plugin.MuxBroker
}

func (c *RPCClient) Set(v int32) error { var r int; return c.c.Call("Plugin.Set", v, &r) }
func (c *RPCClient) Get() (int32, error) {
	var r int32
	err := c.c.Call("Plugin.Get", 0, &r)
	return r, err
}
func (c *RPCClient) Big(n int) (int, error) {
	var r []byte
	err := c.c.Call("Plugin.Big", n, &r)
	return len(r), err
}
func (c *RPCClient) Print(o, e string) error {
	var r int
	return c.c.Call("Plugin.Print", PrintArgs{o, e}, &r)
}
func (c *RPCClient) Callback() error {
	id := c.b.NextId()
	go c.b.AcceptAndServe(id, pongRPC{})
	var r int
	return c.c.Call("Plugin.Callback", id, &r)
}

func (c *RPCClient) Orphan() error {
	var r int
	for i := 0; i < 2; i++ {
		if err := c.c.Call("Plugin.ServeID", uint32(7777), &r); err != nil {
			return err
		}
	}
	return nil
}

func (c *RPCClient) RevCallback() error {
	var id uint32
	var r int
	if err := c.c.Call("Plugin.ServeNew", 0, &id); err != nil {
		return err
	}
	conn, err := c.b.Dial(id)
	if err != nil {
		return err
	}
	defer conn.Close()
	rc := rpc.NewClient(conn)
	defer rc.Close()
	if err := rc.Call("Plugin.Pong", 1, &r); err != nil {
		return err
	}
	if r != 2 {
		return fmt.Errorf("bad pong %d", r)
	}
	return nil
}

// ---------------- gRPC (over the repository's test protos: Double = set/get, Bidirectional = callback,
// PrintKV = big response request, PrintStdio = print)

type GRPCServer struct {
	grpctest.UnimplementedTestServer
	Impl   *Impl
	Broker *plugin.GRPCBroker
}

func (s *GRPCServer) Double(_ context.Context, r *grpctest.TestRequest) (*grpctest.TestResponse, error) {
	s.Impl.mu.Lock()
	defer s.Impl.mu.Unlock()
	if r.Input != 0 {
		s.Impl.val = r.Input
	}
	return &grpctest.TestResponse{Output: s.Impl.val}, nil
}

func (s *GRPCServer) PrintKV(_ context.Context, r *grpctest.PrintKVRequest) (*grpctest.PrintKVResponse, error) {
	if r.Key == "serve" {
		id := uint32(r.GetValueInt())
		go s.Broker.AcceptAndServe(id, func(o []grpc.ServerOption) *grpc.Server {
			sv := grpc.NewServer(o...)
			grpctest.RegisterPingPongServer(sv, pongGRPC{})
			return sv
		})
	}
	return &grpctest.PrintKVResponse{}, nil
}

func (s *GRPCServer) PrintStdio(_ context.Context, r *grpctest.PrintStdioRequest) (*emptypb.Empty, error) {
	collect()
	os.Stdout.Write(r.Stdout)
	os.Stderr.Write(r.Stderr)
	return &emptypb.Empty{}, nil
}

func (s *GRPCServer) Bidirectional(ctx context.Context, r *grpctest.BidirectionalRequest) (*grpctest.BidirectionalResponse, error) {
	conn, err := s.Broker.Dial(r.Id)
	if err != nil {
		return nil, err
	}
	defer conn.Close()
	resp, err := grpctest.NewPingPongClient(conn).Ping(ctx, &grpctest.PingRequest{})
	if err != nil {
		return nil, err
	}
	if resp.Msg != "pong" {
		return nil, errors.New("bad pong")
	}
	return &grpctest.BidirectionalResponse{Id: r.Id}, nil
}

// Stream: used for large responses: the client sends n, the server answers with n/1000 messages... kept simple:
// Big is implemented through Double's sibling below.

type pongGRPC struct {
	grpctest.UnimplementedPingPongServer
}

func (pongGRPC) Ping(ctx context.Context, _ *grpctest.PingRequest) (*grpctest.PongResponse, error) {
	LastBrokeredAuth.Store(authOf(ctx))
	return &grpctest.PongResponse{Msg: "pong"}, nil
}

// LastBrokeredAuth is the transport security ("tls", "insecure", "none") of the brokered connection this process
// last served (as acceptor) or used (as dialler): a brokered connection must not be weaker than the main one.
var LastBrokeredAuth atomic.Value

func authOf(ctx context.Context) string {
	if p, ok := peer.FromContext(ctx); ok {
		return authName(p)
	}
	return "none"
}

func authName(p *peer.Peer) string {
	if p == nil || p.AuthInfo == nil {
		return "none"
	}
	return p.AuthInfo.AuthType()
}

type bigPong struct {
	grpctest.UnimplementedPingPongServer
	impl *Impl
}

func (b bigPong) Ping(context.Context, *grpctest.PingRequest) (*grpctest.PongResponse, error) {
	b.impl.mu.Lock()
	n := int(b.impl.val)
	b.impl.mu.Unlock()
	return &grpctest.PongResponse{Msg: strings.Repeat("b", n)}, nil
}

type GRPCClient struct {
	pp  grpctest.PingPongClient
	c   grpctest.TestClient
	b   *plugin.GRPCBroker
	ctx context.Context
}

func (c *GRPCClient) Set(v int32) error {
	_, err := c.c.Double(context.Background(), &grpctest.TestRequest{Input: v})
	return err
}
func (c *GRPCClient) Get() (int32, error) {
	r, err := c.c.Double(context.Background(), &grpctest.TestRequest{Input: 0})
	if err != nil {
		return 0, err
	}
	return r.Output, nil
}
func (c *GRPCClient) Big(n int) (int, error) {
	// a large *response*: the size is parked in the store, then PingPong.Ping answers with that many bytes
	if _, err := c.c.Double(context.Background(), &grpctest.TestRequest{Input: int32(n)}); err != nil {
		return 0, err
	}
	r, err := c.pp.Ping(context.Background(), &grpctest.PingRequest{})
	if err != nil {
		return 0, err
	}
	return len(r.Msg), nil
}
func (c *GRPCClient) Print(o, e string) error {
	_, err := c.c.PrintStdio(context.Background(), &grpctest.PrintStdioRequest{Stdout: []byte(o), Stderr: []byte(e)})
	return err
}
func (c *GRPCClient) Orphan() error {
	for i := 0; i < 2; i++ {
		if _, err := c.c.PrintKV(context.Background(), &grpctest.PrintKVRequest{Key: "serve", Value: &grpctest.PrintKVRequest_ValueInt{ValueInt: 7777}}); err != nil {
			return err
		}
	}
	return nil
}

func (c *GRPCClient) RevCallback() error {
	id := c.b.NextId()
	if _, err := c.c.PrintKV(context.Background(), &grpctest.PrintKVRequest{Key: "serve", Value: &grpctest.PrintKVRequest_ValueInt{ValueInt: int32(id)}}); err != nil {
		return err
	}
	conn, err := c.b.Dial(id)
	if err != nil {
		return err
	}
	defer conn.Close()
	ctx, cancel := context.WithTimeout(context.Background(), 20*time.Second)
	defer cancel()
	var pr peer.Peer
	r, err := grpctest.NewPingPongClient(conn).Ping(ctx, &grpctest.PingRequest{}, grpc.Peer(&pr))
	if err != nil {
		return err
	}
	LastBrokeredAuth.Store(authName(&pr))
	if r.Msg != "pong" {
		return errors.New("bad pong")
	}
	return nil
}

func (c *GRPCClient) Callback() error {
	id := c.b.NextId()
	go c.b.AcceptAndServe(id, func(o []grpc.ServerOption) *grpc.Server {
		s := grpc.NewServer(o...)
		grpctest.RegisterPingPongServer(s, pongGRPC{})
		return s
	})
	_, err := c.c.Bidirectional(context.Background(), &grpctest.BidirectionalRequest{Id: id})
	return err
}

// ---------------- plugin.Plugin / plugin.GRPCPlugin

// Plugin serves/consumes the store over both protocols. GRPC selects which
// interface set it exposes to go-plugin's type switch (a PluginSet must be homogeneous).
type Plugin struct {
	Impl *Impl
}

func (p *Plugin) Server(b *plugin.MuxBroker) (interface{}, error) {
	return &RPCServer{Impl: p.Impl, Broker: b}, nil
}
func (p *Plugin) Client(b *plugin.MuxBroker, c *rpc.Client) (interface{}, error) {
	return &RPCClient{c: c, b: b}, nil
}

// GPlugin is the gRPC flavour.
type GPlugin struct {
	plugin.NetRPCUnsupportedPlugin
	Impl *Impl
}

// InitDelay makes the registration hooks of both flavours take that long (a plugin with slow start-up work).
var InitDelay time.Duration

func (p *GPlugin) GRPCServer(b *plugin.GRPCBroker, s *grpc.Server) error {
	time.Sleep(InitDelay)
	grpctest.RegisterTestServer(s, &GRPCServer{Impl: p.Impl, Broker: b})
	grpctest.RegisterPingPongServer(s, bigPong{impl: p.Impl})
	return nil
}
func (p *GPlugin) GRPCClient(ctx context.Context, b *plugin.GRPCBroker, c *grpc.ClientConn) (interface{}, error) {
	return &GRPCClient{c: grpctest.NewTestClient(c), pp: grpctest.NewPingPongClient(c), b: b, ctx: ctx}, nil
}
