package e3

import (
	"fmt"
	"sort"
	"strconv"
	"strings"
	"testing"
)

// TestC02Proc — version negotiation end to end with a real plugin.Serve child
// (binds the explorer part's one modelled step — printing the line — to reality).
func TestC02Proc(t *testing.T) {
	base := scratch(t)
	universe := []int{1, 2}
	if tier() == "thorough" {
		universe = []int{1, 2, 3}
	}
	type side struct {
		legacy int
		vers   []int
	}
	var sides []side
	for _, l := range append([]int{-1}, universe...) {
		for mask := 0; mask < 1<<len(universe); mask++ {
			var v []int
			for i, u := range universe {
				if mask&(1<<i) != 0 {
					v = append(v, u)
				}
			}
			if l < 0 && len(v) == 0 {
				continue
			}
			sides = append(sides, side{l, v})
		}
	}
	set := func(s side) map[int]bool {
		m := map[int]bool{}
		for _, v := range s.vers {
			m[v] = true
		}
		if s.legacy >= 0 {
			m[s.legacy] = true
		}
		return m
	}
	var cells []Cell
	type exp struct{ common int }
	var exps []exp
	for _, proto := range []string{"netrpc", "grpc"} {
		for _, h := range sides {
			for _, p := range sides {
				if proto == "grpc" && tier() != "thorough" && (len(h.vers)+len(p.vers))%2 == 1 {
					continue // quick: half of the gRPC pairs
				}
				pv := map[string]string{}
				for _, v := range p.vers {
					pv[strconv.Itoa(v)] = proto
				}
				common := -1
				for v := range set(h) {
					if set(p)[v] && v > common {
						common = v
					}
				}
				cells = append(cells, Cell{
					Name:   fmt.Sprintf("%s host{legacy=%d versioned=%v} plugin{legacy=%d versioned=%v}", proto, h.legacy, h.vers, p.legacy, p.vers),
					Plugin: PluginConf{CookieKey: cookieKey, CookieValue: cookieVal, Legacy: p.legacy, LegacyProto: proto, Versions: pv, GRPCServer: true, TLS: "none"},
					Host:   HostConf{Allowed: []string{"netrpc", "grpc"}, TLS: "none", Launch: "cmd", Legacy: h.legacy, Versions: h.vers, SkipHostEnv: true},
					Ops:    []string{"new", "start", "client", "dispense", "set:4", "get", "kill", "proc?"},
				})
				exps = append(exps, exp{common})
				// a host that is itself a plugin: the version list its own parent offered sits in its environment, or in the
				// environment it built for the command (Cmd.Env = its own environment + extras); the list it offers is still its own
				if proto == "netrpc" || tier() == "thorough" {
					for _, nest := range []struct {
						list  string
						inCmd bool
					}{{"1", true}, {"9", false}, {"2,1", true}} {
						if tier() != "thorough" && nest.list == "2,1" {
							continue
						}
						cells = append(cells, Cell{
							Name:    fmt.Sprintf("%s host{legacy=%d versioned=%v} plugin{legacy=%d versioned=%v} inherited PLUGIN_PROTOCOL_VERSIONS=%s in-Cmd.Env=%v", proto, h.legacy, h.vers, p.legacy, p.vers, nest.list, nest.inCmd),
							Plugin:  PluginConf{CookieKey: cookieKey, CookieValue: cookieVal, Legacy: p.legacy, LegacyProto: proto, Versions: pv, GRPCServer: true, TLS: "none"},
							Host:    HostConf{Allowed: []string{"netrpc", "grpc"}, TLS: "none", Launch: "cmd", Legacy: h.legacy, Versions: h.vers, SkipHostEnv: nest.inCmd, AmbientInCmd: nest.inCmd},
							Ops:     []string{"new", "start", "client", "dispense", "set:4", "get", "kill", "proc?"},
							Ambient: map[string]string{"PLUGIN_PROTOCOL_VERSIONS": nest.list},
						})
						exps = append(exps, exp{common})
					}
				}
			}
		}
	}
	results := runCells(base, cells)
	out := &enumResult{Exhaustive: true, Outcomes: map[string]int{}}
	for i, r := range results {
		c, e := cells[i], exps[i]
		out.Evaluations++
		out.Validated++
		if len(c.Host.Versions)+len(c.Plugin.Versions) > 0 {
			out.Distinct++
		}
		bad := func(f string, a ...any) {
			out.Violations = append(out.Violations, enumViolation{Case: c.Name, Class: "S", Msg: fmt.Sprintf(f, a...) + " [" + c.Name + "]"})
		}
		if r.HelperErr != "" {
			bad("%s", r.HelperErr)
			continue
		}
		if r.Panic != "" {
			bad("host panicked: %s", r.Panic)
			continue
		}
		se, _ := opErr(r, "start")
		if e.common >= 0 {
			out.Outcomes["compatible"]++
			if op, err := firstErr(r); err != "" {
				bad("common version %d exists but %s failed: %s", e.common, op, err)
			} else if r.Version != e.common {
				bad("negotiated version %d, highest common version is %d", r.Version, e.common)
			}
		} else {
			out.Outcomes["incompatible"]++
			if se == "" {
				bad("no common version but Start succeeded (negotiated %d)", r.Version)
			} else if !strings.Contains(se, "Incompatible API version") {
				bad("incompatible versions reported as %q", se)
			}
		}
		for _, o := range r.Ops {
			if o.Op == "proc?" && o.Val != "gone" {
				bad("plugin process state at the end: %s", o.Val)
			}
		}
		if len(out.Samples) < 3 && i%97 == 5 {
			out.Samples = append(out.Samples, map[string]any{"cell": c.Name, "highest_common": e.common, "negotiated": r.Version, "start_error": se})
		}
	}
	_ = sort.Ints
	emit(out)
}
