package e3

import (
	"fmt"
	"strings"
	"testing"
)

// TestC10Proc — the real command runner's pipes: a plugin writes a burst of stderr lines (before or right after its
// handshake line) and then hangs or fails the handshake; the host's Stderr writer is slow, so the burst is still unread
// when the client kills the plugin (forced kill: there is no RPC connection to ask nicely). When Kill has returned,
// every line the plugin wrote before it died has reached ClientConfig.Stderr, unchanged and in order.
func TestC10Proc(t *testing.T) {
	base := scratch(t)
	burst := func(n int) string {
		return fmt.Sprintf("i=0; while [ $i -lt %d ]; do echo \"[INFO] stderr-line-$i-%s\" >&2; i=$((i+1)); done; ", n, strings.Repeat("x", 40))
	}
	var cells []Cell
	for _, n := range []int{50, 400} {
		for _, us := range []int{0, 500} {
			for name, sc := range map[string]string{
				"burst, handshake line, then hangs":   burst(n) + "echo '1|1|tcp|127.0.0.1:1|netrpc'; exec sleep 30",
				"burst, bad handshake line, stays":    burst(n) + "echo '1|9|tcp|127.0.0.1:1'; exec sleep 30",
				"handshake line, burst, then hangs":   "echo '1|1|tcp|127.0.0.1:1|netrpc'; " + burst(n) + "exec sleep 30",
				"burst, then silence (start timeout)": burst(n) + "exec sleep 30",
			} {
				ops := []string{"new", "start", "kill", "proc?"}
				if strings.HasPrefix(name, "handshake line, burst") {
					ops = []string{"new", "start", "sleep:5000", "kill", "proc?"} // (the burst is written after Start returned: give the shell loop ample time)
				}
				cells = append(cells, Cell{
					Name:   fmt.Sprintf("%d stderr lines, Stderr writer takes %d us per write, plugin: %s", n, us, name),
					Plugin: PluginConf{LegacyProto: "netrpc"},
					Host:   HostConf{Allowed: []string{"netrpc", "grpc"}, TLS: "none", Launch: "cmd", Legacy: 1, Script: sc, StartTimeoutMs: 6000, SlowStderrUs: us},
					Ops:    ops,
				})
			}
		}
	}
	results := runCells(base, cells)
	out := &enumResult{Exhaustive: true, Outcomes: map[string]int{}}
	for i, r := range results {
		c := cells[i]
		out.Evaluations++
		out.Distinct++
		bad := func(class, f string, a ...any) {
			out.Violations = append(out.Violations, enumViolation{Case: c.Name, Class: class, Msg: fmt.Sprintf(f, a...) + " [" + c.Name + "]"})
		}
		if r.HelperErr != "" {
			bad("L", "%s", r.HelperErr)
			continue
		}
		if r.Panic != "" {
			bad("PANIC", "host panicked: %s", r.Panic)
			continue
		}
		var n int
		fmt.Sscanf(c.Name, "%d stderr lines", &n)
		got := strings.Split(strings.TrimSuffix(r.PluginLog, "\n"), "\n")
		// PluginLog keeps the last 3000 bytes of what reached ClientConfig.Stderr; the helper also reports the line count
		want := fmt.Sprintf("[INFO] stderr-line-%d-%s", n-1, strings.Repeat("x", 40))
		if r.StderrLines != n {
			bad("S", "%d of %d stderr lines reached ClientConfig.Stderr by the time Kill returned (last: %.60q)", r.StderrLines, n, got[len(got)-1])
		} else if got[len(got)-1] != want {
			bad("S", "the last stderr line reached ClientConfig.Stderr as %.70q", got[len(got)-1])
		}
		out.Outcomes[fmt.Sprintf("complete=%v", r.StderrLines == n)]++
		if len(out.Samples) < 2 {
			out.Samples = append(out.Samples, map[string]any{"cell": c.Name, "stderr_lines": r.StderrLines})
		}
	}
	emit(out)
}
