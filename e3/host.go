// Package e3 holds the real-process (E3) cells: a host helper that runs one
// cell — a real plugin.Client against a real vplugin child over real sockets —
// and the drivers that enumerate finite cell products and compare each
// observation with an expected-outcome table (DESIGN §2.4).
package e3

import (
	"bufio"
	"bytes"
	"context"
	"crypto/tls"
	"crypto/x509"
	"encoding/json"
	"errors"
	"fmt"
	"io"
	"net"
	"os"
	"os/exec"
	"path/filepath"
	"runtime/pprof"
	"strconv"
	"strings"
	"sync"
	"sync/atomic"
	"syscall"
	"time"

	hclog "github.com/hashicorp/go-hclog"
	plugin "github.com/hashicorp/go-plugin"
	"github.com/hashicorp/go-plugin/runner"
	"google.golang.org/grpc"

	"verif/e3/kv"
)

// PluginConf mirrors cmd/vplugin.Conf.
type PluginConf struct {
	CookieKey   string            `json:"cookie_key"`
	CookieValue string            `json:"cookie_value"`
	Legacy      int               `json:"legacy"`
	LegacyProto string            `json:"legacy_proto"`
	Versions    map[string]string `json:"versions,omitempty"`
	GRPCServer  bool              `json:"grpc_server"`
	TLS         string            `json:"tls"`
	CertPEM     string            `json:"cert_pem,omitempty"`
	KeyPEM      string            `json:"key_pem,omitempty"`
	ExitMarker  string            `json:"exit_marker,omitempty"`
	ExitDelayMs int               `json:"exit_delay_ms,omitempty"`
	InitDelayMs int               `json:"init_delay_ms,omitempty"`
	Impostor    string            `json:"impostor,omitempty"` // hand-made AutoMTLS plugin, see cmd/vplugin/impostor.go
	// the plugin's gRPC controller answers Shutdown with its Empty reply and stops the server 100 ms later (what the
	// protocol's "rpc Shutdown(Empty) returns (Empty)" describes; go-plugin's own server stops inside the handler,
	// so its host never sees the reply)
	AckShutdown bool `json:"ack_shutdown,omitempty"`
	Chatter     bool `json:"chatter,omitempty"` // plugin code prints to os.Stdout / os.Stderr by itself once it is being served
}

// HostConf is the client side of a cell.
type HostConf struct {
	Allowed           []string `json:"allowed"` // nil = default
	TLS               string   `json:"tls"`     // none | static | auto
	Mux               bool     `json:"mux"`
	Launch            string   `json:"launch"` // cmd | runner | reattach
	Legacy            int      `json:"legacy"` // -1 none
	Versions          []int    `json:"versions,omitempty"`
	SkipHostEnv       bool     `json:"skip_host_env"`
	Conflict          string   `json:"conflict,omitempty"` // cmd+reattach | secure+reattach | mux+reattach
	Script            string   `json:"script,omitempty"`   // plugin is this shell script
	StartTimeoutMs    int      `json:"start_timeout_ms,omitempty"`
	StartTimeoutNs    int      `json:"start_timeout_ns,omitempty"`     // a start timeout shorter than the launch itself
	GRPCBlock         bool     `json:"grpc_block,omitempty"`           // ClientConfig.GRPCDialOptions = [grpc.WithBlock()]
	GRPCDialTimeoutMs int      `json:"grpc_dial_timeout_ms,omitempty"` // with GRPCBlock: grpc.WithTimeout
	SharedSocketCfg   bool     `json:"shared_socket_cfg,omitempty"`    // every client of the cell gets the same *UnixSocketConfig
	// the application had set Cmd.Stdin before handing the command to go-plugin: "idle-pipe" = the read end of an
	// io.Pipe that stays open and silent (os/exec copies such a reader through a goroutine that cmd.Wait waits for)
	PresetStdin  string `json:"preset_stdin,omitempty"`
	SharedConfig bool   `json:"shared_config,omitempty"` // every client of the cell is built from the same *ClientConfig (only Cmd swapped)
	CookieValue  string `json:"cookie_value,omitempty"`  // HandshakeConfig.MagicCookieValue of the host (default: the usual one)
	// the application built the command with exec.CommandContext and set its documented Cancel hook to a polite signal
	// ("sigterm"): that hook is the application's way of stopping the command when ITS context ends, nothing else
	CmdCancel    string `json:"cmd_cancel,omitempty"`
	SlowStderrUs int    `json:"slow_stderr_us,omitempty"` // ClientConfig.Stderr is a writer that takes this long per Write
	ScriptLine   string `json:"script_line,omitempty"`    // plugin is a shell script printing this line instead of vplugin
	Group        string `json:"group,omitempty"`          // UnixSocketConfig.Group
	Managed      bool   `json:"managed,omitempty"`        // ClientConfig.Managed (for CleanupClients)
	AmbientBoth  bool   `json:"ambient_both,omitempty"`   // ... and into the host's environment as well (with AmbientInCmd)
	AmbientInCmd bool   `json:"ambient_in_cmd,omitempty"` // the cell's ambient variables are put into Cmd.Env, not into the host's environment
	MinPort      uint   `json:"min_port,omitempty"`
	MaxPort      uint   `json:"max_port,omitempty"`
	CertPEM      string `json:"cert_pem,omitempty"` // static TLS: trust this server certificate
	KeyPEM       string `json:"key_pem,omitempty"`
	// a certificate that the machine's trust store lists (SSL_CERT_FILE of the host process and of the plugins
	// it launches) although it is neither side's AutoMTLS certificate; intruder class tls-systrusted presents it
	SysTrustCert string `json:"sys_trust_cert,omitempty"`
	SysTrustKey  string `json:"sys_trust_key,omitempty"`
}

// Cell is one unit of E3 work, executed by the host helper process.
type Cell struct {
	Name     string            `json:"name"`
	Plugin   PluginConf        `json:"plugin"`
	Host     HostConf          `json:"host"`
	Ops      []string          `json:"ops"`
	Ambient  map[string]string `json:"ambient,omitempty"` // extra variables in the HOST's own environment
	Dir      string            `json:"dir"`               // scratch directory of the cell
	VPlugin  string            `json:"vplugin"`
	LeakWait int               `json:"leak_wait_ms,omitempty"`
}

// OpResult is what one operation produced.
type OpResult struct {
	Op  string `json:"op"`
	Err string `json:"err,omitempty"`
	Val string `json:"val,omitempty"`
	Ms  int64  `json:"ms"`
}

// Result is the observation of a cell.
type Result struct {
	Ops            []OpResult `json:"ops"`
	Panic          string     `json:"panic,omitempty"`
	PluginPid      int        `json:"plugin_pid,omitempty"`
	PluginAlive    bool       `json:"plugin_alive"`
	PluginFiles    []string   `json:"plugin_files"` // entries left in the plugin's socket dir
	HostFiles      []string   `json:"host_files"`   // entries left in the host's temp dir
	ExitMarker     bool       `json:"exit_marker"`
	Goroutines     []string   `json:"goroutines,omitempty"` // go-plugin goroutines left in the host
	SyncOut        string     `json:"sync_out,omitempty"`
	SyncErr        string     `json:"sync_err,omitempty"`
	SyncClosed     bool       `json:"sync_closed,omitempty"`   // somebody closed one of the application's writers (SyncStdout, SyncStderr, Stderr)
	Addr           string     `json:"addr,omitempty"`          // network|address returned by the last successful Start
	XlateRefused   int64      `json:"xlate_refused,omitempty"` // addresses the container-like runner refused to translate
	PluginLog      string     `json:"plugin_log,omitempty"`    // tail of the plugin's raw stderr (ClientConfig.Stderr), for diagnosis
	Protocol       string     `json:"protocol,omitempty"`
	Version        int        `json:"version"`
	Env            []string   `json:"env,omitempty"`
	HelperErr      string     `json:"helper_err,omitempty"`
	StdinIsHost    bool       `json:"stdin_is_host"`
	StdinSeen      string     `json:"stdin_seen,omitempty"`   // what a real child read from its stdin (env:cmdstdin)
	StderrLines    int        `json:"stderr_lines,omitempty"` // complete lines that reached ClientConfig.Stderr
	SocketDir      string     `json:"socket_dir,omitempty"`
	SocketDirState string     `json:"socket_dir_state,omitempty"` // ok | missing | outside-TempDir (RunnerFunc launches)
}

const cookieKey, cookieVal = "VERIF_PLUGIN_COOKIE", "c0ffee"

type lockedBuf struct {
	mu     sync.Mutex
	b      bytes.Buffer
	closed bool
}

func (l *lockedBuf) Write(p []byte) (int, error) {
	l.mu.Lock()
	defer l.mu.Unlock()
	if l.closed {
		return 0, os.ErrClosed
	}
	return l.b.Write(p)
}

// Close makes the application's writers closable (a log file, a pipe, a connection): they belong to the application,
// which closes them when IT is done; whoever else closes one silences every stream that still uses it.
func (l *lockedBuf) Close() error {
	l.mu.Lock()
	defer l.mu.Unlock()
	l.closed = true
	return nil
}
func (l *lockedBuf) wasClosed() bool { l.mu.Lock(); defer l.mu.Unlock(); return l.closed }
func (l *lockedBuf) String() string  { l.mu.Lock(); defer l.mu.Unlock(); return l.b.String() }

func hostPlugins(proto string) plugin.PluginSet {
	if proto == "grpc" {
		return plugin.PluginSet{"kv": &kv.GPlugin{}}
	}
	return plugin.PluginSet{"kv": &kv.Plugin{}}
}

// wrapRunner is a RunnerFunc that wraps the default command runner (a custom runner in the
// sense of the API, same process semantics).
type procRunner struct {
	cmd                *exec.Cmd
	stdout, stderr     io.ReadCloser
	hostDir, pluginDir string // see xlate
	forward            bool   // see forwardTCP
	forwardName        bool   // ... and the translated address names the host (localhost:port) instead of giving an IP literal
}

func newProcRunner(cmd *exec.Cmd) (runner.Runner, error) {
	so, err := cmd.StdoutPipe()
	if err != nil {
		return nil, err
	}
	se, err := cmd.StderrPipe()
	if err != nil {
		return nil, err
	}
	pr := &procRunner{cmd: cmd, stdout: so, stderr: se}
	lastProcRunner = pr
	return pr, nil
}

var lastProcRunner *procRunner

// attachedProc is the AttachedRunner of an application that reattaches to a plugin behind its own (container-like)
// runner: same address translation as the launching runner, the plugin is watched and killed through its pid.
type attachedProc struct{ pr *procRunner }

func (a *attachedProc) Wait(context.Context) error {
	for a.pr.cmd.Process != nil && syscall.Kill(a.pr.cmd.Process.Pid, 0) == nil {
		if b, err := os.ReadFile(fmt.Sprintf("/proc/%d/stat", a.pr.cmd.Process.Pid)); err == nil && strings.Contains(string(b), ") Z ") {
			break // a zombie waiting for the launching client's Wait
		}
		time.Sleep(100 * time.Millisecond)
	}
	return nil
}
func (a *attachedProc) Kill(ctx context.Context) error { return a.pr.Kill(ctx) }
func (a *attachedProc) ID() string                     { return a.pr.ID() }
func (a *attachedProc) PluginToHost(n, ad string) (string, string, error) {
	return a.pr.PluginToHost(n, ad)
}
func (a *attachedProc) HostToPlugin(n, ad string) (string, string, error) {
	return a.pr.HostToPlugin(n, ad)
}

func (r *procRunner) Start(context.Context) error {
	err := r.cmd.Start()
	if err == nil {
		lastRunnerPid.Store(int64(r.cmd.Process.Pid))
	}
	return err
}

var lastRunnerPid atomic.Int64

func (r *procRunner) Wait(context.Context) error { return r.cmd.Wait() }
func (r *procRunner) Kill(ctx context.Context) error {
	// a runner that honours the context it is given, and whose kill is a round trip to something external
	// (like a container runtime's kill command): 30 ms during which the context can end
	select {
	case <-ctx.Done():
		return ctx.Err()
	case <-time.After(30 * time.Millisecond):
	}
	if r.cmd.Process != nil {
		if err := r.cmd.Process.Kill(); err != nil && !errors.Is(err, os.ErrProcessDone) {
			return err
		}
	}
	return nil
}
func (r *procRunner) Stdout() io.ReadCloser { return r.stdout }
func (r *procRunner) Stderr() io.ReadCloser { return r.stderr }
func (r *procRunner) Name() string          { return r.cmd.Path }
func (r *procRunner) ID() string {
	if r.cmd.Process == nil {
		return ""
	}
	return strconv.Itoa(r.cmd.Process.Pid)
}
func (r *procRunner) Diagnose(context.Context) string { return "" }

// Address translation of a container-like runner: the plugin sees the shared socket directory under another
// path (pluginDir, here a symlink to hostDir) and, like a bind mount, nothing outside it. Identity when unset.
func (r *procRunner) PluginToHost(n, a string) (string, string, error) {
	if r.forward && n == "unix" {
		fn, fa, err := forwardTCP(a)
		if err == nil && r.forwardName {
			fa = strings.Replace(fa, "127.0.0.1:", "localhost:", 1)
		}
		return fn, fa, err
	}
	return r.xlate(n, a, r.pluginDir, r.hostDir, "plugin->host")
}

// forwardTCP publishes a plugin's Unix socket on a loopback TCP port (a runner that reaches its plugin through a
// port-forward: the translation changes the network type, not only the address). One forwarder per socket path.
var (
	fwdMu sync.Mutex
	fwds  = map[string]string{}
)

func forwardTCP(path string) (string, string, error) {
	fwdMu.Lock()
	defer fwdMu.Unlock()
	if a, ok := fwds[path]; ok {
		return "tcp", a, nil
	}
	ln, err := net.Listen("tcp", "127.0.0.1:0")
	if err != nil {
		return "", "", err
	}
	fwds[path] = ln.Addr().String()
	go func() {
		for {
			c, err := ln.Accept()
			if err != nil {
				return
			}
			go func() {
				u, err := net.Dial("unix", path)
				if err != nil {
					c.Close()
					return
				}
				go func() { io.Copy(u, c); u.Close() }()
				io.Copy(c, u)
				c.Close()
			}()
		}
	}()
	return "tcp", ln.Addr().String(), nil
}
func (r *procRunner) HostToPlugin(n, a string) (string, string, error) {
	return r.xlate(n, a, r.hostDir, r.pluginDir, "host->plugin")
}
func (r *procRunner) xlate(n, a, from, to, dir string) (string, string, error) {
	if r.hostDir == "" || n != "unix" {
		return n, a, nil
	}
	if !strings.HasPrefix(a, from+"/") {
		xlateRefused.Add(1)
		return "", "", fmt.Errorf("address translation %s: %s is outside the shared directory %s", dir, a, from)
	}
	return n, to + strings.TrimPrefix(a, from), nil
}

var xlateRefused atomic.Int64

// RunCell executes a cell inside the helper process.
func RunCell(c *Cell) (res *Result) {
	res = &Result{}
	defer func() {
		if r := recover(); r != nil {
			res.Panic = fmt.Sprint(r)
		}
	}()
	pluginDir := filepath.Join(c.Dir, "plugin-sockets")
	os.MkdirAll(pluginDir, 0o755)
	if c.Host.SysTrustCert != "" {
		if kp, err := tls.X509KeyPair([]byte(c.Host.SysTrustCert), []byte(c.Host.SysTrustKey)); err == nil {
			sysTrusted = &kp
		}
	}
	hostTmp := os.Getenv("TMPDIR")
	so, se := &lockedBuf{}, &lockedBuf{}
	plog := &lockedBuf{}

	var lastCmd *exec.Cmd
	var idlePipes []*io.PipeWriter
	defer func() { _ = idlePipes }()
	mkCmd := func() *exec.Cmd {
		var cmd *exec.Cmd
		defer func() { lastCmd = cmd }()
		if c.Host.Script != "" {
			cmd = exec.Command("sh", "-c", c.Host.Script)
		} else if c.Host.ScriptLine != "" {
			cmd = exec.Command("sh", "-c", "echo '"+c.Host.ScriptLine+"'; exec sleep 30")
		} else {
			cmd = exec.Command(c.VPlugin)
			pc, _ := json.Marshal(c.Plugin)
			cmd.Env = append(cmd.Env, "VP_CONF="+string(pc), "TMPDIR="+pluginDir, "PATH="+os.Getenv("PATH"))
			if f := os.Getenv("SSL_CERT_FILE"); f != "" {
				cmd.Env = append(cmd.Env, "SSL_CERT_FILE="+f) // the plugin shares the machine's trust store
			}
			if c.Host.AmbientInCmd {
				// the application built the command's environment from its own (as a host that is itself a plugin does)
				for k, v := range c.Ambient {
					cmd.Env = append(cmd.Env, k+"="+v)
				}
			}
		}
		if c.Host.CmdCancel == "sigterm" {
			c2 := exec.CommandContext(context.Background(), cmd.Path, cmd.Args[1:]...)
			c2.Env, c2.Dir = cmd.Env, cmd.Dir
			c2.Cancel = func() error { return c2.Process.Signal(syscall.SIGTERM) }
			cmd = c2
		}
		if c.Host.PresetStdin == "idle-pipe" {
			pr, pw := io.Pipe()
			idlePipes = append(idlePipes, pw) // kept open, never written to
			cmd.Stdin = pr
		}
		return cmd
	}
	hostCookie := cookieVal
	if c.Host.CookieValue != "" {
		hostCookie = c.Host.CookieValue
	}
	mkConfig := func() *plugin.ClientConfig {
		cfg := &plugin.ClientConfig{
			HandshakeConfig:     plugin.HandshakeConfig{MagicCookieKey: cookieKey, MagicCookieValue: hostCookie},
			StartTimeout:        10 * time.Second,
			Logger:              hclog.NewNullLogger(),
			SyncStdout:          so,
			SyncStderr:          se,
			Stderr:              stderrWriter(plog, c.Host.SlowStderrUs),
			SkipHostEnv:         c.Host.SkipHostEnv,
			GRPCBrokerMultiplex: c.Host.Mux,
			Managed:             c.Host.Managed,
		}
		if c.Host.StartTimeoutMs > 0 {
			cfg.StartTimeout = time.Duration(c.Host.StartTimeoutMs) * time.Millisecond
		}
		if c.Host.GRPCBlock {
			cfg.GRPCDialOptions = []grpc.DialOption{grpc.WithBlock()}
			if c.Host.GRPCDialTimeoutMs > 0 {
				cfg.GRPCDialOptions = append(cfg.GRPCDialOptions, grpc.WithTimeout(time.Duration(c.Host.GRPCDialTimeoutMs)*time.Millisecond))
			}
		}
		if c.Host.StartTimeoutNs > 0 {
			cfg.StartTimeout = time.Duration(c.Host.StartTimeoutNs)
		}
		if c.Host.Allowed != nil {
			cfg.AllowedProtocols = []plugin.Protocol{} // an explicit list, possibly empty (nothing allowed), is not the nil default
		}
		for _, a := range c.Host.Allowed {
			cfg.AllowedProtocols = append(cfg.AllowedProtocols, plugin.Protocol(a))
		}
		// the host consumes the kv plugin with the flavour of whatever protocol is negotiated:
		// register both flavours under separate versions is not possible, so the cell says which
		hp := c.Plugin.LegacyProto
		if c.Host.Legacy >= 0 {
			cfg.ProtocolVersion = uint(c.Host.Legacy)
			cfg.Plugins = hostPlugins(hp)
		}
		if len(c.Host.Versions) > 0 {
			cfg.VersionedPlugins = map[int]plugin.PluginSet{}
			for _, v := range c.Host.Versions {
				p := hp
				if pp, ok := c.Plugin.Versions[strconv.Itoa(v)]; ok {
					p = pp
				}
				cfg.VersionedPlugins[v] = hostPlugins(p)
			}
		}
		switch c.Host.TLS {
		case "static":
			pool := x509.NewCertPool()
			pool.AppendCertsFromPEM([]byte(c.Host.CertPEM))
			cfg.TLSConfig = &tls.Config{RootCAs: pool, ServerName: "localhost"}
			if cert, err := tls.X509KeyPair([]byte(c.Host.CertPEM), []byte(c.Host.KeyPEM)); err == nil {
				cfg.TLSConfig.Certificates = []tls.Certificate{cert} // the host is a TLS server on the listeners it brokers
			}
		case "auto":
			cfg.AutoMTLS = true
		}
		return cfg
	}
	var wantOut, wantErr string
	patSeq := 0
	var fakeRunners []*fakeAttached
	var testRC *plugin.ReattachConfig
	var testCancel context.CancelFunc
	spawnedPid := 0 // an out-of-band plugin process of this cell (spawnsamepid): never left behind
	defer func() {
		if spawnedPid > 1 {
			if b, err := os.ReadFile(fmt.Sprintf("/proc/%d/cmdline", spawnedPid)); err == nil && strings.Contains(string(b), "vplugin") {
				syscall.Kill(spawnedPid, syscall.SIGKILL)
			}
		}
	}()
	var closeCh chan struct{}
	var clients []*plugin.Client
	var stores []kv.Store
	var protos []plugin.ClientProtocol
	record := func(op string, t0 time.Time, err error, val string) {
		r := OpResult{Op: op, Val: val, Ms: time.Since(t0).Milliseconds()}
		if err != nil {
			r.Err = err.Error()
			if errors.Is(err, plugin.ErrGRPCBrokerMuxNotSupported) {
				r.Err = "ErrGRPCBrokerMuxNotSupported: " + r.Err
			}
			if errors.Is(err, plugin.ErrProcessNotFound) {
				r.Err = "ErrProcessNotFound: " + r.Err
			}
		}
		res.Ops = append(res.Ops, r)
	}
	var sharedUSC *plugin.UnixSocketConfig
	var sharedCfg *plugin.ClientConfig
	cur := func() int { return len(clients) - 1 }
	for _, op := range c.Ops {
		bare, _, _ := strings.Cut(op, "!") // "!<expectation>" suffixes are for the driver
		name, arg, _ := strings.Cut(bare, ":")
		t0 := time.Now()
		switch name {
		case "new": // create the first client according to the launch method
			cfg := mkConfig()
			if c.Host.SharedConfig { // the application keeps ONE *ClientConfig and only swaps Cmd between NewClient calls
				if sharedCfg == nil {
					sharedCfg = cfg
				}
				cfg = sharedCfg
			}
			switch c.Host.Launch {
			case "cmd":
				cfg.Cmd = mkCmd()
			case "runner":
				cmd0 := mkCmd()
				cfg.UnixSocketConfig = &plugin.UnixSocketConfig{TempDir: hostTmp}
				if c.Host.SharedSocketCfg { // the application keeps one UnixSocketConfig for all its plugins
					if sharedUSC == nil {
						sharedUSC = cfg.UnixSocketConfig
					}
					cfg.UnixSocketConfig = sharedUSC
				}
				cfg.RunnerFunc = func(l hclog.Logger, cmd *exec.Cmd, tmp string) (runner.Runner, error) {
					cmd.Path, cmd.Args = cmd0.Path, cmd0.Args
					cmd.Env = append(cmd.Env, cmd0.Env...)
					return newProcRunner(cmd)
				}
			case "runner-fwd", "runner-fwdname": // a runner that reaches the plugin's sockets through TCP port-forwards (fwdname: published as localhost:port)
				cmd0 := mkCmd()
				cfg.UnixSocketConfig = &plugin.UnixSocketConfig{TempDir: hostTmp}
				cfg.RunnerFunc = func(l hclog.Logger, cmd *exec.Cmd, tmp string) (runner.Runner, error) {
					cmd.Path, cmd.Args = cmd0.Path, cmd0.Args
					cmd.Env = append(cmd.Env, cmd0.Env...)
					r, err := newProcRunner(cmd)
					if err == nil {
						r.(*procRunner).forward = true
						r.(*procRunner).forwardName = c.Host.Launch == "runner-fwdname"
					}
					return r, err
				}
			case "runner-xlate": // a container-like runner: the plugin sees the socket directory under another path
				cmd0 := mkCmd()
				cfg.UnixSocketConfig = &plugin.UnixSocketConfig{TempDir: hostTmp}
				cfg.RunnerFunc = func(l hclog.Logger, cmd *exec.Cmd, tmp string) (runner.Runner, error) {
					view := filepath.Join(c.Dir, "plugin-view")
					os.Remove(view)
					if err := os.Symlink(tmp, view); err != nil {
						return nil, err
					}
					cmd.Path, cmd.Args = cmd0.Path, cmd0.Args
					cmd.Env = append(cmd.Env, cmd0.Env...)
					cmd.Env = append(cmd.Env, "PLUGIN_UNIX_SOCKET_DIR="+view) // last assignment wins
					r, err := newProcRunner(cmd)
					if err == nil {
						pr := r.(*procRunner)
						pr.hostDir, pr.pluginDir = tmp, view
					}
					return r, err
				}
			}
			switch c.Host.Conflict {
			case "cmd+reattach":
				cfg.Cmd = mkCmd()
				cfg.Reattach = &plugin.ReattachConfig{}
			case "none-set":
				cfg.Cmd, cfg.RunnerFunc = nil, nil
			}
			clients = append(clients, plugin.NewClient(cfg))
			stores, protos = append(stores, nil), append(protos, nil)
			record(op, t0, nil, "")
		case "start":
			addr, err := clients[cur()].Start()
			if err == nil && addr != nil {
				res.Addr = addr.Network() + "|" + addr.String()
			}
			if lastCmd != nil && lastCmd.Process != nil && res.PluginPid == 0 {
				res.PluginPid = lastCmd.Process.Pid
			}
			if res.PluginPid == 0 && lastRunnerPid.Load() > 1 {
				res.PluginPid = int(lastRunnerPid.Load())
			}
			if err == nil {
				res.Protocol = string(clients[cur()].Protocol())
				res.Version = clients[cur()].NegotiatedVersion()
				if rc := clients[cur()].ReattachConfig(); rc != nil && rc.Pid > 0 && res.PluginPid == 0 {
					res.PluginPid = rc.Pid
				}
			}
			record(op, t0, err, "")
		case "client": // "client[:@i]"
			ci := cur()
			if _, at, ok := strings.Cut(arg, "@"); ok {
				if j, e := strconv.Atoi(at); e == nil && j < len(clients) {
					ci = j
				}
			}
			p, err := clients[ci].Client()
			protos[ci] = p
			record(op, t0, err, "")
		case "dispense":
			di := cur() // "dispense:[name][@i]": on client i instead of the newest one
			if v, at, ok := strings.Cut(arg, "@"); ok {
				arg = v
				if j, e := strconv.Atoi(at); e == nil && j < len(protos) {
					di = j
				}
			}
			if protos[di] == nil {
				record(op, t0, errors.New("no protocol client"), "")
				break
			}
			n := "kv"
			if arg != "" {
				n = arg
			}
			raw, err := protos[di].Dispense(n)
			if err == nil {
				st, ok := raw.(kv.Store)
				if !ok {
					err = fmt.Errorf("dispensed %T", raw)
				}
				stores[di] = st
			}
			record(op, t0, err, "")
		case "set", "get", "callback", "revcallback", "orphan", "big", "print", "printpat":
			i := cur()
			if v, at, ok := strings.Cut(arg, "@"); ok {
				arg = v
				if j, e := strconv.Atoi(at); e == nil && j < len(stores) {
					i = j
				}
			}
			st := stores[i]
			if st == nil {
				record(op, t0, errors.New("nothing dispensed"), "")
				break
			}
			switch name {
			case "set":
				v, _ := strconv.Atoi(arg)
				record(op, t0, st.Set(int32(v)), "")
			case "get":
				v, err := st.Get()
				record(op, t0, err, strconv.Itoa(int(v)))
			case "callback": // (value: transport security of the brokered connection as seen by the host, gRPC only)
				kv.LastBrokeredAuth.Store("")
				err := st.Callback()
				a, _ := kv.LastBrokeredAuth.Load().(string)
				record(op, t0, err, a)
			case "revcallback":
				kv.LastBrokeredAuth.Store("")
				err := st.RevCallback()
				a, _ := kv.LastBrokeredAuth.Load().(string)
				record(op, t0, err, a)
			case "orphan":
				record(op, t0, st.Orphan(), "")
			case "big":
				n, _ := strconv.Atoi(arg)
				got, err := st.Big(n)
				record(op, t0, err, strconv.Itoa(got))
			case "printpat": // arg = <n>x<m>: n bytes to stdout and m to stderr, a position-dependent pattern, sent as one request
				var n, m int
				fmt.Sscanf(arg, "%dx%d", &n, &m)
				patSeq++
				o, e := PrintPattern('o', patSeq, n), PrintPattern('e', patSeq, m)
				wantOut, wantErr = wantOut+o, wantErr+e
				err := st.Print(o, e)
				for i := 0; err == nil && i < 200 && (len(so.String()) < len(wantOut) || len(se.String()) < len(wantErr)); i++ {
					time.Sleep(50 * time.Millisecond)
				}
				record(op, t0, err, "")
			case "print":
				err := st.Print("OUT-"+arg, "ERR-"+arg)
				// delivery over the sync streams is asynchronous: wait (up to 10 s) for both markers
				for i := 0; err == nil && i < 200 && !(strings.Contains(so.String(), "OUT-"+arg) && strings.Contains(se.String(), "ERR-"+arg)); i++ {
					time.Sleep(50 * time.Millisecond)
				}
				record(op, t0, err, "")
			}
		case "ping":
			if protos[cur()] == nil {
				record(op, t0, errors.New("no protocol client"), "")
				break
			}
			record(op, t0, protos[cur()].Ping(), "")
		case "kill":
			i := cur()
			if arg != "" {
				i, _ = strconv.Atoi(arg)
			}
			clients[i].Kill()
			record(op, t0, nil, strconv.FormatBool(clients[i].Exited()))
		case "sameclient?": // Client() twice on the current client: the same protocol client?
			a, e1 := clients[cur()].Client()
			b, e2 := clients[cur()].Client()
			switch {
			case e1 != nil || e2 != nil:
				record(op, t0, fmt.Errorf("Client(): %v / %v", e1, e2), "")
			case a == b:
				record(op, t0, nil, "same")
			default:
				record(op, t0, nil, "different")
			}
		case "cleanup": // plugin.CleanupClients(): kills every managed client of this host process
			plugin.CleanupClients()
			record(op, t0, nil, strconv.FormatBool(clients[cur()].Exited()))
		case "waitexit": // wait (up to 10 s) until client arg reports the plugin as exited
			i, _ := strconv.Atoi(arg)
			ok := false
			for k := 0; k < 100 && !ok; k++ {
				if ok = clients[i].Exited(); !ok {
					time.Sleep(100 * time.Millisecond)
				}
			}
			if !ok {
				record(op, t0, errors.New("client does not report the plugin as exited 10 s after it was shut down"), "")
			} else {
				record(op, t0, nil, "exited")
			}
		case "exitedin": // how long (ms, up to 30 s) until client arg reports the plugin as exited
			i, _ := strconv.Atoi(arg)
			ok := false
			for k := 0; k < 1500 && !ok; k++ {
				if ok = clients[i].Exited(); !ok {
					time.Sleep(20 * time.Millisecond)
				}
			}
			if !ok {
				record(op, t0, errors.New("client does not report the plugin as exited 30 s after it died"), "")
			} else {
				record(op, t0, nil, "exited")
			}
		case "killconc": // arg concurrent Kill calls on the current client; a panic in any of them is reported
			n, _ := strconv.Atoi(arg)
			if n < 2 {
				n = 2
			}
			cl := clients[cur()]
			var wg sync.WaitGroup
			var pmu sync.Mutex
			panics := ""
			for k := 0; k < n; k++ {
				wg.Add(1)
				go func() {
					defer wg.Done()
					defer func() {
						if r := recover(); r != nil {
							pmu.Lock()
							panics += fmt.Sprint(r) + "; "
							pmu.Unlock()
						}
					}()
					cl.Kill()
				}()
			}
			wg.Wait()
			if panics != "" {
				record(op, t0, errors.New("Kill panicked: "+panics), strconv.FormatBool(cl.Exited()))
			} else {
				record(op, t0, nil, strconv.FormatBool(cl.Exited()))
			}
		case "treattachfn": // test-mode reattach config that also carries a ReattachFunc (a custom runner)
			if testRC == nil {
				record(op, t0, errors.New("no test reattach config"), "")
				break
			}
			cp := *testRC
			fr := &fakeAttached{}
			fakeRunners = append(fakeRunners, fr)
			cp.ReattachFunc = func() (runner.AttachedRunner, error) { return fr, nil }
			cfg := mkConfig()
			cfg.Reattach = &cp
			clients = append(clients, plugin.NewClient(cfg))
			stores, protos = append(stores, nil), append(protos, nil)
			record(op, t0, nil, "")
		case "fakekills?": // how often a test-mode ReattachFunc's runner was asked to kill
			k := 0
			for _, fr := range fakeRunners {
				k += int(fr.kills.Load())
			}
			record(op, t0, nil, strconv.Itoa(k))
		case "reattach": // a new client from client i's ReattachConfig
			i := cur()
			if arg != "" {
				i, _ = strconv.Atoi(arg)
			}
			rc := clients[i].ReattachConfig()
			if rc == nil {
				record(op, t0, errors.New("nil ReattachConfig"), "")
				break
			}
			res.PluginPid = rc.Pid
			if rc.Pid == 0 && rc.ReattachFunc == nil && lastProcRunner != nil {
				// the plugin runs behind the application's own runner: the application supplies the ReattachFunc (the
				// default one needs a pid), with the same address translation as the launching runner
				rc2 := *rc
				pr := lastProcRunner
				rc2.ReattachFunc = func() (runner.AttachedRunner, error) { return &attachedProc{pr: pr}, nil }
				rc = &rc2
				if pr.cmd.Process != nil {
					res.PluginPid = pr.cmd.Process.Pid
				}
			}
			cfg := mkConfig()
			cfg.Reattach = rc
			cfg.AutoMTLS = false
			switch c.Host.Conflict {
			case "mux+reattach":
				cfg.GRPCBrokerMultiplex = true
			case "secure+reattach":
				cfg.SecureConfig = &plugin.SecureConfig{}
			}
			clients = append(clients, plugin.NewClient(cfg))
			stores, protos = append(stores, nil), append(protos, nil)
			record(op, t0, nil, string(rc.Protocol))
		case "newimp": // a further AutoMTLS client whose plugin is the hand-made impostor in mode arg
			pcopy := c.Plugin
			pcopy.Impostor = arg
			cmd := exec.Command(c.VPlugin)
			pc, _ := json.Marshal(pcopy)
			cmd.Env = append(cmd.Env, "VP_CONF="+string(pc), "TMPDIR="+pluginDir, "PATH="+os.Getenv("PATH"))
			if f := os.Getenv("SSL_CERT_FILE"); f != "" {
				cmd.Env = append(cmd.Env, "SSL_CERT_FILE="+f) // the plugin shares the machine's trust store
			}
			if len(clients) > 0 {
				if rc := clients[0].ReattachConfig(); rc != nil {
					cmd.Env = append(cmd.Env, "VP_SIBLING_ADDR="+rc.Addr.String())
				}
			}
			lastCmd = cmd
			cfg := mkConfig()
			if c.Host.SharedConfig {
				if sharedCfg == nil {
					sharedCfg = cfg
				}
				cfg = sharedCfg
			}
			cfg.Cmd = cmd
			clients = append(clients, plugin.NewClient(cfg))
			stores, protos = append(stores, nil), append(protos, nil)
			record(op, t0, nil, "")
		case "spawnsamepid":
			// Another plugin process, started outside this host (by an earlier incarnation of the application, say), that the
			// kernel gave the pid the previous plugin of this cell had (pids are recycled); the host reattaches to it from the
			// reattach information that was written down for it: protocol, address, pid.
			pid := res.PluginPid
			if pid <= 1 || syscall.Kill(pid, 0) == nil {
				record(op, t0, nil, "skipped: the previous plugin's pid is unknown or still in use")
				break
			}
			helper := filepath.Join(filepath.Dir(c.VPlugin), "pidspawn")
			if _, err := os.Stat(helper); err != nil {
				helper = filepath.Join(filepath.Dir(filepath.Dir(c.VPlugin)), "pidspawn")
			}
			if _, err := os.Stat(helper); err != nil {
				record(op, t0, nil, "skipped: no pidspawn helper was built")
				break
			}
			sp := exec.Command(helper, strconv.Itoa(pid), c.VPlugin)
			pc, _ := json.Marshal(c.Plugin)
			sp.Env = []string{"VP_CONF=" + string(pc), "TMPDIR=" + pluginDir, "PATH=" + os.Getenv("PATH"), c.Plugin.CookieKey + "=" + c.Plugin.CookieValue, "PLUGIN_PROTOCOL_VERSIONS=1"}
			pr, pw, _ := os.Pipe()
			sp.Stdout = pw
			// (descriptors handed over are plain files: the program started lives on and would keep a copying pipe open)
			ef, _ := os.Create(filepath.Join(c.Dir, "pidspawn-stderr"))
			sp.Stderr = ef
			err := sp.Run()
			pw.Close()
			ef.Close()
			if err != nil {
				pr.Close()
				msg, _ := os.ReadFile(filepath.Join(c.Dir, "pidspawn-stderr"))
				record(op, t0, nil, "skipped: "+strings.TrimSpace(string(msg))+" "+err.Error())
				break
			}
			spawnedPid = pid
			lineCh := make(chan string, 1)
			go func() { l, _ := bufio.NewReader(pr).ReadString('\n'); lineCh <- l }()
			var line string
			select {
			case line = <-lineCh:
			case <-time.After(15 * time.Second):
			}
			f := strings.Split(strings.TrimSpace(line), "|")
			if len(f) < 5 || f[2] != "unix" {
				record(op, t0, fmt.Errorf("the out-of-band plugin printed %q", line), "")
				break
			}
			ver, _ := strconv.Atoi(f[1])
			cfg := mkConfig()
			cfg.Cmd = nil
			cfg.AutoMTLS = false
			cfg.Reattach = &plugin.ReattachConfig{Protocol: plugin.Protocol(f[4]), ProtocolVersion: ver, Addr: &net.UnixAddr{Name: f[3], Net: "unix"}, Pid: pid}
			clients = append(clients, plugin.NewClient(cfg))
			stores, protos = append(stores, nil), append(protos, nil)
			record(op, t0, nil, "spawned")
		case "scribble": // the application takes client arg's ReattachConfig and edits ITS copy (an observer that must never kill, another namespace's address, a legacy reader), then drops it
			i, _ := strconv.Atoi(arg)
			if rc := clients[i].ReattachConfig(); rc != nil {
				rc.Test = true
				rc.Protocol = ""
				rc.Pid = 0
				rc.Addr = &net.UnixAddr{Name: "/nonexistent/elsewhere.sock", Net: "unix"}
				record(op, t0, nil, "edited")
			} else {
				record(op, t0, errors.New("nil ReattachConfig"), "")
			}
		case "exited?": // what the current client says right now
			record(op, t0, nil, strconv.FormatBool(clients[cur()].Exited()))
		case "reattachlive": // like reattach, but the recorded pid belongs to a live bystander process
			i := cur()
			if arg != "" {
				i, _ = strconv.Atoi(arg)
			}
			rc := clients[i].ReattachConfig()
			if rc == nil {
				record(op, t0, errors.New("nil ReattachConfig"), "")
				break
			}
			by := exec.Command("sleep", "60")
			by.SysProcAttr = &syscall.SysProcAttr{Setpgid: false}
			if err := by.Start(); err != nil {
				record(op, t0, err, "")
				break
			}
			defer func() { by.Process.Kill(); by.Wait() }()
			cp := *rc
			cp.Pid = by.Process.Pid
			cfg := mkConfig()
			cfg.Reattach = &cp
			cfg.AutoMTLS = false
			clients = append(clients, plugin.NewClient(cfg))
			stores, protos = append(stores, nil), append(protos, nil)
			record(op, t0, nil, string(rc.Protocol))
		case "testserve": // an in-process plugin.Serve in test mode (arg = protocol)
			ctx, cancel := context.WithCancel(context.Background())
			testCancel = cancel
			rcCh := make(chan *plugin.ReattachConfig, 1)
			closeCh = make(chan struct{})
			impl := &kv.Impl{}
			sc := &plugin.ServeConfig{
				HandshakeConfig: plugin.HandshakeConfig{MagicCookieKey: cookieKey, MagicCookieValue: cookieVal, ProtocolVersion: 1},
				Test:            &plugin.ServeTestConfig{Context: ctx, ReattachConfigCh: rcCh, CloseCh: closeCh},
				Logger:          hclog.NewNullLogger(),
			}
			if arg == "grpc" {
				sc.Plugins = plugin.PluginSet{"kv": &kv.GPlugin{Impl: impl}}
				sc.GRPCServer = plugin.DefaultGRPCServer
			} else {
				sc.Plugins = plugin.PluginSet{"kv": &kv.Plugin{Impl: impl}}
			}
			go plugin.Serve(sc)
			select {
			case testRC = <-rcCh:
				record(op, t0, nil, string(testRC.Protocol))
			case <-time.After(10 * time.Second):
				record(op, t0, errors.New("no reattach config from test-mode Serve"), "")
			}
		case "treattach": // a new client from the test-mode reattach config
			if testRC == nil {
				record(op, t0, errors.New("no test reattach config"), "")
				break
			}
			cfg := mkConfig()
			cfg.Reattach = testRC
			clients = append(clients, plugin.NewClient(cfg))
			stores, protos = append(stores, nil), append(protos, nil)
			record(op, t0, nil, "")
		case "cancel":
			if testCancel != nil {
				testCancel()
			}
			select {
			case <-closeCh:
				record(op, t0, nil, "closed")
			case <-time.After(10 * time.Second):
				record(op, t0, errors.New("CloseCh not closed 10 s after the context was cancelled"), "")
			}
		case "closed?":
			select {
			case <-closeCh:
				record(op, t0, nil, "closed")
			default:
				record(op, t0, nil, "serving")
			}
		case "sigstop", "sigcont", "sigkillplugin":
			if res.PluginPid <= 1 { // never signal pid 0 / -1 (the whole process group)
				record(op, t0, errors.New("plugin pid unknown"), "")
				break
			}
			sig := map[string]syscall.Signal{"sigstop": syscall.SIGSTOP, "sigcont": syscall.SIGCONT, "sigkillplugin": syscall.SIGKILL}[name]
			err := syscall.Kill(res.PluginPid, sig)
			time.Sleep(300 * time.Millisecond)
			record(op, t0, err, "")
		case "proc?": // state of the plugin pid: gone | zombie | <state letter>
			st := "gone"
			if res.PluginPid <= 1 {
				st = "unknown-pid"
			} else if b, err := os.ReadFile(fmt.Sprintf("/proc/%d/stat", res.PluginPid)); err == nil {
				f := strings.Fields(string(b[strings.LastIndexByte(string(b), ')')+1:]))
				if len(f) > 0 {
					st = f[0]
					if st == "Z" {
						st = "zombie"
					}
				}
			}
			record(op, t0, nil, st)
		case "pidgone": // wait up to 10 s for the plugin pid to disappear
			gone := false
			for i := 0; i < 100; i++ {
				if res.PluginPid > 0 && syscall.Kill(res.PluginPid, 0) != nil {
					gone = true
					break
				}
				time.Sleep(100 * time.Millisecond)
			}
			record(op, t0, nil, strconv.FormatBool(gone))
		case "intrude": // arg = credential class; tries the main address and every other socket of the pair
			var targets []string
			if rc := clients[0].ReattachConfig(); rc != nil {
				targets = append(targets, rc.Addr.String())
			}
			for _, d := range []string{pluginDir, hostTmp} {
				filepath.Walk(d, func(pth string, info os.FileInfo, err error) error {
					if err == nil && info.Mode()&os.ModeSocket != 0 {
						dup := false
						for _, t := range targets {
							if t == pth {
								dup = true
							}
						}
						if !dup {
							targets = append(targets, pth)
						}
					}
					return nil
				})
			}
			answered := 0
			var where []string
			for _, tg := range targets {
				for _, kind := range []string{"grpc", "netrpc"} {
					if intrude(tg, kind, arg) {
						answered++
						where = append(where, kind+"@"+filepath.Base(tg))
					}
				}
			}
			record(op, t0, nil, fmt.Sprintf("answered=%d targets=%d %s", answered, len(targets), strings.Join(where, ",")))
		case "systrust?": // control: does this process's system trust store really list the cell's certificate?
			v := "not-listed"
			if sysTrusted != nil {
				if leaf, err := x509.ParseCertificate(sysTrusted.Certificate[0]); err == nil {
					if pool, err := x509.SystemCertPool(); err == nil && pool != nil {
						if _, err := leaf.Verify(x509.VerifyOptions{Roots: pool, KeyUsages: []x509.ExtKeyUsage{x509.ExtKeyUsageClientAuth}}); err == nil {
							v = "listed"
						}
					}
				}
			}
			record(op, t0, nil, v)
		case "rmmarker": // forget the exit marker an earlier plugin of this cell wrote
			os.Remove(c.Plugin.ExitMarker)
		case "sleep":
			ms, _ := strconv.Atoi(arg)
			time.Sleep(time.Duration(ms) * time.Millisecond)
		case "env": // capture what a RunnerFunc is handed, without launching
			cfg := mkConfig()
			cfg.Cmd = nil
			cfg.UnixSocketConfig = &plugin.UnixSocketConfig{TempDir: hostTmp, Group: c.Host.Group}
			cfg.MinPort, cfg.MaxPort = c.Host.MinPort, c.Host.MaxPort
			if arg == "symlinktmp" {
				// the configured TempDir exists and is writable, but its path goes through a symlink followed by "..":
				// current -> releases/v5, TempDir = current/../shared, which the kernel resolves to releases/shared
				os.MkdirAll(filepath.Join(hostTmp, "releases", "v5"), 0o755)
				os.MkdirAll(filepath.Join(hostTmp, "releases", "shared"), 0o755)
				os.Symlink(filepath.Join("releases", "v5"), filepath.Join(hostTmp, "current"))
				cfg.UnixSocketConfig.TempDir = filepath.Join(hostTmp, "current") + "/../shared"
			}
			tempDir := cfg.UnixSocketConfig.TempDir
			cfg.RunnerFunc = func(l hclog.Logger, cmd *exec.Cmd, tmp string) (runner.Runner, error) {
				res.Env = append([]string(nil), cmd.Env...)
				res.StdinIsHost = cmd.Stdin == os.Stdin
				res.SocketDir = tmp
				// the directory handed over exists and lies inside the configured TempDir (as the kernel resolves both)
				res.SocketDirState = "missing"
				if fi, err := os.Stat(tmp); err == nil && fi.IsDir() {
					res.SocketDirState = "outside-TempDir"
					rt, e1 := filepath.EvalSymlinks(tmp)
					rd, e2 := filepath.EvalSymlinks(tempDir)
					if e1 == nil && e2 == nil && filepath.Dir(rt) == rd {
						res.SocketDirState = "ok"
					}
				}
				return nil, errors.New("capture only")
			}
			dump := filepath.Join(c.Dir, "envdump")
			if arg == "cmd" {
				// command launch: a real child writes down the environment it was given (NUL separated) and
				// then fails the handshake; the default command runner is what go-plugin builds for it
				cfg.RunnerFunc = nil
				cfg.Cmd = exec.Command("/bin/sh", "-c", "/usr/bin/env -0 > "+dump+"; echo not-a-plugin; exit 0")
				if c.Host.AmbientInCmd {
					// the application built the command's environment itself (from its own, as a host that is a plugin does)
					for k, v := range c.Ambient {
						cfg.Cmd.Env = append(cfg.Cmd.Env, k+"="+v)
					}
				}
			}
			if arg == "cmdstdin" {
				// command launch from a Cmd whose Stdin the application had preset: the child still gets the HOST's stdin
				// (here a file with known content), which it copies to a dump file
				hf := filepath.Join(c.Dir, "host-stdin")
				os.WriteFile(hf, []byte("HOST-STDIN"), 0o644)
				if f, err := os.Open(hf); err == nil {
					os.Stdin = f
				}
				cfg.RunnerFunc = nil
				cfg.Cmd = exec.Command("/bin/sh", "-c", "/usr/bin/env -0 > "+dump+"; cat > "+dump+".stdin; echo not-a-plugin; exit 0")
				cfg.Cmd.Stdin = strings.NewReader("PRESET-BY-THE-APPLICATION")
			}
			if arg == "cmdzero" {
				// command launch from a host whose stdin is a character device (/dev/zero here; a terminal, a serial line):
				// the child reads from that very device
				if f, err := os.Open("/dev/zero"); err == nil {
					os.Stdin = f
				}
				cfg.RunnerFunc = nil
				cfg.Cmd = exec.Command("/bin/sh", "-c", "/usr/bin/env -0 > "+dump+"; head -c 10 > "+dump+".stdin; echo not-a-plugin; exit 0")
			}
			if arg == "reuseok" {
				// the same *ClientConfig first starts a real plugin successfully (a version is negotiated) ...
				capture := cfg.RunnerFunc
				cfg.RunnerFunc = nil
				cfg.Cmd = mkCmd()
				first := plugin.NewClient(cfg)
				_, err := first.Start()
				first.Kill()
				if err != nil {
					record(op, t0, fmt.Errorf("first (real) start with this configuration failed: %v", err), "")
					continue
				}
				// ... and is then used for a second client whose launch is observed
				cfg.Cmd, cfg.RunnerFunc = nil, capture
			}
			cl := plugin.NewClient(cfg)
			cl.Start()
			if arg == "cmdstdin" || arg == "cmdzero" {
				b, _ := os.ReadFile(dump + ".stdin")
				res.StdinSeen = string(b)
			}
			switch arg {
			case "cmd", "cmdstdin", "cmdzero":
				if b, err := os.ReadFile(dump); err == nil {
					for _, kv := range strings.Split(string(b), "\x00") {
						if kv != "" {
							res.Env = append(res.Env, kv)
						}
					}
				} else {
					record(op, t0, err, "")
					cl.Kill()
					continue
				}
			case "reuse": // a second client built from the very same *ClientConfig
				cl.Kill()
				res.Env = nil
				cl = plugin.NewClient(cfg)
				cl.Start()
			case "retry": // the same client started again after the runner could not be created
				res.Env = nil
				cl.Start()
			}
			cl.Kill()
			record(op, t0, nil, "")
		default:
			record(op, t0, errors.New("unknown operation (harness error)"), "")
		}
	}
	// observations after the history
	if len(clients) > 0 {
		if rc := clients[0].ReattachConfig(); rc != nil && res.PluginPid == 0 {
			res.PluginPid = rc.Pid
		}
	}
	if c.LeakWait > 0 {
		time.Sleep(time.Duration(c.LeakWait) * time.Millisecond)
		res.Goroutines = pluginGoroutines()
	}
	if res.PluginPid > 0 {
		res.PluginAlive = syscall.Kill(res.PluginPid, 0) == nil
	}
	res.PluginFiles = listDir(pluginDir)
	res.HostFiles = listDir(hostTmp)
	if c.Plugin.ExitMarker != "" {
		_, err := os.Stat(c.Plugin.ExitMarker)
		res.ExitMarker = err == nil
	}
	res.XlateRefused = xlateRefused.Load()
	res.SyncOut, res.SyncErr = so.String(), se.String()
	res.SyncClosed = so.wasClosed() || se.wasClosed() || plog.wasClosed()
	res.StderrLines = strings.Count(plog.String(), "\n")
	if pl := plog.String(); len(pl) > 3000 {
		res.PluginLog = pl[len(pl)-3000:]
	} else {
		res.PluginLog = pl
	}
	return res
}

func listDir(d string) []string {
	ents, _ := os.ReadDir(d)
	var out []string
	for _, e := range ents {
		out = append(out, e.Name())
	}
	return out
}

// pluginGoroutines lists goroutines whose stack has a frame in go-plugin (not in the helper itself).
func pluginGoroutines() []string {
	var buf bytes.Buffer
	pprof.Lookup("goroutine").WriteTo(&buf, 1)
	var out []string
	for _, blk := range strings.Split(buf.String(), "\n\n") {
		if !strings.Contains(blk, "hashicorp/go-plugin.") && !strings.Contains(blk, "go-plugin/internal/") {
			// goroutines of gRPC connections and servers: in the host helper gRPC is only ever used through go-plugin
			// (Client.Client, the broker's Dial / AcceptAndServe), so one that is left was started for a killed client
			if strings.Contains(blk, "google.golang.org/grpc") {
				var fr []string
				for _, l := range strings.Split(blk, "\n") {
					if f := strings.Fields(l); strings.HasPrefix(l, "#\t") && len(f) >= 3 && strings.Contains(f[2], "google.golang.org/grpc") && len(fr) < 3 {
						fn := f[2]
						if k := strings.LastIndexByte(fn, '+'); k > 0 {
							fn = fn[:k]
						}
						fr = append(fr, fn[strings.LastIndexByte(fn, '/')+1:])
					}
				}
				out = append(out, "(gRPC) "+strings.Join(fr, " < "))
			}
			continue
		}
		var fr []string
		for _, l := range strings.Split(blk, "\n") {
			if strings.HasPrefix(l, "#\t") {
				f := strings.Fields(l)
				if len(f) >= 3 && strings.Contains(f[2], "go-plugin") {
					fn := f[2]
					if k := strings.LastIndexByte(fn, '+'); k > 0 {
						fn = fn[:k]
					}
					fr = append(fr, fn[strings.LastIndexByte(fn, '/')+1:])
				}
			}
		}
		out = append(out, strings.Join(fr, " < "))
	}
	return out
}

var _ = io.Discard

// fakeAttached is the AttachedRunner of a custom ReattachFunc: it only counts what it is asked to do.
type fakeAttached struct {
	kills atomic.Int32
	done  chan struct{}
	once  sync.Once
}

func (f *fakeAttached) ch() chan struct{} {
	f.once.Do(func() { f.done = make(chan struct{}) })
	return f.done
}
func (f *fakeAttached) Wait(context.Context) error { <-f.ch(); return nil }
func (f *fakeAttached) Kill(context.Context) error {
	if f.kills.Add(1) == 1 {
		close(f.ch())
	}
	return nil
}
func (f *fakeAttached) ID() string                                       { return "fake" }
func (f *fakeAttached) PluginToHost(n, a string) (string, string, error) { return n, a, nil }
func (f *fakeAttached) HostToPlugin(n, a string) (string, string, error) { return n, a, nil }

// PrintPattern is the text the n-byte write number seq to a stream carries (printable, position dependent, so that
// loss, duplication, reordering and crossing between the streams all show).
func PrintPattern(stream byte, seq, n int) string {
	b := make([]byte, n)
	for i := range b {
		b[i] = "abcdefghijklmnopqrstuvwxyz0123456789%"[(i*7+seq*11+int(stream))%37]
	}
	if n > 0 {
		b[0] = stream
	}
	return string(b)
}

// stderrWriter returns w, or a writer in front of it that takes us microseconds per Write (a slow sink: a terminal, a
// network log shipper).
func stderrWriter(w io.Writer, us int) io.Writer {
	if us <= 0 {
		return w
	}
	return slowWriter{w: w, d: time.Duration(us) * time.Microsecond}
}

type slowWriter struct {
	w io.Writer
	d time.Duration
}

func (s slowWriter) Write(p []byte) (int, error) { time.Sleep(s.d); return s.w.Write(p) }
