package e3

import (
	"crypto/md5"
	"crypto/sha1"
	"crypto/sha256"
	"crypto/sha512"
	"encoding/base64"
	"encoding/hex"
	"errors"
	"fmt"
	"hash"
	"io"
	"os"
	"os/exec"
	"path/filepath"
	"strings"
	"testing"
	"time"

	hclog "github.com/hashicorp/go-hclog"
	plugin "github.com/hashicorp/go-plugin"
	"github.com/hashicorp/go-plugin/runner"
)

// TestC13 — SecureConfig: the binary runs iff the checksum equals the digest.
func TestC13(t *testing.T) {
	base := scratch(t)
	dir := filepath.Join(base, "c13")
	os.MkdirAll(dir, 0o755)
	defer os.RemoveAll(dir)
	marker := filepath.Join(dir, "marker")
	script := func(pad int) []byte {
		s := "#!/bin/sh\necho launched >> " + marker + "\necho '1|1|tcp|127.0.0.1:1234'\nexec sleep 5\n"
		if pad > 0 {
			s += "#" + strings.Repeat("p", pad) + "\n"
		}
		return []byte(s)
	}
	files := map[string][]byte{"minimal": script(0), "plus1": script(1), "1KiB": script(1024), "100KiB": script(100 * 1024)}
	paths := map[string]string{}
	for n, b := range files {
		p := filepath.Join(dir, n+".sh")
		os.WriteFile(p, b, 0o755)
		paths[n] = p
	}
	hashes := map[string]func() hash.Hash{"sha256": sha256.New, "sha1": sha1.New, "md5": md5.New, "sha512": sha512.New}
	out := &enumResult{Exhaustive: true, Outcomes: map[string]int{}}
	fileNames := []string{"minimal", "plus1", "1KiB", "100KiB"}
	hashNames := []string{"sha256", "sha1", "md5", "sha512"}
	if tier() == "quick" {
		fileNames = []string{"minimal", "1KiB"}
	}
	cmdDir := "" // exec.Cmd.Dir of the command the next run() hands to the client
	run := func(desc string, path string, h hash.Hash, sum []byte, wantLaunch bool, wantErr string) {
		os.Remove(marker)
		cmd := exec.Command(path)
		cmd.Dir = cmdDir
		c := plugin.NewClient(&plugin.ClientConfig{
			HandshakeConfig: plugin.HandshakeConfig{MagicCookieKey: "K", MagicCookieValue: "v", ProtocolVersion: 1},
			Plugins:         map[string]plugin.Plugin{},
			Cmd:             cmd,
			SecureConfig:    &plugin.SecureConfig{Checksum: sum, Hash: h},
			StartTimeout:    5 * time.Second,
			Logger:          hclog.NewNullLogger(),
		})
		var err error
		func() {
			defer func() {
				if r := recover(); r != nil {
					err = fmt.Errorf("PANIC in Start: %v", r)
					out.Violations = append(out.Violations, enumViolation{Case: desc, Class: "PANIC", Msg: fmt.Sprintf("Start panicked: %v [%s]", r, desc)})
				}
			}()
			_, err = c.Start()
		}()
		c.Kill()
		_, merr := os.Stat(marker)
		launched := merr == nil
		out.Evaluations++
		if !wantLaunch {
			out.Distinct++
		}
		bad := func(f string, a ...any) {
			out.Violations = append(out.Violations, enumViolation{Case: desc, Class: "S", Msg: fmt.Sprintf(f, a...) + " [" + desc + "]"})
		}
		if launched != wantLaunch {
			bad("binary launched=%v, expected %v (Start error: %v)", launched, wantLaunch, err)
		}
		if wantLaunch && err != nil {
			bad("matching checksum rejected: %v", err)
		}
		if !wantLaunch {
			switch {
			case err == nil:
				bad("Start succeeded with a non-matching checksum")
			case wantErr == "mismatch" && !errors.Is(err, plugin.ErrChecksumsDoNotMatch):
				bad("error %q is not ErrChecksumsDoNotMatch", err)
			case wantErr == "nochecksum" && !strings.Contains(err.Error(), plugin.ErrSecureConfigNoChecksum.Error()):
				bad("error %q does not report the missing checksum", err)
			case wantErr == "nohash" && !strings.Contains(err.Error(), plugin.ErrSecureConfigNoHash.Error()):
				bad("error %q does not report the missing hash", err)
			}
		}
		out.Outcomes[fmt.Sprintf("launch=%v", launched)]++
	}
	for _, fn := range fileNames {
		for _, hn := range hashNames {
			mk := hashes[hn]
			h := mk()
			h.Write(files[fn])
			digest := h.Sum(nil)
			d := func(s string) string { return fmt.Sprintf("file=%s hash=%s checksum=%s", fn, hn, s) }
			run(d("exact"), paths[fn], mk(), digest, true, "")
			for bit := 0; bit < 8*len(digest); bit++ {
				if tier() == "quick" && bit%8 != 0 && bit%8 != 7 && bit > 16 {
					continue // quick: first two bytes fully, then the extreme bits of every byte
				}
				s := append([]byte(nil), digest...)
				s[bit/8] ^= 1 << (bit % 8)
				run(d(fmt.Sprintf("bit %d flipped", bit)), paths[fn], mk(), s, false, "mismatch")
			}
			for n := 1; n < len(digest); n++ {
				run(d(fmt.Sprintf("prefix of %d bytes", n)), paths[fn], mk(), digest[:n], false, "mismatch")
			}
			run(d("exact+1 trailing byte"), paths[fn], mk(), append(append([]byte(nil), digest...), 0), false, "mismatch")
			run(d("exact+2 trailing bytes"), paths[fn], mk(), append(append([]byte(nil), digest...), 0, 1), false, "mismatch")
			run(d("empty"), paths[fn], mk(), []byte{}, false, "nochecksum")
			run(d("nil"), paths[fn], mk(), nil, false, "nochecksum")
			run(d("all zeros"), paths[fn], mk(), make([]byte, len(digest)), false, "mismatch")
			// textual renderings of the digest are other byte strings than the digest
			run(d("hex text of the digest (lower case)"), paths[fn], mk(), []byte(hex.EncodeToString(digest)), false, "mismatch")
			run(d("hex text of the digest (upper case)"), paths[fn], mk(), []byte(strings.ToUpper(hex.EncodeToString(digest))), false, "mismatch")
			run(d("base64 text of the digest"), paths[fn], mk(), []byte(base64.StdEncoding.EncodeToString(digest)), false, "mismatch")
			run(d("digest followed by its hex text"), paths[fn], mk(), append(append([]byte(nil), digest...), hex.EncodeToString(digest)...), false, "mismatch")
			other := mk()
			other.Write(files["plus1"])
			if fn != "plus1" {
				run(d("digest of another file"), paths[fn], mk(), other.Sum(nil), false, "mismatch")
			}
			run(d("exact, nil hash"), paths[fn], nil, digest, false, "nohash")
		}
	}
	// ---- digests that END in a zero byte (a comparison that pads or truncates to a fixed width would accept
	// the truncated checksum): per hash function, the first padded script whose digest has a zero last byte
	for _, hn := range hashNames {
		mk := hashes[hn]
		for pad := 2; pad < 20000; pad++ {
			h := mk()
			h.Write(script(pad))
			digest := h.Sum(nil)
			if digest[len(digest)-1] != 0 {
				continue
			}
			p := filepath.Join(dir, "zerotail-"+hn+".sh")
			os.WriteFile(p, script(pad), 0o755)
			d := func(s string) string { return fmt.Sprintf("file=zerotail(pad %d) hash=%s checksum=%s", pad, hn, s) }
			run(d("exact"), p, mk(), digest, true, "")
			run(d("digest without its zero last byte"), p, mk(), digest[:len(digest)-1], false, "mismatch")
			run(d("exact+4 zero bytes"), p, mk(), append(append([]byte(nil), digest...), 0, 0, 0, 0), false, "mismatch")
			run(d("exact+64 zero bytes"), p, mk(), append(append([]byte(nil), digest...), make([]byte, 64)...), false, "mismatch")
			run(d("exact+1 non-zero trailing byte"), p, mk(), append(append([]byte(nil), digest...), 0x5a), false, "mismatch")
			break
		}
	}
	// ---- histories on ONE SecureConfig (the hash is reset between uses, as a caller that re-uses it must):
	// a verification result must never outlive the file it was computed for
	{
		p := filepath.Join(dir, "reuse.sh")
		good := script(7)
		evil := []byte("#!/bin/sh\necho evil >> " + marker + "\necho '1|1|tcp|127.0.0.1:1234'\nexec sleep 5\n")
		sum := func(b []byte) []byte { h := sha256.New(); h.Write(b); return h.Sum(nil) }
		type step struct {
			content []byte
			sumOf   []byte
			launch  bool
		}
		for hi, hist := range [][]step{
			{{good, good, true}, {evil, good, false}},                     // verified once, then the file is replaced
			{{good, good, true}, {good, good, true}},                      // unchanged file verifies again
			{{evil, good, false}, {good, good, true}},                     // a failed verification does not stick either
			{{good, good, true}, {good, evil, false}, {good, good, true}}, // the checksum changes in between
		} {
			sc := &plugin.SecureConfig{Hash: sha256.New()}
			for si, st := range hist {
				os.WriteFile(p, st.content, 0o755)
				sc.Checksum = sum(st.sumOf)
				sc.Hash.Reset()
				os.Remove(marker)
				c := plugin.NewClient(&plugin.ClientConfig{
					HandshakeConfig: plugin.HandshakeConfig{MagicCookieKey: "K", MagicCookieValue: "v", ProtocolVersion: 1},
					Plugins:         map[string]plugin.Plugin{}, Cmd: exec.Command(p), SecureConfig: sc, StartTimeout: 5 * time.Second, Logger: hclog.NewNullLogger(),
				})
				_, err := c.Start()
				c.Kill()
				_, merr := os.Stat(marker)
				out.Evaluations++
				out.Distinct++
				desc := fmt.Sprintf("reused SecureConfig, history %d step %d (file matches checksum: %v)", hi+1, si+1, st.launch)
				if (merr == nil) != st.launch {
					out.Violations = append(out.Violations, enumViolation{Case: desc, Class: "S", Msg: fmt.Sprintf("binary launched=%v, expected %v (Start error: %v) [%s]", merr == nil, st.launch, err, desc)})
				}
			}
		}
	}
	// ---- "the file at the command path" is the file the operating system executes for that path: command paths
	// that are not in clean form (a symlinked directory followed by "..", a symlink to the binary, "./", "//")
	// with a decoy at the textually cleaned location
	{
		root := filepath.Join(dir, "paths")
		os.MkdirAll(filepath.Join(root, "a"), 0o755)
		os.MkdirAll(filepath.Join(root, "b", "sub"), 0o755)
		real, decoy := script(11), []byte("#!/bin/sh\necho decoy >> "+marker+"\necho '1|1|tcp|127.0.0.1:1234'\nexec sleep 5\n")
		os.WriteFile(filepath.Join(root, "b", "plugin"), real, 0o755)
		os.WriteFile(filepath.Join(root, "a", "plugin"), decoy, 0o755)
		os.Symlink(filepath.Join(root, "b", "sub"), filepath.Join(root, "a", "link"))  // a/link -> b/sub, so a/link/../plugin is b/plugin
		os.Symlink(filepath.Join(root, "b", "plugin"), filepath.Join(root, "a", "ln")) // a/ln -> b/plugin
		sum := func(b []byte) []byte { h := sha256.New(); h.Write(b); return h.Sum(nil) }
		for _, pc := range []struct{ name, path string }{
			{"symlinked-dir/../plugin", filepath.Join(root, "a", "link") + "/../plugin"},
			{"symlink to the binary", filepath.Join(root, "a", "ln")},
			{"dir/./plugin", filepath.Join(root, "b") + "/./plugin"},
			{"dir//plugin", filepath.Join(root, "b") + "//plugin"},
			{"dir/sub/../plugin", filepath.Join(root, "b", "sub") + "/../plugin"},
		} {
			d := func(s string) string {
				return fmt.Sprintf("command path %s (executes b/plugin) checksum=%s", pc.name, s)
			}
			run(d("of the executed file"), pc.path, sha256.New(), sum(real), true, "")
			run(d("of the decoy at a/plugin"), pc.path, sha256.New(), sum(decoy), false, "mismatch")
		}
	}
	// ---- the same Client asked again after a failed verification (a host's retry loop): every attempt is refused, nothing runs
	for _, hn := range []string{"sha256", "md5"} {
		mk := hashes[hn]
		h := mk()
		h.Write(files["plus1"])
		wrong := h.Sum(nil) // the digest of another file
		os.Remove(marker)
		c := plugin.NewClient(&plugin.ClientConfig{
			HandshakeConfig: plugin.HandshakeConfig{MagicCookieKey: "K", MagicCookieValue: "v", ProtocolVersion: 1},
			Plugins:         map[string]plugin.Plugin{}, Cmd: exec.Command(paths["minimal"]),
			SecureConfig: &plugin.SecureConfig{Checksum: wrong, Hash: mk()},
			StartTimeout: 5 * time.Second, Logger: hclog.NewNullLogger(),
		})
		for attempt := 1; attempt <= 3; attempt++ {
			var err error
			if attempt == 2 {
				_, err = c.Client() // (Client() starts the plugin when it is not started yet)
			} else {
				_, err = c.Start()
			}
			_, merr := os.Stat(marker)
			out.Evaluations++
			out.Distinct++
			desc := fmt.Sprintf("file=minimal hash=%s checksum=digest of another file, attempt %d on the same Client", hn, attempt)
			if merr == nil {
				out.Violations = append(out.Violations, enumViolation{Case: desc, Class: "S", Msg: fmt.Sprintf("the binary was launched (error returned: %v) [%s]", err, desc)})
				break
			}
			if !errors.Is(err, plugin.ErrChecksumsDoNotMatch) {
				out.Violations = append(out.Violations, enumViolation{Case: desc, Class: "S", Msg: fmt.Sprintf("error %v is not ErrChecksumsDoNotMatch [%s]", err, desc)})
			}
		}
		c.Kill()
	}
	// ---- a bare file name as Cmd.Path (a hand-built exec.Cmd) with Cmd.Dir: the operating system runs Dir/name, never a
	// same-named file from a directory of the host's PATH
	{
		root := filepath.Join(dir, "bare")
		os.MkdirAll(filepath.Join(root, "pathdir"), 0o755)
		os.MkdirAll(filepath.Join(root, "rundir"), 0o755)
		real, decoy := script(19), []byte("#!/bin/sh\necho decoy >> "+marker+"\necho '1|1|tcp|127.0.0.1:1234'\nexec sleep 5\n")
		os.WriteFile(filepath.Join(root, "rundir", "c13bare"), real, 0o755)
		os.WriteFile(filepath.Join(root, "pathdir", "c13bare"), decoy, 0o755)
		oldPath := os.Getenv("PATH")
		os.Setenv("PATH", filepath.Join(root, "pathdir")+":"+oldPath)
		sum := func(b []byte) []byte { h := sha256.New(); h.Write(b); return h.Sum(nil) }
		for _, tc := range []struct {
			name   string
			sum    []byte
			launch bool
			werr   string
		}{{"of the executed file (Dir/name)", sum(real), true, ""}, {"of a same-named file in a PATH directory", sum(decoy), false, "mismatch"}} {
			os.Remove(marker)
			cmd := &exec.Cmd{Path: "c13bare", Args: []string{"c13bare"}, Dir: filepath.Join(root, "rundir")}
			c := plugin.NewClient(&plugin.ClientConfig{
				HandshakeConfig: plugin.HandshakeConfig{MagicCookieKey: "K", MagicCookieValue: "v", ProtocolVersion: 1},
				Plugins:         map[string]plugin.Plugin{}, Cmd: cmd,
				SecureConfig: &plugin.SecureConfig{Checksum: tc.sum, Hash: sha256.New()},
				StartTimeout: 5 * time.Second, Logger: hclog.NewNullLogger(),
			})
			_, err := c.Start()
			c.Kill()
			_, merr := os.Stat(marker)
			out.Evaluations++
			out.Distinct++
			desc := "bare command name with Cmd.Dir, a same-named file on PATH, checksum=" + tc.name
			if (merr == nil) != tc.launch {
				out.Violations = append(out.Violations, enumViolation{Case: desc, Class: "S", Msg: fmt.Sprintf("binary launched=%v, expected %v (Start error: %v) [%s]", merr == nil, tc.launch, err, desc)})
			} else if !tc.launch && !errors.Is(err, plugin.ErrChecksumsDoNotMatch) {
				out.Violations = append(out.Violations, enumViolation{Case: desc, Class: "S", Msg: fmt.Sprintf("error %v is not ErrChecksumsDoNotMatch [%s]", err, desc)})
			}
		}
		os.Setenv("PATH", oldPath)
	}
	// ---- a file larger than 1 GiB (sparse: a launcher, a hole, a payload behind the 1 GiB mark): the whole file counts
	{
		big := filepath.Join(dir, "big.sh")
		head := script(17)
		if f, err := os.OpenFile(big, os.O_CREATE|os.O_WRONLY|os.O_TRUNC, 0o755); err == nil {
			f.Write(head)
			f.WriteAt([]byte("\n# payload-beyond-1GiB\n"), 1<<30+4096)
			f.Close()
			sumN := func(n int64) []byte {
				h := sha256.New()
				if g, err := os.Open(big); err == nil {
					if n < 0 {
						io.Copy(h, g)
					} else {
						io.CopyN(h, g, n)
					}
					g.Close()
				}
				return h.Sum(nil)
			}
			full := sumN(-1)
			run("file of 1 GiB + 4 KiB (sparse) hash=sha256 checksum=exact", big, sha256.New(), full, true, "")
			for _, n := range []int64{1 << 30, 1 << 20, int64(len(head))} {
				run(fmt.Sprintf("file of 1 GiB + 4 KiB (sparse) hash=sha256 checksum=digest of its first %d bytes", n), big, sha256.New(), sumN(n), false, "mismatch")
			}
			os.Remove(big)
		} else {
			out.Violations = append(out.Violations, enumViolation{Case: "big file", Class: "ENGINE", Msg: "cannot create the sparse file: " + err.Error()})
		}
	}
	// ---- a relative command path with Cmd.Dir set: os/exec evaluates such a path relative to Dir, so "the file at
	// the command path" is Dir/path; a decoy sits at the same relative path under the host's working directory
	{
		root := filepath.Join(dir, "rel")
		sub := fmt.Sprintf("c13rel-%d", os.Getpid())
		os.MkdirAll(filepath.Join(root, sub), 0o755)
		os.MkdirAll(sub, 0o755) // under the working directory of this (host) process
		defer os.RemoveAll(sub)
		real, decoy := script(13), []byte("#!/bin/sh\necho decoy >> "+marker+"\necho '1|1|tcp|127.0.0.1:1234'\nexec sleep 5\n")
		os.WriteFile(filepath.Join(root, sub, "plugin"), real, 0o755)
		os.WriteFile(filepath.Join(root, sub, "only-here"), real, 0o755)
		os.WriteFile(filepath.Join(sub, "plugin"), decoy, 0o755)
		sum := func(b []byte) []byte { h := sha256.New(); h.Write(b); return h.Sum(nil) }
		cmdDir = root
		d := func(s string) string {
			return "relative command path ./" + "<sub>/plugin with Cmd.Dir set (executes Dir/<sub>/plugin) checksum=" + s
		}
		run(d("of the executed file"), "./"+sub+"/plugin", sha256.New(), sum(real), true, "")
		run(d("of the file at the same relative path under the host's working directory"), "./"+sub+"/plugin", sha256.New(), sum(decoy), false, "mismatch")
		run("relative command path with Cmd.Dir set, no file of that name under the host's working directory, checksum=of the executed file", "./"+sub+"/only-here", sha256.New(), sum(real), true, "")
		// relative paths whose first component begins with a dot (a dot-directory, a dot-file, a leading ../): another file sits
		// where the path would lead without its leading dots and slashes
		os.MkdirAll(filepath.Join(root, ".tools", "bin"), 0o755)
		os.MkdirAll(filepath.Join(root, "tools", "bin"), 0o755)
		os.MkdirAll(filepath.Join(root, "work", "up"), 0o755)
		os.MkdirAll(filepath.Join(root, "up"), 0o755)
		decoy2 := []byte("#!/bin/sh\necho decoy2 >> " + marker + "\necho '1|1|tcp|127.0.0.1:1234'\nexec sleep 5\n")
		for _, pp := range [][3]string{
			{".tools/bin/plugin", ".tools/bin/plugin", "tools/bin/plugin"},
			{"./.tools/bin/plugin", ".tools/bin/plugin", "tools/bin/plugin"},
			{"./.plugin", ".plugin", "plugin"},
			{"../up/plugin", "up/plugin", "work/up/plugin"}, // (with Cmd.Dir = root/work)
		} {
			os.WriteFile(filepath.Join(root, pp[1]), real, 0o755)
			os.WriteFile(filepath.Join(root, pp[2]), decoy2, 0o755)
			cmdDir = root
			if strings.HasPrefix(pp[0], "../") {
				cmdDir = filepath.Join(root, "work")
			}
			run("relative command path "+pp[0]+" with Cmd.Dir set checksum=of the executed file", pp[0], sha256.New(), sum(real), true, "")
			run("relative command path "+pp[0]+" with Cmd.Dir set checksum=of the file the path would name without its leading dots and slashes", pp[0], sha256.New(), sum(decoy2), false, "mismatch")
		}
		cmdDir = ""
	}
	{
		sum := func(b []byte) []byte { h := sha256.New(); h.Write(b); return h.Sum(nil) }
		for name, cs := range map[string][]byte{"digest of the script the runner would start": sum(files["minimal"]), "one byte": {'1'}, "all zeros": make([]byte, 32)} {
			os.Remove(marker)
			launched := false
			c := plugin.NewClient(&plugin.ClientConfig{
				HandshakeConfig: plugin.HandshakeConfig{MagicCookieKey: "K", MagicCookieValue: "v", ProtocolVersion: 1},
				Plugins:         map[string]plugin.Plugin{},
				SecureConfig:    &plugin.SecureConfig{Checksum: cs, Hash: sha256.New()},
				StartTimeout:    5 * time.Second, Logger: hclog.NewNullLogger(),
				RunnerFunc: func(l hclog.Logger, cmd *exec.Cmd, tmp string) (runner.Runner, error) {
					launched = true
					cmd.Path, cmd.Args = paths["minimal"], []string{paths["minimal"]}
					return newProcRunner(cmd)
				},
			})
			_, err := c.Start()
			c.Kill()
			_, merr := os.Stat(marker)
			out.Evaluations++
			out.Distinct++
			desc := "SecureConfig with a RunnerFunc (no command path to verify), checksum=" + name
			if launched || merr == nil {
				out.Violations = append(out.Violations, enumViolation{Case: desc, Class: "S", Msg: fmt.Sprintf("the runner was asked to launch (runner invoked=%v, binary ran=%v, Start error: %v) although no file was verified [%s]", launched, merr == nil, err, desc)})
			} else if err == nil {
				out.Violations = append(out.Violations, enumViolation{Case: desc, Class: "S", Msg: "Start succeeded [" + desc + "]"})
			}
		}
	}
	out.Samples = []any{"file=minimal hash=sha256 checksum=exact", "file=1KiB hash=md5 checksum=bit 7 flipped", "file=minimal hash=sha1 checksum=prefix of 19 bytes"}
	emit(out)
}
