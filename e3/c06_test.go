package e3

import (
	"fmt"
	"strings"
	"testing"
)

// TestC06Proc — one net/rpc plugin process (one RPCServer) serving several connections at once: the launching
// client and one or two clients reattached to it. A Dispense issued on any of the connections, in any order
// relative to the others' attachment, reaches a server object of that connection: calls on it work and a
// callback brokered over "its" MuxBroker (either direction) arrives.
func TestC06Proc(t *testing.T) {
	base := scratch(t)
	type hist struct {
		name string
		ops  []string
	}
	attach := []string{"start", "client"}
	hs := []hist{
		{"dispense on the older connection after a second one attached", cat(
			[]string{"new"}, attach, []string{"reattach:0"}, attach,
			[]string{"dispense:@0", "set:5@0", "get:@0!5", "callback:@0", "revcallback:@0", "dispense:@1", "get:@1!5", "callback:@1", "revcallback:@1"})},
		{"dispense on both, older first, then again on the older", cat(
			[]string{"new"}, attach, []string{"dispense", "set:3"}, []string{"reattach:0"}, attach,
			[]string{"dispense", "get!3", "dispense:@0", "set:4@0", "get:@1!4", "callback:@0", "callback:@1", "revcallback:@0", "revcallback:@1"})},
		{"three connections, dispenses in attach order reversed", cat(
			[]string{"new"}, attach, []string{"reattach:0"}, attach, []string{"reattach:0"}, attach,
			[]string{"dispense:@2", "dispense:@1", "dispense:@0", "set:9@1", "get:@0!9", "get:@2!9", "callback:@0", "callback:@1", "callback:@2", "revcallback:@1"})},
		{"three connections, the middle one dispenses twice", cat(
			[]string{"new"}, attach, []string{"reattach:0"}, attach, []string{"reattach:0"}, attach,
			[]string{"dispense:@1", "set:2@1", "dispense:@1", "get:@1!2", "callback:@1", "dispense:@0", "callback:@0", "dispense:@2", "callback:@2"})},
	}
	var cells []Cell
	for _, h := range hs {
		ops := append([]string{}, h.ops...)
		n := 0
		for _, o := range ops {
			if o == "new" || strings.HasPrefix(o, "reattach") {
				n++
			}
		}
		for i := n - 1; i >= 0; i-- {
			ops = append(ops, fmt.Sprintf("kill:%d", i))
		}
		cells = append(cells, Cell{
			Name:   "netrpc " + h.name,
			Plugin: PluginConf{CookieKey: cookieKey, CookieValue: cookieVal, Legacy: 1, LegacyProto: "netrpc", TLS: "none"},
			Host:   HostConf{Allowed: []string{"netrpc", "grpc"}, TLS: "none", Launch: "cmd", Legacy: 1, SkipHostEnv: true},
			Ops:    ops,
		})
	}
	results := runCells(base, cells)
	out := &enumResult{Exhaustive: true, Outcomes: map[string]int{}}
	for i, r := range results {
		c := cells[i]
		out.Evaluations++
		out.Distinct++
		bad := func(class, f string, a ...any) {
			out.Violations = append(out.Violations, enumViolation{Case: c.Name, Class: class, Msg: fmt.Sprintf(f, a...) + " [" + c.Name + "]"})
		}
		if r.HelperErr != "" {
			bad("L", "%s", r.HelperErr)
			continue
		}
		if r.Panic != "" {
			bad("PANIC", "host panicked: %s", r.Panic)
			continue
		}
		okN := 0
		for k, o := range r.Ops {
			if o.Err != "" {
				bad("S", "%s failed after %d ms: %s", o.Op, o.Ms, o.Err)
				break
			}
			if _, want, ok := strings.Cut(c.Ops[k], "!"); ok && o.Val != want {
				bad("S", "%s returned %s, expected %s", o.Op, o.Val, want)
			}
			okN++
		}
		out.Outcomes[fmt.Sprintf("ops-ok=%d/%d", okN, len(c.Ops))]++
		if len(out.Samples) < 2 {
			out.Samples = append(out.Samples, map[string]any{"cell": c.Name, "ops": r.Ops})
		}
	}
	emit(out)
}

func cat(l ...[]string) []string {
	var out []string
	for _, x := range l {
		out = append(out, x...)
	}
	return out
}
