package e3

import (
	"bufio"
	"crypto/ecdsa"
	"crypto/elliptic"
	"crypto/rand"
	"crypto/x509"
	"crypto/x509/pkix"
	"encoding/json"
	"encoding/pem"
	"fmt"
	"math/big"
	"net"
	"os"
	"os/exec"
	"path/filepath"
	"strconv"
	"strings"
	"sync"
	"syscall"
	"testing"
	"time"
)

// ---- helper mode: this test binary re-executed as the host process of one cell

func TestHostHelper(t *testing.T) {
	raw := os.Getenv("VHOST_CELL")
	if raw == "" {
		t.Skip("helper mode only")
	}
	var c Cell
	if err := json.Unmarshal([]byte(raw), &c); err != nil {
		fmt.Printf("RESULT {\"helper_err\":%q}\n", err.Error())
		return
	}
	res := RunCell(&c)
	b, _ := json.Marshal(res)
	fmt.Printf("RESULT %s\n", b)
}

// ---- driver side

type enumViolation struct {
	Case  string `json:"case"`
	Class string `json:"class"`
	Msg   string `json:"msg"`
	Input any    `json:"input,omitempty"`
}

type enumResult struct {
	Evaluations int             `json:"evaluations"`
	Distinct    int             `json:"distinct_nontrivial"`
	Exhaustive  bool            `json:"exhaustive"`
	States      int             `json:"states,omitempty"`
	Transitions int             `json:"transitions,omitempty"`
	Validated   int             `json:"traces_validated_against_impl,omitempty"`
	Samples     []any           `json:"samples"`
	Outcomes    map[string]int  `json:"outcomes,omitempty"`
	Violations  []enumViolation `json:"violations"`
	Notes       []string        `json:"notes,omitempty"`
	Extra       map[string]any  `json:"extra,omitempty"`
}

func emit(r *enumResult) {
	if r.Violations == nil {
		r.Violations = []enumViolation{}
	}
	if len(r.Violations) > 60 {
		r.Violations = r.Violations[:60]
	}
	b, _ := json.Marshal(r)
	fmt.Printf("ENUM %s\n", b)
}

func scratch(t *testing.T) string {
	d := os.Getenv("VERIF_SCRATCH")
	if d == "" {
		t.Skip("run through ./run (needs VERIF_SCRATCH with vplugin)")
	}
	return d
}

func tier() string { return os.Getenv("VERIF_ENUM") }

var cellSeq int
var cellMu sync.Mutex

// runCell runs one cell in a fresh helper process with its own TMPDIR.
func runCell(base string, c Cell) *Result {
	cellMu.Lock()
	cellSeq++
	n := cellSeq
	cellMu.Unlock()
	c.Dir = filepath.Join(base, fmt.Sprintf("cell%05d", n))
	hostTmp := filepath.Join(c.Dir, "host-tmp")
	os.MkdirAll(hostTmp, 0o755)
	c.VPlugin = filepath.Join(base, "vplugin")
	if os.Getenv("VERIF_OLD_TOOLCHAIN") != "" { // this binary and its plugins were built with the repository's own toolchain
		c.VPlugin = filepath.Join(base, "old", "vplugin")
	}
	if c.Plugin.ExitMarker == "auto" {
		c.Plugin.ExitMarker = filepath.Join(c.Dir, "exit-marker")
	}
	b, _ := json.Marshal(c)
	cmd := exec.Command(os.Args[0], "-test.run", "^TestHostHelper$", "-test.timeout", "120s")
	env := []string{"VHOST_CELL=" + string(b), "TMPDIR=" + hostTmp, "HOME=" + os.Getenv("HOME"), "PATH=" + os.Getenv("PATH"), "VERIF_HOST_MARKER=present"}
	if !c.Host.AmbientInCmd || c.Host.AmbientBoth {
		for k, v := range c.Ambient {
			env = append(env, k+"="+v)
		}
	}
	if c.Host.SysTrustCert != "" {
		f := filepath.Join(c.Dir, "systrust.pem")
		os.WriteFile(f, []byte(c.Host.SysTrustCert), 0o644)
		env = append(env, "SSL_CERT_FILE="+f)
	}
	cmd.Env = env
	cmd.SysProcAttr = &syscall.SysProcAttr{Setpgid: true} // own process group: a hung cell can be killed with its children
	done := make(chan struct{})
	var out []byte
	var err error
	go func() { out, err = cmd.CombinedOutput(); close(done) }()
	select {
	case <-done:
	case <-time.After(150 * time.Second):
		syscall.Kill(-cmd.Process.Pid, syscall.SIGKILL)
		cmd.Process.Kill()
		<-done
		return &Result{HelperErr: "cell timed out after 150 s (a call hung)"}
	}
	if cmd.Process != nil {
		syscall.Kill(-cmd.Process.Pid, syscall.SIGKILL) // whatever the cell left running (stopped plugins, sleeps)
	}
	sc := bufio.NewScanner(strings.NewReader(string(out)))
	sc.Buffer(make([]byte, 1<<20), 32<<20)
	for sc.Scan() {
		if l := sc.Text(); strings.HasPrefix(l, "RESULT ") {
			var r Result
			if e := json.Unmarshal([]byte(l[7:]), &r); e == nil {
				os.RemoveAll(c.Dir)
				return &r
			}
		}
	}
	tail := string(out)
	if len(tail) > 1500 {
		tail = tail[len(tail)-1500:]
	}
	msg := fmt.Sprintf("host process died (%v): %s", err, tail)
	if i := strings.Index(string(out), "panic:"); i >= 0 {
		msg = "host process panicked: " + strings.SplitN(string(out)[i:], "\n", 2)[0]
	}
	if strings.Contains(string(out), "panic: test timed out") {
		msg = "a host call never returned: the cell was still running when the helper's 120 s deadline expired"
		if j := strings.Index(string(out), "go-plugin.(*Client)."); j >= 0 {
			msg += " (blocked in " + strings.SplitN(string(out)[j:], "(", 3)[1] + strings.SplitN(strings.SplitN(string(out)[j:], "\n", 2)[0], ")", 2)[1] + ")"
		}
	}
	os.RemoveAll(c.Dir)
	return &Result{HelperErr: msg}
}

// runCells runs cells 16 at a time.
func runCells(base string, cells []Cell) []*Result {
	// debugging aid: VERIF_CELL_FILTER=<substring> VERIF_CELL_REPEAT=<n> runs only the matching cells, n times
	// each, and prints every failing result (the check's verdict is then meaningless)
	if f := os.Getenv("VERIF_CELL_FILTER"); f != "" {
		n, _ := strconv.Atoi(os.Getenv("VERIF_CELL_REPEAT"))
		if n < 1 {
			n = 1
		}
		var sel []Cell
		for _, c := range cells {
			if strings.Contains(c.Name, f) {
				for i := 0; i < n; i++ {
					sel = append(sel, c)
				}
			}
		}
		res := runCellsN(base, sel)
		for i, r := range res {
			bad := r.HelperErr != "" || r.Panic != ""
			for _, o := range r.Ops {
				if o.Err != "" {
					bad = true
				}
			}
			if bad || os.Getenv("VERIF_CELL_DUMP") != "" {
				b, _ := json.Marshal(r)
				fmt.Printf("STRESS-FAIL %s: %s\n", sel[i].Name, b)
			}
		}
		fmt.Printf("STRESS %d cells\n", len(sel))
		os.Exit(0)
	}
	return runCellsN(base, cells)
}

func runCellsN(base string, cells []Cell) []*Result {
	out := make([]*Result, len(cells))
	sem := make(chan struct{}, 16)
	var wg sync.WaitGroup
	for i := range cells {
		wg.Add(1)
		sem <- struct{}{}
		go func(i int) {
			defer wg.Done()
			defer func() { <-sem }()
			out[i] = runCell(base, cells[i])
		}(i)
	}
	wg.Wait()
	return out
}

func genCert(t testing.TB) (certPEM, keyPEM string) {
	key, err := ecdsa.GenerateKey(elliptic.P256(), rand.Reader)
	if err != nil {
		t.Fatal(err)
	}
	tmpl := &x509.Certificate{SerialNumber: big.NewInt(7), Subject: pkix.Name{CommonName: "localhost"}, DNSNames: []string{"localhost"},
		NotBefore: time.Now().Add(-time.Hour), NotAfter: time.Now().Add(24 * time.Hour), IsCA: true, BasicConstraintsValid: true,
		KeyUsage: x509.KeyUsageDigitalSignature | x509.KeyUsageCertSign, ExtKeyUsage: []x509.ExtKeyUsage{x509.ExtKeyUsageServerAuth, x509.ExtKeyUsageClientAuth}}
	der, err := x509.CreateCertificate(rand.Reader, tmpl, tmpl, &key.PublicKey, key)
	if err != nil {
		t.Fatal(err)
	}
	kb, _ := x509.MarshalECPrivateKey(key)
	return string(pem.EncodeToMemory(&pem.Block{Type: "CERTIFICATE", Bytes: der})), string(pem.EncodeToMemory(&pem.Block{Type: "EC PRIVATE KEY", Bytes: kb}))
}

func opErr(r *Result, op string) (string, bool) {
	for _, o := range r.Ops {
		if o.Op == op || strings.HasPrefix(o.Op, op+":") {
			return o.Err, true
		}
	}
	return "", false
}

func firstErr(r *Result) (string, string) {
	for _, o := range r.Ops {
		if o.Err != "" {
			return o.Op, o.Err
		}
	}
	return "", ""
}

var _ = net.Dial
