package e3

import (
	"fmt"
	"strconv"
	"strings"
	"testing"
)

// TestC11Proc — synced stdout/stderr of a real plugin.Serve child (whose garbage collector has run: the test plugin
// collects before every write) arrive byte-exact at SyncStdout / SyncStderr; write sizes around the chunk and
// buffer boundaries, several requests in a row, net/rpc, gRPC, gRPC+mux, with and without AutoMTLS.
func TestC11Proc(t *testing.T) {
	base := scratch(t)
	seqs := [][]string{{"12x12"}, {"1024x1"}, {"1x1024"}, {"1025x4097", "0x1", "4096x4095"}, {"70000x10"}, {"10x70000", "1x1", "1500x1500"}, {"5000x5000", "5000x5000", "12x0"}}
	if tier() == "thorough" {
		seqs = append(seqs, []string{"1023x1025", "1024x1024", "1025x1023"}, []string{"200000x3"}, []string{"3x200000"}, []string{"4095x4096", "4097x1", "1x4097", "8192x8192"})
	}
	var cells []Cell
	for _, proto := range []string{"netrpc", "grpc"} {
		for _, mux := range []bool{false, true} {
			if mux && proto != "grpc" {
				continue
			}
			for _, tl := range []string{"none", "auto"} {
				for _, sq := range seqs {
					ops := []string{"new", "start", "client", "dispense"}
					for _, w := range sq {
						ops = append(ops, "printpat:"+w)
					}
					ops = append(ops, "kill")
					cells = append(cells, Cell{
						Name:   fmt.Sprintf("%s mux=%v tls=%s writes=%v", proto, mux, tl, sq),
						Plugin: PluginConf{CookieKey: cookieKey, CookieValue: cookieVal, Legacy: 1, LegacyProto: proto, GRPCServer: true, TLS: "none"},
						Host:   HostConf{Allowed: []string{"netrpc", "grpc"}, TLS: tl, Mux: mux, Launch: "cmd", Legacy: 1, SkipHostEnv: true},
						Ops:    ops,
					})
				}
			}
		}
	}
	// two plugins at once whose sync writers are the same (closable) writers of the application: the second keeps
	// printing after the first was killed
	nPat := len(cells)
	for _, proto := range []string{"netrpc", "grpc"} {
		for _, order := range [][]string{{"kill:0", "print:c@1", "kill:1"}, {"kill:1", "print:c@0", "kill:0"}} {
			ops := append([]string{"new", "start", "client", "dispense", "print:a", "new", "start", "client", "dispense", "print:b@1"}, order...)
			cells = append(cells, Cell{
				Name:   fmt.Sprintf("%s two plugins sharing the application's (closable) sync writers, then %s", proto, strings.Join(order, ",")),
				Plugin: PluginConf{CookieKey: cookieKey, CookieValue: cookieVal, Legacy: 1, LegacyProto: proto, GRPCServer: true, TLS: "none"},
				Host:   HostConf{Allowed: []string{"netrpc", "grpc"}, TLS: "none", Launch: "cmd", Legacy: 1, SkipHostEnv: true},
				Ops:    ops,
			})
		}
	}
	results := runCells(base, cells)
	out := &enumResult{Exhaustive: true, Outcomes: map[string]int{}}
	for i, r := range results {
		c := cells[i]
		out.Evaluations++
		out.Distinct++
		bad := func(f string, a ...any) {
			out.Violations = append(out.Violations, enumViolation{Case: c.Name, Class: "S", Msg: fmt.Sprintf(f, a...) + " [" + c.Name + "]"})
		}
		if r.HelperErr != "" || r.Panic != "" {
			bad("%s%s", r.HelperErr, r.Panic)
			continue
		}
		if op, e := firstErr(r); e != "" {
			bad("session failed at %s: %s", op, e)
			continue
		}
		if r.SyncClosed {
			bad("go-plugin closed a writer that belongs to the application (SyncStdout / SyncStderr / Stderr)")
		}
		if i >= nPat {
			for _, m := range []string{"a", "b", "c"} {
				if !strings.Contains(r.SyncOut, "OUT-"+m) || !strings.Contains(r.SyncErr, "ERR-"+m) {
					bad("output %q of a live plugin did not reach the sync writers (stdout has it: %v, stderr has it: %v)", m, strings.Contains(r.SyncOut, "OUT-"+m), strings.Contains(r.SyncErr, "ERR-"+m))
				}
			}
			out.Outcomes["shared-writers"]++
			continue
		}
		wantOut, wantErr, seq := "", "", 0
		for _, op := range c.Ops {
			if a, ok := strings.CutPrefix(op, "printpat:"); ok {
				n, m, _ := strings.Cut(a, "x")
				ni, _ := strconv.Atoi(n)
				mi, _ := strconv.Atoi(m)
				seq++
				wantOut += PrintPattern('o', seq, ni)
				wantErr += PrintPattern('e', seq, mi)
			}
		}
		cmp := func(name, got, want string) {
			if got == want {
				return
			}
			k := 0
			for k < len(got) && k < len(want) && got[k] == want[k] {
				k++
			}
			bad("%s: received %d bytes, the plugin wrote %d; first difference at offset %d", name, len(got), len(want), k)
		}
		cmp("SyncStdout", r.SyncOut, wantOut)
		cmp("SyncStderr", r.SyncErr, wantErr)
		out.Outcomes[fmt.Sprintf("exact=%v", r.SyncOut == wantOut && r.SyncErr == wantErr)]++
		if len(out.Samples) < 3 && i%13 == 0 {
			out.Samples = append(out.Samples, map[string]any{"cell": c.Name, "stdout_bytes": len(r.SyncOut), "stderr_bytes": len(r.SyncErr)})
		}
	}
	emit(out)
}
