package e3

import (
	"fmt"
	"strings"
	"testing"
)

// TestC18 — after a graceful Kill nothing is left behind: socket files,
// temp directories, goroutines.
func TestC18(t *testing.T) {
	base := scratch(t)
	events := []string{"dispense", "callback", "revcallback", "print:b", "orphan"}
	var hists [][]string
	hists = append(hists, nil)
	for _, a := range events {
		hists = append(hists, []string{a})
		for _, b := range events {
			hists = append(hists, []string{a, b})
			if tier() == "thorough" {
				for _, c := range events {
					hists = append(hists, []string{a, b, c})
				}
			}
		}
	}
	var cells []Cell
	for _, proto := range []string{"netrpc", "grpc"} {
		for _, mux := range []bool{false, true} {
			if mux && proto != "grpc" {
				continue
			}
			for _, tl := range []string{"none", "auto"} {
				for _, launch := range []string{"cmd", "runner"} {
					for _, h := range hists {
						if tier() == "quick" && len(h) == 2 && (tl == "auto" || launch == "runner") {
							continue
						}
						ops := append([]string{"new", "start", "client", "dispense"}, h...)
						ops = append(ops, "kill")
						cells = append(cells, Cell{
							Name:     fmt.Sprintf("%s mux=%v tls=%s launch=%s history=[%s]", proto, mux, tl, launch, strings.Join(h, ",")),
							Plugin:   PluginConf{CookieKey: cookieKey, CookieValue: cookieVal, Legacy: 1, LegacyProto: proto, GRPCServer: true, TLS: "none", ExitMarker: "auto"},
							Host:     HostConf{Allowed: []string{"netrpc", "grpc"}, TLS: tl, Mux: mux, Launch: launch, Legacy: 1, SkipHostEnv: true},
							Ops:      ops,
							LeakWait: 7000,
						})
					}
				}
			}
		}
	}
	// a plugin that acknowledges the Shutdown request before it stops serving (the reply reaches the host)
	for _, mux := range []bool{false, true} {
		for _, tl := range []string{"none", "auto"} {
			for _, h := range [][]string{nil, {"callback"}, {"revcallback"}, {"print:b", "callback"}} {
				ops := append([]string{"new", "start", "client", "dispense"}, h...)
				ops = append(ops, "kill")
				cells = append(cells, Cell{
					Name:     fmt.Sprintf("grpc mux=%v tls=%s launch=cmd history=[%s] plugin acknowledges Shutdown", mux, tl, strings.Join(h, ",")),
					Plugin:   PluginConf{CookieKey: cookieKey, CookieValue: cookieVal, Legacy: 1, LegacyProto: "grpc", GRPCServer: true, TLS: "none", ExitMarker: "auto", AckShutdown: true},
					Host:     HostConf{Allowed: []string{"netrpc", "grpc"}, TLS: tl, Mux: mux, Launch: "cmd", Legacy: 1, SkipHostEnv: true},
					Ops:      ops,
					LeakWait: 7000,
				})
			}
		}
	}
	// the application had given its exec.Cmd a standard input of its own (a pipe nobody writes to or closes)
	for _, proto := range []string{"netrpc", "grpc"} {
		for _, h := range [][]string{nil, {"callback"}, {"print:b"}} {
			ops := append([]string{"new", "start", "client", "dispense"}, h...)
			ops = append(ops, "kill")
			cells = append(cells, Cell{
				Name:     fmt.Sprintf("%s mux=false tls=none launch=cmd history=[%s] the Cmd came with a stdin of the application's own", proto, strings.Join(h, ",")),
				Plugin:   PluginConf{CookieKey: cookieKey, CookieValue: cookieVal, Legacy: 1, LegacyProto: proto, GRPCServer: true, TLS: "none", ExitMarker: "auto"},
				Host:     HostConf{Allowed: []string{"netrpc", "grpc"}, TLS: "none", Launch: "cmd", Legacy: 1, SkipHostEnv: true, PresetStdin: "idle-pipe"},
				Ops:      ops,
				LeakWait: 7000,
			})
		}
	}
	// a plugin is killed through a client that had been reattached to it for a while (25 s)
	for _, proto := range []string{"netrpc", "grpc"} {
		cells = append(cells, Cell{
			Name:     fmt.Sprintf("%s mux=false tls=none launch=cmd history=[] killed through a client that had been reattached for 25 s", proto),
			Plugin:   PluginConf{CookieKey: cookieKey, CookieValue: cookieVal, Legacy: 1, LegacyProto: proto, GRPCServer: true, TLS: "none", ExitMarker: "auto"},
			Host:     HostConf{Allowed: []string{"netrpc", "grpc"}, TLS: "none", Launch: "cmd", Legacy: 1, SkipHostEnv: true},
			Ops:      []string{"new", "start", "client", "dispense", "reattach:0", "start", "client", "dispense", "sleep:25000", "kill:1", "waitexit:0", "kill:0"},
			LeakWait: 7000,
		})
	}
	// two plugins behind custom runners at once, killed in either order; the application uses one UnixSocketConfig value
	// for both (shared) or one each
	for _, proto := range []string{"netrpc", "grpc"} {
		for _, shared := range []bool{false, true} {
			for _, order := range [][]string{{"kill:0", "get:@1", "kill:1"}, {"kill:1", "get:@0", "kill:0"}} {
				ops := []string{"new", "start", "client", "dispense", "set:5", "new", "start", "client", "dispense", "set:5@1", "callback:@0", "callback:@1"}
				ops = append(ops, order...)
				cells = append(cells, Cell{
					Name:     fmt.Sprintf("%s mux=false tls=none launch=runner two plugins at once (shared UnixSocketConfig=%v) history=[%s]", proto, shared, strings.Join(order, ",")),
					Plugin:   PluginConf{CookieKey: cookieKey, CookieValue: cookieVal, Legacy: 1, LegacyProto: proto, GRPCServer: true, TLS: "none", ExitMarker: "auto"},
					Host:     HostConf{Allowed: []string{"netrpc", "grpc"}, TLS: "none", Launch: "runner", Legacy: 1, SkipHostEnv: true, SharedSocketCfg: shared},
					Ops:      ops,
					LeakWait: 7000,
				})
			}
		}
	}
	// the other order: the plugin has already exited gracefully (a second, reattached client shut it down) when
	// the first client is killed; the first client's resources must be released all the same
	for _, proto := range []string{"netrpc", "grpc"} {
		for _, h := range [][]string{nil, {"callback"}, {"revcallback"}, {"callback", "revcallback"}} {
			ops := append([]string{"new", "start", "client", "dispense"}, h...)
			ops = append(ops, "reattach:0", "start", "client", "dispense", "kill:1", "waitexit:0", "kill:0")
			cells = append(cells, Cell{
				Name:     fmt.Sprintf("%s mux=false tls=none launch=cmd history=[%s] plugin shut down through a reattached client first", proto, strings.Join(h, ",")),
				Plugin:   PluginConf{CookieKey: cookieKey, CookieValue: cookieVal, Legacy: 1, LegacyProto: proto, GRPCServer: true, TLS: "none", ExitMarker: "auto"},
				Host:     HostConf{Allowed: []string{"netrpc", "grpc"}, TLS: "none", Launch: "cmd", Legacy: 1, SkipHostEnv: true},
				Ops:      ops,
				LeakWait: 7000,
			})
		}
	}
	results := runCells(base, cells)
	out := &enumResult{Exhaustive: true, Outcomes: map[string]int{}}
	for i, r := range results {
		c := cells[i]
		out.Evaluations++
		if len(c.Ops) > 5 {
			out.Distinct++
		}
		bad := func(class, f string, a ...any) {
			out.Violations = append(out.Violations, enumViolation{Case: c.Name, Class: class, Msg: fmt.Sprintf(f, a...) + " [" + c.Name + "]"})
		}
		if r.HelperErr != "" {
			bad("L", "%s", r.HelperErr)
			continue
		}
		if r.Panic != "" {
			bad("PANIC", "host panicked: %s", r.Panic)
			continue
		}
		if op, e := firstErr(r); e != "" {
			bad("S", "history failed at %s: %s", op, e)
			continue
		}
		if !r.ExitMarker {
			bad("L", "plugin did not exit gracefully (its deferred cleanup never ran)")
		}
		for _, o := range r.Ops {
			// the plugins of these cells exit within milliseconds of the request; a Kill that is still waiting many seconds
			// later is waiting for one of the client's own goroutines to notice
			if strings.HasPrefix(o.Op, "kill") && o.Ms > 8000 {
				bad("L", "%s returned only after %d ms although the plugin exits at once: goroutines of the client outlived the plugin by that long", o.Op, o.Ms)
			}
		}
		if r.PluginAlive {
			bad("L", "plugin process still alive after Kill")
		}
		if len(r.PluginFiles) > 0 {
			bad("L", "plugin-side socket files left behind: %d file(s) named plugin*", len(r.PluginFiles))
		}
		if len(r.HostFiles) > 0 {
			bad("L", "host-side files left behind in the temp dir: %v", trimNames(r.HostFiles))
		}
		for _, g := range r.Goroutines {
			bad("L", "go-plugin goroutine still running in the host 7 s after Kill: %s", g)
		}
		out.Outcomes[fmt.Sprintf("files=%d goroutines=%d", len(r.PluginFiles)+len(r.HostFiles), len(r.Goroutines))]++
		if len(out.Samples) < 3 && i%41 == 0 {
			out.Samples = append(out.Samples, map[string]any{"cell": c.Name, "ops": c.Ops, "plugin_files": r.PluginFiles, "host_files": r.HostFiles, "goroutines": r.Goroutines})
		}
	}
	emit(out)
}

func trimNames(n []string) []string {
	var out []string
	for _, s := range n {
		// random suffixes removed so that the same leak is reported once
		out = append(out, strings.TrimRight(s, "0123456789"))
	}
	return out
}
