package e3

import (
	"fmt"
	"os"
	"os/exec"
	"path/filepath"
	"strings"
	"testing"
)

// TestRacePass runs the free-running race bodies (race.test, built with
// -race) for several seeds and turns every race report that has a frame in a
// go-plugin package into a violation.
func TestRacePass(t *testing.T) {
	base := scratch(t)
	bin := filepath.Join(base, "race.test")
	seeds := 3
	if tier() == "thorough" {
		seeds = 10
	}
	bodies := []string{"TestRace_MuxBroker", "TestRace_GRPCBroker", "TestRace_Client", "TestRace_ClientDeadMux", "TestRace_MuxBrokerUnmatched"}
	if v := os.Getenv("VERIF_RACE_BODIES"); v != "" { // a check that wants only some of the bodies
		bodies = strings.Split(v, ",")
	}
	out := &enumResult{Exhaustive: false, Outcomes: map[string]int{}}
	out.Notes = append(out.Notes, "race detector pass: exhaustive over the listed operation groups, not over schedules")
	seen := map[string]bool{}
	s0 := 0
	fmt.Sscan(os.Getenv("VERIF_SEED"), &s0)
	for s := 0; s < seeds; s++ {
		for _, b := range bodies {
			logp := filepath.Join(base, fmt.Sprintf("racelog-%s-%d", b, s))
			cmd := exec.Command(bin, "-test.run", "^"+b+"$", "-test.timeout", "300s")
			cmd.Env = append(os.Environ(), "GORACE=halt_on_error=0 log_path="+logp, "VERIF_VPLUGIN="+filepath.Join(base, "vplugin"), fmt.Sprintf("VERIF_SEED=%d", s0*100+s))
			o, err := cmd.CombinedOutput()
			out.Evaluations++
			out.Distinct++
			res := "clean"
			files, _ := filepath.Glob(logp + ".*")
			var reports []string
			for _, f := range files {
				bts, _ := os.ReadFile(f)
				for _, blk := range strings.Split(string(bts), "==================") {
					if strings.Contains(blk, "WARNING: DATA RACE") {
						reports = append(reports, blk)
					}
				}
				os.Remove(f)
			}
			for _, blk := range reports {
				if !strings.Contains(blk, "github.com/hashicorp/go-plugin.") && !strings.Contains(blk, "go-plugin/internal/") {
					continue
				}
				var fr []string
				for _, l := range strings.Split(blk, "\n") {
					l = strings.TrimSpace(l)
					if strings.HasPrefix(l, "github.com/hashicorp/go-plugin") {
						fn := l
						if i := strings.Index(fn, "("); i > 0 && strings.HasSuffix(fn, ")") {
							// keep the receiver/method, drop the argument list
						}
						fn = strings.TrimPrefix(fn, "github.com/hashicorp/")
						if len(fr) < 4 {
							fr = append(fr, fn)
						}
					}
				}
				key := strings.Join(fr, " / ")
				res = "race"
				if !seen[key] {
					seen[key] = true
					out.Violations = append(out.Violations, enumViolation{Case: b, Class: "RACE", Msg: "data race inside go-plugin: " + key + " [" + b + "]", Input: blk})
				}
			}
			if err != nil && res == "clean" {
				tail := string(o)
				if len(tail) > 600 {
					tail = tail[len(tail)-600:]
				}
				if strings.Contains(string(o), "panic:") || strings.Contains(string(o), "fatal error:") {
					i := strings.Index(string(o), "panic:")
					if i < 0 {
						i = strings.Index(string(o), "fatal error:")
					}
					out.Violations = append(out.Violations, enumViolation{Case: b, Class: "PANIC", Msg: "race body crashed: " + strings.SplitN(string(o)[i:], "\n", 2)[0] + " [" + b + "]"})
					res = "panic"
				} else {
					out.Notes = append(out.Notes, fmt.Sprintf("%s seed %d exited with %v: %s", b, s, err, tail))
					res = "error"
				}
			}
			out.Outcomes[res]++
		}
	}
	out.Samples = []any{"TestRace_MuxBroker: 4x(50 NextId on both brokers, Dispense+call), 6 Accept/Dial pairs on distinct ids in both directions, Close racing with them",
		"TestRace_GRPCBroker: same over gRPC with and without multiplexing", "TestRace_Client: Start/Client+Dispense+call/Protocol/ReattachConfig/Exited/ID doubled, then NegotiatedVersion, then 2 Kills + accessors (+CleanupClients) against a real plugin process",
		"TestRace_ClientDeadMux: the plugin's socket refuses the first connection (gRPC with multiplexing agreed, gRPC without, net/rpc); 4 goroutines retry Client() 25 times each, use any protocol client handed out without an error, read accessors; then Client()+Kill twice"}
	emit(out)
}
