package e3

import (
	"context"
	"crypto/ecdsa"
	"crypto/elliptic"
	"crypto/rand"
	"crypto/tls"
	"crypto/x509"
	"crypto/x509/pkix"
	"math/big"
	"net"
	"net/rpc"
	"time"

	"github.com/hashicorp/yamux"
	"google.golang.org/grpc"
	"google.golang.org/grpc/codes"
	"google.golang.org/grpc/credentials"
	"google.golang.org/grpc/credentials/insecure"
	"google.golang.org/grpc/health/grpc_health_v1"
	"google.golang.org/grpc/status"
)

func selfSigned(cn, org string) tls.Certificate {
	key, _ := ecdsa.GenerateKey(elliptic.P256(), rand.Reader)
	tmpl := &x509.Certificate{SerialNumber: big.NewInt(99), Subject: pkix.Name{CommonName: cn, Organization: []string{org}}, DNSNames: []string{cn},
		NotBefore: time.Now().Add(-time.Hour), NotAfter: time.Now().Add(time.Hour), IsCA: true, BasicConstraintsValid: true,
		KeyUsage: x509.KeyUsageDigitalSignature | x509.KeyUsageCertSign, ExtKeyUsage: []x509.ExtKeyUsage{x509.ExtKeyUsageClientAuth, x509.ExtKeyUsageServerAuth}}
	der, _ := x509.CreateCertificate(rand.Reader, tmpl, tmpl, &key.PublicKey, key)
	return tls.Certificate{Certificate: [][]byte{der}, PrivateKey: key}
}

// sysTrusted is the cell's system-trusted certificate (HostConf.SysTrustCert), set by the host helper.
var sysTrusted *tls.Certificate

func intruderTLS(cred string) *tls.Config {
	switch cred {
	case "tls-nocert":
		return &tls.Config{InsecureSkipVerify: true}
	case "tls-selfsigned":
		return &tls.Config{InsecureSkipVerify: true, Certificates: []tls.Certificate{selfSigned("intruder", "Evil")}}
	case "tls-systrusted": // a certificate that the machine's trust store lists, unrelated to the pair's one-time certificates
		if sysTrusted == nil {
			return &tls.Config{InsecureSkipVerify: true}
		}
		return &tls.Config{InsecureSkipVerify: true, Certificates: []tls.Certificate{*sysTrusted}}
	case "tls-samename": // same subject / SAN as go-plugin's own certificates, another key
		return &tls.Config{InsecureSkipVerify: true, Certificates: []tls.Certificate{selfSigned("localhost", "HashiCorp")}}
	}
	return nil
}

// intrude reports whether a peer with the given credentials obtained an
// application-level answer from the unix socket at path.
func intrude(path, kind, cred string) bool {
	tc := intruderTLS(cred)
	switch kind {
	case "grpc":
		opts := []grpc.DialOption{grpc.WithContextDialer(func(ctx context.Context, _ string) (net.Conn, error) {
			return (&net.Dialer{}).DialContext(ctx, "unix", path)
		})}
		if tc == nil {
			opts = append(opts, grpc.WithTransportCredentials(insecure.NewCredentials()))
		} else {
			opts = append(opts, grpc.WithTransportCredentials(credentials.NewTLS(tc)))
		}
		cc, err := grpc.Dial("passthrough:///intruder", opts...)
		if err != nil {
			return false
		}
		defer cc.Close()
		ctx, cancel := context.WithTimeout(context.Background(), 1500*time.Millisecond)
		defer cancel()
		_, err = grpc_health_v1.NewHealthClient(cc).Check(ctx, &grpc_health_v1.HealthCheckRequest{Service: "plugin"})
		if err == nil {
			return true
		}
		switch status.Code(err) {
		case codes.Unimplemented, codes.NotFound, codes.InvalidArgument, codes.PermissionDenied, codes.FailedPrecondition:
			return true // the server processed the request
		}
		return false
	case "netrpc":
		conn, err := net.DialTimeout("unix", path, time.Second)
		if err != nil {
			return false
		}
		defer conn.Close()
		conn.SetDeadline(time.Now().Add(1500 * time.Millisecond))
		var c net.Conn = conn
		if tc != nil {
			c = tls.Client(conn, tc)
		}
		cfg := yamux.DefaultConfig()
		cfg.LogOutput = nilWriter{}
		cfg.EnableKeepAlive = false
		sess, err := yamux.Client(c, cfg)
		if err != nil {
			return false
		}
		defer sess.Close()
		st, err := sess.Open() // control stream
		if err != nil {
			return false
		}
		for i := 0; i < 2; i++ { // the stdout/stderr streams a real client opens next
			if _, err := sess.Open(); err != nil {
				return false
			}
		}
		done := make(chan error, 1)
		go func() {
			var e struct{}
			done <- rpc.NewClient(st).Call("Control.Ping", true, &e)
		}()
		select {
		case err := <-done:
			if err == nil {
				return true
			}
			_, isServer := err.(rpc.ServerError)
			return isServer
		case <-time.After(1500 * time.Millisecond):
			return false
		}
	}
	return false
}

type nilWriter struct{}

func (nilWriter) Write(p []byte) (int, error) { return len(p), nil }
