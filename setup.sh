#!/bin/bash
# setup_cmd: build the driver and the rewriter and warm the go1.26 build cache (offline).
set -e
export GOFLAGS=-mod=mod GOPROXY=off GOTOOLCHAIN=local
cd "$(dirname "$(readlink -f "$0")")"
mkdir -p bin evidence replays/out
go1.26 build -o bin/verif ./cmd/verif
(cd tools/rewrite && go1.26 build -o "$OLDPWD/bin/vrewrite" .)
W=$(mktemp -d)
trap 'rm -rf "$W"' EXIT
./build.sh "$W"
echo setup ok
