package main

import "time"

var q = "quick"
var th = "thorough"

func depths(quick []int, thorough []int) map[string][]int {
	return map[string][]int{q: quick, th: thorough}
}
func budget(quick, thorough time.Duration) map[string]time.Duration {
	return map[string]time.Duration{q: quick, th: thorough}
}

var checks = map[string]*check{
	"C06": {
		Title: "MuxBroker connects Dial(id) only to Accept(id)",
		Level: "model_checking",
		Rule: "every schedule / timer order / select choice of the real MuxBroker pair over yamux with at most d deviations from the canonical scheduler, " +
			"for every 1- and 2-ID pattern of (dial side, issue order, gap); an execution is non-trivial when at least one decision point offered >= 2 alternatives",
		Assumptions: []string{
			"interleavings inside yamux/net-rpc are not enumerated (they run to quiescence between go-plugin's synchronisation points)",
			"virtual connection models a reliable ordered byte stream with a 208 KiB buffer",
			"T oracle (both succeed inside the window) asserted only in executions without a TIME deviation",
		},
		Parts: []part{
			{Name: "routing", Kind: "explore", Scen: "mux_route", Depths: depths([]int{2}, []int{2, 3}), Budget: budget(3*time.Minute, 20*time.Minute)},
		},
	},
}
