package main

import "time"

var q = "quick"
var th = "thorough"

func depths(quick []int, thorough []int) map[string][]int {
	return map[string][]int{q: quick, th: thorough}
}
func inst(quick, thorough string) map[string]string { return map[string]string{q: quick, th: thorough} }
func budget(quick, thorough time.Duration) map[string]time.Duration {
	return map[string]time.Duration{q: quick, th: thorough}
}

var checks = map[string]*check{
	"C06": {
		Title: "MuxBroker connects Dial(id) only to Accept(id)",
		Level: "model_checking",
		Rule: "every schedule / timer order / select choice of the real MuxBroker pair over yamux with at most d deviations from the canonical scheduler, " +
			"for every 1- and 2-ID pattern of (dial side, issue order, gap); plus, on a full net/rpc client/server pair, 3 concurrent Dispense calls and an Accept/Dial pair in each direction concurrent with 2 Dispense calls (token routing, one server object per dispense); an execution is non-trivial when at least one decision point offered >= 2 alternatives",
		Assumptions: []string{
			"interleavings inside yamux/net-rpc are not enumerated (they run to quiescence between go-plugin's synchronisation points)",
			"virtual connection models a reliable ordered byte stream with a 208 KiB buffer",
			"T oracle (both succeed inside the window) asserted only in executions without a TIME deviation",
		},
		Parts: []part{
			// one real net/rpc plugin process serving two or three connections at once (reattached clients): every
			// Dispense reaches a server object of its own connection, whose calls and brokered callbacks work
			{Name: "several-connections", Kind: "enum", Bin: "e3.test", Test: "TestC06Proc"},
			{Name: "routing-1id", Kind: "explore", Scen: "mux_route", Inst: inst("single", "single"), Depths: depths([]int{3}, []int{3, 4, 5}), Budget: budget(2*time.Minute, 10*time.Minute)},
			{Name: "routing-2id", Kind: "explore", Scen: "mux_route", Inst: inst("pairs", "pairs-all"), Depths: depths([]int{2}, []int{2, 3}), Budget: budget(3*time.Minute, 20*time.Minute)},
			{Name: "concurrent-dispense", Kind: "explore", Scen: "conc_ops", Inst: inst("c06", "c06"), Depths: depths([]int{2}, []int{2, 3}), Budget: budget(2*time.Minute, 10*time.Minute)},
			// one end is a hand-written peer (another implementation of the wire protocol) that writes ids and acknowledgements
			// in two pieces, 10 ms apart
			{Name: "hand-written-peer", Kind: "explore", Scen: "mux_route", Inst: inst("rawpeer", "rawpeer"), Depths: depths([]int{1}, []int{1, 2}), Budget: budget(2*time.Minute, 10*time.Minute)},
			// go-plugin's own RPCClient as host, 320 dials at once to a hand-written plugin on a stock yamux session that is slow to accept
			// dispenses on a connection whose plugin-side id counter is about to wrap (or to cross a byte boundary)
			// the MuxBroker bodies of the race pass (free-running under the race detector): unsynchronised access to the pending
			// table is invisible to a cooperative scheduler
			{Name: "race-pass", Kind: "enum", Bin: "e3.test", Test: "TestRacePass", Env: []string{"VERIF_RACE_BODIES=TestRace_MuxBroker,TestRace_MuxBrokerUnmatched"}},
			{Name: "dispense-id-wrap", Kind: "explore", Scen: "dispense_ids", Depths: depths([]int{0, 1}, []int{0, 1, 2}), Budget: budget(2*time.Minute, 10*time.Minute)},
			{Name: "stock-yamux-peer", Kind: "explore", Scen: "mux_route", Inst: inst("backlog", "backlog"), Depths: depths([]int{0}, []int{0}), Budget: budget(3*time.Minute, 5*time.Minute)},
			// two ids at once with fine-grained preemption (every function entry of go-plugin is a scheduling point)
			{Name: "fine-grained", Kind: "explore", Scen: "mux_route", Inst: inst("fine", "fine"), Depths: depths([]int{2}, []int{2, 3}), Budget: budget(3*time.Minute, 20*time.Minute)},
			// explicit ids: the same number outstanding in both directions at once, ids 0 / 2^31 / 2^32-1
			{Name: "id-values", Kind: "explore", Scen: "mux_route", Inst: inst("ids", "ids"), Depths: depths([]int{2}, []int{2, 3}), Budget: budget(2*time.Minute, 10*time.Minute)},
			// a dialled connection used again 6 s later with 400 KiB in each direction (beyond yamux's window)
			{Name: "late-bulk", Kind: "explore", Scen: "mux_route", Inst: inst("late", "late"), Depths: depths([]int{2}, []int{2, 3}), Budget: budget(2*time.Minute, 10*time.Minute)},
			// 300 ids outstanding at once (default schedule)
			{Name: "many-ids", Kind: "explore", Scen: "mux_route", Inst: inst("many", "many"), Depths: depths([]int{0}, []int{0}), Budget: budget(3*time.Minute, 5*time.Minute)},
			{Name: "conformance", Kind: "conform", Scen: "mux_route"},
		},
	},
	"C07": {
		Title: "GRPCBroker connects Dial(id) only to the server accepted on that id",
		Level: "model_checking",
		Rule: "every schedule / timer order / select choice with at most d deviations of the real GRPCBroker pair over real gRPC (virtual sockets), " +
			"for every 1- and 2-ID pattern of (dial side, issue order, gap); non-trivial = at least one decision point with >= 2 alternatives",
		Assumptions: []string{
			"interleavings inside gRPC are not enumerated (it runs to quiescence between go-plugin's synchronisation points)",
			"virtual connection models a reliable ordered byte stream; connect succeeds iff the listener exists",
			"T oracle (first call succeeds inside the window) asserted only in executions without a TIME deviation",
		},
		Parts: []part{
			// a dial that came too early and timed out, repeated after the other end accepted
			{Name: "early-dial-retried", Kind: "explore", Scen: "grpc_route", Inst: inst("retry", "retry"), Depths: depths([]int{0, 1}, []int{0, 1, 2}), Budget: budget(2*time.Minute, 10*time.Minute)},
			{Name: "routing-1id", Kind: "explore", Scen: "grpc_route", Inst: inst("single", "single"), Depths: depths([]int{2}, []int{2, 3}), Budget: budget(2*time.Minute, 10*time.Minute)},
			{Name: "routing-2id", Kind: "explore", Scen: "grpc_route", Inst: inst("pairs", "pairs-all"), Depths: depths([]int{1}, []int{1, 2}), Budget: budget(3*time.Minute, 25*time.Minute)},
			// the real host against a hand-written gRPC plugin that announces four brokered servers and ends the broker stream at once
			{Name: "hand-written-peer", Kind: "explore", Scen: "raw_grpc_peer", Inst: inst("broker-eos", "broker-eos"), Depths: depths([]int{2}, []int{2, 3}), Budget: budget(2*time.Minute, 10*time.Minute)},
			// ... or that ends the broker stream after IT has dialled a server the host accepted, and keeps using that connection
			{Name: "hand-written-peer-ends-stream", Kind: "explore", Scen: "raw_grpc_peer", Inst: inst("broker-late-eos", "broker-late-eos"), Depths: depths([]int{1}, []int{1, 2}), Budget: budget(2*time.Minute, 10*time.Minute)},
			// ... and whose announcements carry an empty knock sub-message (a legal wire encoding of the same announcement)
			{Name: "hand-written-peer-encoding", Kind: "explore", Scen: "raw_grpc_peer", Inst: inst("broker-emptyknock", "broker-emptyknock"), Depths: depths([]int{1}, []int{1, 2}), Budget: budget(2*time.Minute, 10*time.Minute)},
			// fine-grained preemption (every function entry of go-plugin, and grpc.Dial, is a scheduling point): two ids
			// dialled at once with one shared option slice
			{Name: "fine-grained", Kind: "explore", Scen: "grpc_route", Inst: inst("fine", "fine"), Depths: depths([]int{2}, []int{2, 3}), Budget: budget(4*time.Minute, 30*time.Minute)},
			// explicit ids: the same number outstanding in both directions at once, ids 0 / 2^31 / 2^32-1
			{Name: "id-values", Kind: "explore", Scen: "grpc_route", Inst: inst("ids", "ids"), Depths: depths([]int{1}, []int{1, 2}), Budget: budget(2*time.Minute, 10*time.Minute)},
			{Name: "tls-and-address-translation", Kind: "explore", Scen: "grpc_route", Inst: inst("variants", "variants-thorough"), Depths: depths([]int{1}, []int{1, 2}), Budget: budget(3*time.Minute, 15*time.Minute)},
			// real processes behind a container-like custom runner that translates (and validates) socket addresses
			{Name: "real-runner", Kind: "enum", Bin: "e3.test", Test: "TestC07Proc"},
			{Name: "conformance", Kind: "conform", Scen: "grpc_route"},
		},
	},
	"C09": {
		Title: "Brokers stay live: unmatched, duplicate or late peers cannot wedge them",
		Level: "model_checking",
		Rule: "every history of <= 2 (quick) / <= 3 (thorough) events over {dial, accept} x {host, plugin} on one id with gaps {0, 2 s, 5 s (the expiry instant)} on MuxBroker and GRPCBroker " +
			"(single events on the multiplexed broker), each followed by a matched pair on a fresh id and Close, under every schedule / timer order / select choice with <= d deviations; " +
			"non-trivial = at least one decision point with >= 2 alternatives",
		Assumptions: []string{
			"interleavings inside yamux / gRPC are not enumerated",
			"bounded-latency (T) verdicts only in executions without a TIME deviation; deadlock / leak (L) verdicts in all",
			"multiplexed broker: histories respect the documented one-at-a-time rule",
		},
		Parts: []part{
			{Name: "histories", Kind: "explore", Scen: "broker_hist", Inst: inst("quick", "thorough3"), Depths: depths([]int{2}, []int{2, 3}), Budget: budget(6*time.Minute, 25*time.Minute)},
			// 1300 repeated dials to one pending id (default schedule), then an unmatched accept, an unmatched dial and a fresh matched pair
			// gRPC broker: an acceptor that announced its listener and gave it up at once, dialled with the caller's own grpc.WithBlock()
			{Name: "blocking-dial", Kind: "explore", Scen: "broker_hist", Inst: inst("blockdial", "blockdial"), Depths: depths([]int{0, 1}, []int{0, 1, 2}), Budget: budget(2*time.Minute, 10*time.Minute)},
			{Name: "mass-duplicates", Kind: "explore", Scen: "broker_hist", Inst: inst("mass", "mass"), Depths: depths([]int{0}, []int{0}), Budget: budget(3*time.Minute, 5*time.Minute)},
			{Name: "conformance", Kind: "conform", Scen: "broker_hist"},
		},
	},
	"C08": {
		Title: "Multiplexed gRPC broker routes each announced stream to its ID's listener",
		Level: "model_checking",
		Rule: "every sequence of 1 and 2 (thorough: 3) sequentially established brokered connections over (accept side, accept-first / dial-first, gap 0 / 1 s / 4.9 s) on the real multiplexed GRPCBroker " +
			"(real yamux muxers, real gRPC), each followed by pings on the main and all earlier connections, and (with-traffic parts) with such pings running concurrently with the establishment, under every schedule / timer order / select choice with <= d deviations; " +
			"non-trivial = at least one decision point with >= 2 alternatives",
		Assumptions: []string{
			"establishments are strictly sequential, as the API documents",
			"interleavings inside yamux / gRPC are not enumerated",
			"first-call-succeeds (T) only in executions without a TIME deviation; routing (S) and main/earlier connections alive (L) in all",
		},
		Parts: []part{
			{Name: "single", Kind: "explore", Scen: "grpcmux_seq", Inst: inst("single", "single"), Depths: depths([]int{2}, []int{2, 3}), Budget: budget(2*time.Minute, 10*time.Minute)},
			{Name: "pairs", Kind: "explore", Scen: "grpcmux_seq", Inst: inst("pairs", "pairs"), Depths: depths([]int{1}, []int{1, 2}), Budget: budget(3*time.Minute, 20*time.Minute)},
			{Name: "triples", Kind: "explore", Scen: "grpcmux_seq", Inst: inst("none", "triples"), Depths: depths([]int{0}, []int{1}), Budget: budget(time.Minute, 10*time.Minute)},
			// establishments interleaved with traffic on the main and on earlier brokered connections
			{Name: "with-traffic-single", Kind: "explore", Scen: "grpcmux_seq", Inst: inst("traffic-single", "traffic-single"), Depths: depths([]int{2}, []int{2, 3}), Budget: budget(2*time.Minute, 10*time.Minute)},
			{Name: "with-traffic-pairs", Kind: "explore", Scen: "grpcmux_seq", Inst: inst("traffic-pairs", "traffic-pairs"), Depths: depths([]int{1}, []int{1, 2}), Budget: budget(3*time.Minute, 15*time.Minute)},
			// each established id is dialled a second time while its listener is serving
			// brokered servers that recycle their connections (MaxConnectionAge 6 s): the same ClientConn is used again 9 s and 18 s later
			{Name: "recycled-transport", Kind: "explore", Scen: "grpcmux_seq", Inst: inst("recycled", "recycled"), Depths: depths([]int{0}, []int{0, 1}), Budget: budget(2*time.Minute, 10*time.Minute)},
			// an accepting side that begins to serve 2.5 s / 7 s after Accept (slow service set-up before Serve)
			// the dialler passes connect parameters of its own (2 s timeout and back-off), the acceptor arrives during the back-off
			// the main server recycles its connections (MaxConnectionAge set by the plugin author): the control connection is re-dialled by gRPC itself
			{Name: "recycled-main", Kind: "explore", Scen: "grpcmux_seq", Inst: inst("recycled-main", "recycled-main"), Depths: depths([]int{0, 1}, []int{0, 1, 2}), Budget: budget(2*time.Minute, 10*time.Minute)},
			{Name: "short-connect", Kind: "explore", Scen: "grpcmux_seq", Inst: inst("short-connect", "short-connect"), Depths: depths([]int{0, 1}, []int{0, 1, 2}), Budget: budget(2*time.Minute, 10*time.Minute)},
			{Name: "slow-factory", Kind: "explore", Scen: "grpcmux_seq", Inst: inst("slow-factory", "slow-factory"), Depths: depths([]int{1}, []int{1, 2}), Budget: budget(2*time.Minute, 10*time.Minute)},
			// caller-chosen ids at the edges of uint32 (0, 1, 2^31, 2^32-1)
			{Name: "id-values", Kind: "explore", Scen: "grpcmux_seq", Inst: inst("ids", "ids"), Depths: depths([]int{1}, []int{1, 2}), Budget: budget(2*time.Minute, 10*time.Minute)},
			// an id accepted again after its first listener was closed (server stopped, AcceptAndServe returned)
			{Name: "id-reuse", Kind: "explore", Scen: "grpcmux_seq", Inst: inst("reuse", "reuse"), Depths: depths([]int{1}, []int{1, 2}), Budget: budget(2*time.Minute, 10*time.Minute)},
			{Name: "redial", Kind: "explore", Scen: "grpcmux_seq", Inst: inst("redial", "redial"), Depths: depths([]int{1}, []int{1, 2}), Budget: budget(2*time.Minute, 10*time.Minute)},
			{Name: "conformance", Kind: "conform", Scen: "grpcmux_seq"},
		},
	},
	"C01": {
		Title: "Handshake line accepted only when well-formed; never crashes the host",
		Level: "exploration",
		Rule: "every handshake line with at most k (2 quick / 3 thorough) of its 8 coordinates (core version, app version, network, address, protocol, certificate, mux flag, framing shape) off-canonical, around three canonical lines, " +
			"crossed with 72 client configurations (allowed protocols x plugin sets x TLS none/static/AutoMTLS x mux), each run through the real Client.Start with a scripted runner under virtual time and compared with a reference grammar; " +
			"non-trivial = differs from the canonical line",
		Assumptions: []string{
			"reference grammar is one-directional (Start may succeed only if the reference accepts), as the property states",
			"host names that need DNS are outside the alphabet (no resolver in the sandbox)",
			"the plugin process is a scripted runner.Runner (RunnerFunc); the Cmd launch path is covered by the E3 parts of C05/C14",
		},
		Parts: []part{
			{Name: "lines", Kind: "explore", Scen: "start_line", BatchN: 400, Depths: depths([]int{0}, []int{0}), Budget: budget(5*time.Minute, 40*time.Minute)},
			// reported address / protocol / version against real processes behind the default command runner
			// (whose address translation the scripted runner of the enumeration does not exercise) and a custom runner
			{Name: "real-processes", Kind: "enum", Bin: "e3.test", Test: "TestC01Proc"},
		},
	},
	"C05": {
		Title: "A failed start never leaves a plugin process behind",
		Level: "fault_enumeration",
		Rule: "every failing start cause of the C01 line/shape alphabet (each field invalid in turn, silence until timeout, partial line, exit before output, EOF without newline, oversize line) x 72 client configurations through the real Client.Start with a scripted runner: " +
			"on error the runner was killed by the time Start returned, a later Kill returns within 3 s virtual and removes the plugin-dir* directory; non-trivial = the case fails to start",
		Assumptions: []string{
			"explorer part: custom-runner launch (RunnerFunc) with a scripted process; real-process part: 13 failure causes (bad fields, multi-line output with a bad first line, silence, partial line, exit before output, stdout closed while alive, multiplexing not advertised) x {command, custom runner}: 1.5 s after Start returned its error the pid is gone, after Kill no temporary file remains",
		},
		Parts: []part{
			{Name: "failing-starts", Kind: "explore", Scen: "start_line", Inst: inst("fail-quick", "fail-thorough"), BatchN: 400, Depths: depths([]int{0}, []int{0}), Budget: budget(5*time.Minute, 40*time.Minute)},
			{Name: "real-processes", Kind: "enum", Bin: "e3.test", Test: "TestC05Proc"},
		},
	},
	"C02": {
		Title: "Version negotiation settles both sides on the highest common version",
		Level: "exploration",
		Rule: "every pair (host version configuration, plugin version configuration) over legacy field in {none} + universe and every subset of the universe as versioned sets (universe {1,2,3} quick, {0,1,2,3} thorough), " +
			"x GRPCServer nil/set x per-version wire protocol assignment x version-list variant (as sent, missing, with junk entries, duplicated): the real Client.Start (host half) joined to the real protocolVersion (plugin half) by the handshake line; " +
			"pairs with >= 2 common versions are repeated so that map iteration order varies; non-trivial = either side has >= 2 versions",
		Assumptions: []string{
			"explorer part: the harness prints the handshake line from protocolVersion's result exactly as Serve does; that step is bound to reality by the real-serve part: every pair of version configurations over {1,2} (thorough {1,2,3}) with a real plugin.Serve child and a real Client, end to end",
			"map iteration order inside go-plugin cannot be controlled; multi-candidate pairs are run 3 (quick) / 6 (thorough) times",
		},
		Parts: []part{
			{Name: "pairs", Kind: "explore", Scen: "version_pair", BatchN: 400, Depths: depths([]int{0}, []int{0}), Budget: budget(5*time.Minute, 30*time.Minute)},
			{Name: "real-serve", Kind: "enum", Bin: "e3.test", Test: "TestC02Proc"},
		},
	},
	"C19": {
		Title: "A Client launches its plugin at most once and its accessors are idempotent",
		Level: "model_checking",
		Rule: "sequential: every call sequence of length <= 3 (quick) / <= 5 (thorough) over {Start, Client, Protocol, ReattachConfig, ID, Exited, Kill} x plugin behaviour {healthy net/rpc, healthy gRPC, bad handshake, silent until timeout, RunnerFunc error} against a reference (launch count, identical address, identical client, no launch after Kill); " +
			"concurrent: every unordered pair (thorough: triples and 2x2) of operations from {Start, Client, Kill, Protocol, ReattachConfig} on one Client under every schedule with <= d deviations; non-trivial = >= 2 calls / >= 2 alternatives at some decision point",
		Assumptions: []string{
			"custom-runner launch (RunnerFunc) — with Cmd a second launch is refused by os/exec itself",
			"data races of retried Start are the race pass's subject (C20), not this check's",
		},
		Parts: []part{
			{Name: "sequences", Kind: "explore", Scen: "once_seq", BatchN: 100, Depths: depths([]int{0}, []int{0}), Budget: budget(3*time.Minute, 30*time.Minute)},
			// concurrent calls with fine-grained preemption (every function entry of go-plugin is a scheduling point)
			{Name: "concurrent-fine-grained", Kind: "explore", Scen: "once_conc", Inst: inst("fine", "fine"), Depths: depths([]int{2}, []int{2, 3}), Budget: budget(3*time.Minute, 20*time.Minute)},
			{Name: "concurrent", Kind: "explore", Scen: "once_conc", Depths: depths([]int{2}, []int{2, 3}), Budget: budget(3*time.Minute, 20*time.Minute)},
			{Name: "conformance", Kind: "conform", Scen: "once_seq"},
		},
	},
	"C10": {
		Title: "Plugin output never crashes or stalls the host; stderr is forwarded faithfully",
		Level: "exploration",
		Rule: "every stderr sequence of <= 2 (quick) / <= 3 (thorough) lines over a 35-entry alphabet (text, [LEVEL] prefixes, panic traces, hclog JSON at each level, JSON with wrong field types, non-object JSON, duplicate keys, lines of length B-3..2B+3, CRLF, empty) x buffer sizes {16, 64, 65536} x final newline present/absent, " +
			"and every stdout sequence of <= 2 (thorough 3) lines with lengths {0, 1, 65535, 65536, 65537, 200000} after the handshake, through the real Client with a scripted runner whose stdio are 64 KiB OS-pipe models; compared with a reference line splitter / level mapper; non-trivial = more than the single canonical text line",
		Assumptions: []string{
			"reference leaves the record shape undefined for JSON objects whose @message/@level/@timestamp is not a string or whose timestamp does not parse (only: host survives, bytes forwarded, one record)",
			"for lines that do not fit the buffer only byte fidelity and order are required",
			"a host panic kills the worker process; the driver attributes it to the journalled case and confirms it in a fresh worker",
		},
		Parts: []part{
			{Name: "output", Kind: "explore", Scen: "plugin_output", BatchN: 100, Depths: depths([]int{0}, []int{0}), Budget: budget(3*time.Minute, 30*time.Minute)},
			// the real command runner's pipes: a burst of stderr lines still unread (slow Stderr writer) when the plugin is force-killed
			{Name: "real-pipes", Kind: "enum", Bin: "e3.test", Test: "TestC10Proc"},
		},
	},
	"C04": {
		Title: "Kill always ends the plugin process in bounded time, gracefully if possible",
		Level: "model_checking",
		Rule: "plugin shutdown behaviour {exits at once, after 1 s, after 1.9 s, ignores the request, frozen (SIGSTOP model), already crashed, never completed the handshake, busy in a call, busy and ignoring} x protocol {net/rpc, gRPC, gRPC+mux} x call pattern {Kill, Kill;Kill, 2 and 3 concurrent Kills, CleanupClients over 3 managed clients in mixed states}, " +
			"the real Client/RPCClient/GRPCClient against a real RPCServer/GRPCServer in a scripted process, under every schedule / timer order / select choice with <= d deviations; non-trivial = >= 2 alternatives at some decision point",
		Assumptions: []string{
			"explorer parts: process = scripted runner in its own failure domain (exit closes its descriptors, freeze stops its goroutines and its reads); real-process part: 32 cells {exits at once, after 1 s, ignores the request for 60 s, SIGSTOP, SIGKILLed before Kill, silent until the start timeout} x {net/rpc, gRPC} x {command, custom runner, reattach}: pid gone and reaped, deferred-cleanup marker, Kill within 30 s (60 s frozen)",
			"bounded-latency and graceful-clause verdicts only without TIME deviation; 'returns', 'process gone', 'Exited()' and no-panic verdicts in every execution",
			"frozen plugin: bound 45 s (yamux keep-alive 30 s + 10 s, or the 2 s shutdown deadline + 2 s grace)",
		},
		Parts: []part{
			// the plugin prints something and the application's SyncStdout writer cannot take it until Kill has returned
			// a hand-written gRPC plugin whose Shutdown handler takes 1.5 s to acknowledge and whose process exits 1 s after that
			{Name: "slow-acknowledgement", Kind: "explore", Scen: "raw_grpc_peer", Inst: inst("slow-ack", "slow-ack"), Depths: depths([]int{0, 1}, []int{0, 1, 2}), Budget: budget(2*time.Minute, 10*time.Minute)},
			{Name: "blocked-sync-writer", Kind: "explore", Scen: "kill_plugin", Inst: inst("sink", "sink"), Depths: depths([]int{0, 1}, []int{0, 1, 2}), Budget: budget(3*time.Minute, 15*time.Minute)},
			{Name: "sequential", Kind: "explore", Scen: "kill_plugin", Inst: inst("seq", "seq"), Depths: depths([]int{2}, []int{2, 3}), Budget: budget(3*time.Minute, 20*time.Minute)},
			{Name: "concurrent", Kind: "explore", Scen: "kill_plugin", Inst: inst("conc", "conc-thorough"), Depths: depths([]int{2}, []int{2, 3}), Budget: budget(3*time.Minute, 20*time.Minute)},
			{Name: "real-processes", Kind: "enum", Bin: "e3.test", Test: "TestC04Proc"},
			{Name: "conformance", Kind: "conform", Scen: "kill_plugin"},
		},
	},
	"C03": {
		Title: "Plugin failure at any point becomes a host error, never a crash or hang",
		Level: "fault_enumeration",
		Rule: "a full host session (Start, Client, Dispense, unary call, on gRPC a bidirectional stream with two exchanges, a second goroutine holding a long call, brokered exchange host->plugin and plugin->host, Ping, Kill; the plugin writes 3000 bytes to its stdout that are streamed to SyncStdout meanwhile) on net/rpc, gRPC and gRPC+mux against a scripted plugin process; " +
			"the fault 'plugin process dies now' is offered at every decision point of every explored schedule (quick: crash point x canonical schedule; thorough: plus one more scheduling / timer / select deviation); non-trivial = executions in which the crash was injected",
		Assumptions: []string{
			"process death = the failure domain is marked dead, its sockets and stdio pipes are closed as the kernel does, its goroutines never run again",
			"every quiescent state of the session is a crash point (a superset of the eight named points: the handshake line is written in two pieces, the listener exists before the line, brokered ids are negotiated in separate steps)",
			"bounded-latency verdicts (6 s; 14 s for a brokered exchange) only without TIME deviation",
		},
		Parts: []part{
			{Name: "crash-points", Kind: "explore", Scen: "crash_plugin", Depths: depths([]int{2}, []int{2, 3}), Budget: budget(8*time.Minute, 30*time.Minute)},
			// the plugin dies without the kernel announcing it on the connections (descriptors inherited by a surviving child); net/rpc
			{Name: "silent-death", Kind: "explore", Scen: "crash_plugin", Inst: inst("silent", "silent"), Depths: depths([]int{1}, []int{1, 2}), Budget: budget(3*time.Minute, 10*time.Minute)},
			// a real plugin process killed from outside after 0.2 .. 26 s of uptime, seen by the launching client and by a
			// client reattached to the same process (cmdrunner's pid polling): detection time, calls, Ping, Kill
			// a stopped plugin, the host announcing brokered listeners until one announcement waits inside the broker's control
			// stream (no flow-control window left), then the process dies
			// crash point "before the handshake is complete": the process prints part of a line, a rejected or accepted line,
			// or a line and two more lines of text, and exits by itself
			{Name: "dies-before-handshake", Kind: "explore", Scen: "start_line", Inst: inst("dies", "dies-thorough"), BatchN: 200, Depths: depths([]int{0}, []int{0}), Budget: budget(3*time.Minute, 15*time.Minute)},
			{Name: "wedged-then-dead", Kind: "explore", Scen: "wedged_plugin", Depths: depths([]int{0, 1}, []int{0, 1, 2}), Budget: budget(3*time.Minute, 15*time.Minute)},
			{Name: "real-processes", Kind: "enum", Bin: "e3.test", Test: "TestC03Proc"},
			{Name: "conformance", Kind: "conform", Scen: "crash_plugin"},
		},
	},
	"C11": {
		Title: "Synced stdout/stderr arrive byte-exact, in order, on the right stream",
		Level: "model_checking",
		Rule: "enumeration: per stream every sequence of 1 (quick: plus 9 chosen 2-3 write shapes; thorough: every sequence of <= 2) writes with sizes {0, 1, 1023, 1024, 1025, 4095, 4096, 4097, 10000, 70000} of position-dependent binary patterns tagged per stream, crossed between the two streams, x {net/rpc, gRPC, gRPC+mux} x {data written before / after the host attaches}, with one RPC in flight; " +
			"schedules: two 3-write shapes per protocol/attach point under every schedule / select choice / timer order with <= d deviations; non-trivial = at least one byte written",
		Assumptions: []string{
			"the plugin's stdout/stderr are 64 KiB pipe models feeding the real RPCServer / GRPCServer (what Serve wires up); Serve's os.Stdout swap itself is an E3 concern",
			"byte-fidelity verdict in every execution; 'all bytes arrived within 10 s' only without TIME deviation",
		},
		Parts: []part{
			{Name: "sizes", Kind: "explore", Scen: "stdio_sync", BatchN: 60, Depths: depths([]int{0}, []int{0}), Budget: budget(3*time.Minute, 30*time.Minute)},
			{Name: "schedules", Kind: "explore", Scen: "stdio_sync", Inst: inst("sched", "sched"), Depths: depths([]int{2}, []int{2, 3}), Budget: budget(3*time.Minute, 20*time.Minute)},
			// the real plugin.Serve (os.Stdout / os.Stderr swap, pipes, copy loops) in a real child whose garbage collector
			// has run, against the real Client: byte-exact comparison per stream
			// a hand-written net/rpc host (its own yamux) that half-closes its unused sending side of the two stdio streams and keeps reading
			{Name: "hand-written-host", Kind: "explore", Scen: "raw_netrpc_host", Depths: depths([]int{1}, []int{1, 2}), Budget: budget(2*time.Minute, 10*time.Minute)},
			// the real host against a hand-written gRPC plugin that forwards its output in chunks of any size (up to 70000 bytes)
			{Name: "hand-written-peer", Kind: "explore", Scen: "raw_grpc_peer", Inst: inst("stdio-big", "stdio-big"), Depths: depths([]int{1}, []int{1, 2}), Budget: budget(2*time.Minute, 10*time.Minute)},
			{Name: "real-serve", Kind: "enum", Bin: "e3.test", Test: "TestC11Proc"},
			{Name: "conformance", Kind: "conform", Scen: "stdio_sync"},
		},
	},
	"C13": {
		Title: "SecureConfig runs the binary only if its checksum matches",
		Level: "exploration",
		Rule: "file contents {minimal script, +1 byte, +1 KiB (quick: these), +100 KiB} x hash {sha256, sha1, md5, sha512} x checksum {exact; single-bit flips (quick: all bits of the first two bytes and the extreme bits of every byte; thorough: every bit); every proper prefix; exact plus 1 and 2 trailing bytes; empty; nil; all zeros; digest of another file; nil hash function} " +
			"through the real Client.Start with a real executable that appends to a launch marker; non-trivial = any non-matching checksum",
		Assumptions: []string{"real command launch (SecureConfig is meaningless with RunnerFunc); launch observed through a marker file written by the executable"},
		Parts:       []part{{Name: "checksums", Kind: "enum", Bin: "e3.test", Test: "TestC13"}},
	},
	"C14": {
		Title: "Host and plugin configurations interoperate exactly when compatible",
		Level: "exploration",
		Rule: "complete enumeration of the matrix plugin {net/rpc, gRPC} x plugin security {none, TLSProvider} x host allowed list {nil, [netrpc], [grpc], both} x host security {none, static TLS, AutoMTLS} x host multiplexing {off, on} x launch {command, custom runner}, plus multiplexing requested from plugins that do not advertise it, option conflicts (Cmd+Reattach, SecureConfig+Reattach, mux+Reattach), unknown plugin name and reattach on both protocols: " +
			"each cell is a real plugin.Serve child (vplugin) paired with a real plugin.Client in a fresh host process, compared with an expected-outcome table (works end to end incl. brokered callback, 5 MB response, ping, synced stdio / error at start with the dedicated text and the child gone / error on first use, never silent success); non-trivial = any cell that is not the all-default one",
		Assumptions: []string{
			"no schedule control over real processes: verdicts do not depend on timing; a cell exceeding 150 s counts as a hang",
			"static TLS cells give both sides a configuration usable in both directions (certificate + roots), as a user of brokered gRPC connections must",
		},
		Parts: []part{
			{Name: "matrix", Kind: "enum", Bin: "e3.test", Test: "TestC14"},
			// under the virtual clock: a working pair is left completely idle for 2.5 minutes (thorough: up to 12) and then used again
			// ... and left running for 200 (thorough: 400) virtual days, with and without AutoMTLS, then used again
			{Name: "uptime", Kind: "explore", Scen: "uptime_session", Inst: inst("quick", "thorough"), Depths: depths([]int{0}, []int{0}), Budget: budget(2*time.Minute, 5*time.Minute)},
			{Name: "idle-session", Kind: "explore", Scen: "idle_session", Inst: inst("quick", "thorough"), Depths: depths([]int{0}, []int{0, 1}), Budget: budget(2*time.Minute, 10*time.Minute)},
		},
	},
	"C16": {
		Title: "Plugin serves only with the right cookie; announces one well-formed line",
		Level: "exploration",
		Rule: "complete product cookie variable {unset, empty, exact, prefix, suffix, trailing blank, case-changed, other} x configured key/value {both, key empty, value empty} x {net/rpc, gRPC} x {no TLS, TLSProvider, PLUGIN_CLIENT_CERT set} x {legacy, versioned {1,2}} x PLUGIN_MULTIPLEX_GRPC {unset, empty, true, false, 1, junk} = 1728 real plugin.Serve processes, each with a fresh socket directory; " +
			"non-trivial = anything but the exact-cookie, no-TLS, mux-unset case",
		Assumptions: []string{"the ordering listener -> line -> stdout swap is program order in one goroutine; what is exhaustive is the environment x configuration product", "'nothing else on stdout' is observed for 150 ms after the line"},
		Parts:       []part{{Name: "cookie-and-line", Kind: "enum", Bin: "e3.test", Test: "TestC16"}},
	},
	"C18": {
		Title: "Graceful shutdown leaves no sockets, temp directories or goroutines behind",
		Level: "exploration",
		Rule: "every history of <= 2 (thorough <= 3) events over {dispense, brokered connection plugin->host, brokered connection host->plugin, stdio burst} after connect, followed by Kill with a cooperative plugin, x {net/rpc, gRPC, gRPC+mux} x TLS {none, AutoMTLS} x launch {command, custom runner}; real plugin.Serve child and real Client in a fresh host process with private socket/temp directories; " +
			"afterwards both directories are listed, the plugin's deferred-cleanup marker is checked and the host's goroutines are dumped 7 s after Kill; non-trivial = at least one event",
		Assumptions: []string{"real-process part: no schedule control; schedule-dependent leaks are the subject of the explorer part (scripted plugin process, virtual sockets whose files are marker files), under every schedule with <= 1 (thorough 2) deviations", "goroutines are sampled once, 7 s after Kill (after the 5 s broker timers)"},
		Parts: []part{
			{Name: "leaks", Kind: "enum", Bin: "e3.test", Test: "TestC18"},
			// a hand-written gRPC plugin whose stdio stream ends with an error status (Internal, Unknown, ResourceExhausted)
			{Name: "hand-written-plugin", Kind: "explore", Scen: "raw_grpc_peer", Inst: inst("stdio-status", "stdio-status"), Depths: depths([]int{0, 1}, []int{0, 1, 2}), Budget: budget(2*time.Minute, 10*time.Minute)},
			// schedule-dependent leaks: sessions used from one or two goroutines (racing first Client() calls,
			// concurrent dispenses, one brokered connection in either direction) then a graceful Kill, under
			// every schedule with <= d deviations; goroutines, listeners, socket files and the runner directory
			{Name: "schedules", Kind: "explore", Scen: "kill_leak", Depths: depths([]int{1}, []int{1, 2}), Budget: budget(3*time.Minute, 20*time.Minute)},
			{Name: "conformance", Kind: "conform", Scen: "kill_leak"},
		},
	},
	"C17": {
		Title: "Plugin launch environment and stdin are determined by the client config",
		Level: "exploration",
		Rule: "host half: client configurations {3 version layouts} x AutoMTLS x multiplexing x SkipHostEnv x socket group {none, own gid} x port range {default, custom} x every subset of size <= 2 of 8 ambient host-environment items (PLUGIN_CLIENT_CERT, PLUGIN_MULTIPLEX_GRPC, PLUGIN_PROTOCOL_VERSIONS, PLUGIN_MIN/MAX_PORT, PLUGIN_UNIX_SOCKET_DIR, PLUGIN_UNIX_SOCKET_GROUP, the cookie key with a stale value, an unrelated marker): the environment and stdin a RunnerFunc is handed, judged on the effective environment (last assignment wins); " +
			"plugin half: a real plugin.Serve child launched (command) from a host whose own environment carries each ambient item, x protocol x AutoMTLS x multiplexing, must work end to end; each cell in a fresh host process; non-trivial = a non-empty ambient set",
		Assumptions: []string{"ambient socket directory is an existing directory (what a host that is itself a plugin would carry)", "presence of socket dir/group is required when configured; their absence when not configured is not demanded (the statement does not)"},
		Parts:       []part{{Name: "environment", Kind: "enum", Bin: "e3.test", Test: "TestC17"}},
	},
	"C15": {
		Title: "Reattach reaches the same live plugin; test mode never kills the server",
		Level: "model_checking",
		Rule: "explicit-state breadth-first search over reattach histories with a reference state machine <process alive, stored value, number of attached clients>: events start, reattach from client j, write / read the plugin's one-cell store through client j, Kill client j, reattach / read after death; depth <= 4 with <= 2 clients (quick), depth <= 5 with <= 3 clients (thorough), x {net/rpc, gRPC}; " +
			"every path of the search tree is replayed from scratch against a real plugin.Serve child and real Clients in a fresh host process (every reference transition is validated against the implementation); plus fixed test-mode histories (in-process Serve with ServeTestConfig); non-trivial = histories with more than the start event",
		Assumptions: []string{"states are canonical because the reference state is exactly what plugin and clients can observe (value, liveness, client count)", "no schedule control over real processes; the pid watcher polls once a second, so 'process gone' is awaited for up to 10 s"},
		Parts:       []part{{Name: "histories", Kind: "enum", Bin: "e3.test", Test: "TestC15"}},
	},
	"C20": {
		Title: "Concurrent use of clients and brokers is free of data races and panics",
		Level: "model_checking",
		Rule: "explorer part: 17 concurrent mixes (5 goroutines x 2 NextId on each broker kind; 3 concurrent Dispense; 2 Dispense / 2 calls / a brokered Accept+Dial / accessor calls racing with Kill and a second Kill) on net/rpc, gRPC and gRPC+mux under every schedule / timer order / select choice with <= d deviations, atomics and every close() being scheduling points (a double close is recorded, not fatal); " +
			"race part: the same operation pairs run free-running under the Go race detector (separate pass; not schedule-exhaustive); non-trivial = >= 2 alternatives at some decision point",
		Assumptions: []string{
			"the data-race clause is decided by the race detector over operation pairs, not by exhaustive exploration (a cooperative scheduler's hand-offs are happens-before edges and would blind it); the evidence of that part says exhaustive:false",
			"panics in library-spawned goroutines kill the worker and are attributed to the journalled execution",
		},
		Parts: []part{
			{Name: "schedules", Kind: "explore", Scen: "conc_ops", Depths: depths([]int{2}, []int{2, 3}), Budget: budget(4*time.Minute, 25*time.Minute)},
			// the same mixes with fine-grained preemption (every function entry of go-plugin is a scheduling point): exposes
			// unsynchronised read-modify-write sequences exhaustively within the bound, next to the sampled race pass
			{Name: "fine-grained", Kind: "explore", Scen: "conc_ops", Inst: inst("fine", "fine"), Depths: depths([]int{2}, []int{2, 3}), Budget: budget(4*time.Minute, 30*time.Minute)},
			{Name: "race-pass", Kind: "enum", Bin: "e3.test", Test: "TestRacePass"},
			{Name: "conformance", Kind: "conform", Scen: "conc_ops"},
		},
	},
	"C12": {
		Title: "With AutoMTLS every plugin connection is mutually authenticated",
		Level: "fault_enumeration",
		Rule: "plugin side (real processes): a real AutoMTLS pair (real plugin.Serve child, real Client) x {net/rpc, gRPC, gRPC+mux} with brokered listeners open in both directions; an intruder in the host process attacks the main address and every other socket of the pair with each credential class {plaintext, TLS without client certificate, TLS with a fresh self-signed certificate, TLS with a certificate of the same subject/SAN as go-plugin's but another key}, speaking both gRPC (health check) and yamux+net/rpc (Control.Ping); control cells without AutoMTLS show that the intruder is answered when nothing protects the socket; " +
			"host side: an impostor plugin that announces certificate A and serves with certificate B, with the certificate and key of another plugin the same host launched before (sibling), or plaintext, against the real AutoMTLS Client: over gRPC under the explorer (schedules with <= 1 deviation) and over net/rpc and gRPC as hand-made real plugin processes (after an honest hand-made plugin as control); non-trivial = every intrusion / impostor case",
		Assumptions: []string{
			"'replaying the legitimate certificate without its key' cannot complete a TLS handshake and is not attempted",
			"the intruder runs inside the host process (it sees the socket directories a local attacker would)",
		},
		Parts: []part{
			{Name: "intruders", Kind: "enum", Bin: "e3.test", Test: "TestC12"},
			// the same cells built with the toolchain the repository's go.mod selects (standard-library behaviour, e.g. TLS session
			// resumption, differs between toolchains)
			{Name: "intruders-repo-toolchain", Kind: "enum", Bin: "old/e3.test", Test: "TestC12", Env: []string{"VERIF_OLD_TOOLCHAIN=1"}},
			{Name: "impostor", Kind: "explore", Scen: "impostor", Depths: depths([]int{1}, []int{1, 2}), Budget: budget(3*time.Minute, 15*time.Minute)},
			// brokered listeners in both directions, with and without multiplexing (with multiplexing they have no socket an
			// outside intruder could reach: the second peer knocks and opens a stream the way the broker itself does)
			{Name: "brokered-listeners", Kind: "explore", Scen: "brokered_auth", Depths: depths([]int{1}, []int{1, 2}), Budget: budget(3*time.Minute, 15*time.Minute)},
		},
	},
}
