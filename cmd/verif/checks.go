package main

import "time"

var q = "quick"
var th = "thorough"

func depths(quick []int, thorough []int) map[string][]int {
	return map[string][]int{q: quick, th: thorough}
}
func inst(quick, thorough string) map[string]string { return map[string]string{q: quick, th: thorough} }
func budget(quick, thorough time.Duration) map[string]time.Duration {
	return map[string]time.Duration{q: quick, th: thorough}
}

var checks = map[string]*check{
	"C06": {
		Title: "MuxBroker connects Dial(id) only to Accept(id)",
		Level: "model_checking",
		Rule: "every schedule / timer order / select choice of the real MuxBroker pair over yamux with at most d deviations from the canonical scheduler, " +
			"for every 1- and 2-ID pattern of (dial side, issue order, gap); an execution is non-trivial when at least one decision point offered >= 2 alternatives",
		Assumptions: []string{
			"interleavings inside yamux/net-rpc are not enumerated (they run to quiescence between go-plugin's synchronisation points)",
			"virtual connection models a reliable ordered byte stream with a 208 KiB buffer",
			"T oracle (both succeed inside the window) asserted only in executions without a TIME deviation",
		},
		Parts: []part{
			{Name: "routing-1id", Kind: "explore", Scen: "mux_route", Inst: inst("single", "single"), Depths: depths([]int{3}, []int{3, 4, 5}), Budget: budget(2*time.Minute, 10*time.Minute)},
			{Name: "routing-2id", Kind: "explore", Scen: "mux_route", Inst: inst("pairs", "pairs-all"), Depths: depths([]int{2}, []int{2, 3}), Budget: budget(3*time.Minute, 20*time.Minute)},
		},
	},
	"C07": {
		Title: "GRPCBroker connects Dial(id) only to the server accepted on that id",
		Level: "model_checking",
		Rule: "every schedule / timer order / select choice with at most d deviations of the real GRPCBroker pair over real gRPC (virtual sockets), " +
			"for every 1- and 2-ID pattern of (dial side, issue order, gap); non-trivial = at least one decision point with >= 2 alternatives",
		Assumptions: []string{
			"interleavings inside gRPC are not enumerated (it runs to quiescence between go-plugin's synchronisation points)",
			"virtual connection models a reliable ordered byte stream; connect succeeds iff the listener exists",
			"T oracle (first call succeeds inside the window) asserted only in executions without a TIME deviation",
		},
		Parts: []part{
			{Name: "routing-1id", Kind: "explore", Scen: "grpc_route", Inst: inst("single", "single"), Depths: depths([]int{2}, []int{2, 3}), Budget: budget(2*time.Minute, 10*time.Minute)},
			{Name: "routing-2id", Kind: "explore", Scen: "grpc_route", Inst: inst("pairs", "pairs-all"), Depths: depths([]int{1}, []int{1, 2}), Budget: budget(3*time.Minute, 25*time.Minute)},
		},
	},
}
