// Command verif is the check driver: it instruments /repo's working tree into
// a fresh overlay, builds the worker, fans tasks out to worker processes,
// merges their results, writes /verif/evidence/<id>.json and prints
// KNOWN-FINDING / VIOLATION lines (DESIGN §5).
//
//	verif run <property> <quick|thorough>
//	verif replay <property> <file>
//	verif list
package main

import (
	"bufio"
	"encoding/json"
	"fmt"
	"os"
	"os/exec"
	"path/filepath"
	"regexp"
	"runtime"
	"sort"
	"strconv"
	"strings"
	"sync"
	"time"

	"verif/engine/explore"
)

var root = rootDir()

func rootDir() string {
	if r := os.Getenv("VERIF_ROOT"); r != "" {
		return r
	}
	return "/verif"
}

func main() {
	if len(os.Args) < 2 {
		usage()
	}
	switch os.Args[1] {
	case "run":
		if len(os.Args) != 4 {
			usage()
		}
		os.Exit(runCheck(os.Args[2], os.Args[3]))
	case "replay":
		if len(os.Args) != 4 {
			usage()
		}
		os.Exit(replay(os.Args[2], os.Args[3]))
	case "list":
		var ids []string
		for id := range checks {
			ids = append(ids, id)
		}
		sort.Strings(ids)
		for _, id := range ids {
			fmt.Println(id, checks[id].Level, checks[id].Title)
		}
	default:
		usage()
	}
}

func usage() {
	fmt.Fprintln(os.Stderr, "usage: verif run <property> <quick|thorough> | verif replay <property> <file> | verif list")
	os.Exit(2)
}

// ---------------------------------------------------------------- build

type built struct {
	dir    string
	worker string
}

func scratch() string {
	base := "/dev/shm"
	if st, err := os.Stat(base); err != nil || !st.IsDir() {
		base = os.TempDir()
	}
	d, err := os.MkdirTemp(base, "verif-")
	if err != nil {
		d, err = os.MkdirTemp("", "verif-")
		if err != nil {
			fmt.Fprintln(os.Stderr, "verif: cannot create scratch dir:", err)
			os.Exit(2)
		}
	}
	return d
}

func build(dir string) (*built, error) {
	cmd := exec.Command(filepath.Join(root, "build.sh"), dir)
	cmd.Dir = root
	out, err := cmd.CombinedOutput()
	if err != nil {
		return nil, fmt.Errorf("build failed: %v\n%s", err, out)
	}
	return &built{dir: dir, worker: filepath.Join(dir, "worker.test")}, nil
}

// ---------------------------------------------------------------- workers

type workerProc struct {
	id      int
	cmd     *exec.Cmd
	in      *bufio.Writer
	out     *bufio.Reader
	journal string
	stderr  string
}

func startWorker(b *built, id int) (*workerProc, error) {
	w := &workerProc{id: id}
	w.journal = filepath.Join(b.dir, fmt.Sprintf("journal.%d", id))
	w.stderr = filepath.Join(b.dir, fmt.Sprintf("stderr.%d", id))
	tmp := filepath.Join(b.dir, "tmp")
	os.MkdirAll(tmp, 0o755)
	cmd := exec.Command(b.worker, "-test.run", "^TestWorker$", "-test.timeout", "0")
	cmd.Env = append(os.Environ(), "VERIF_WORKER=1", "GOMAXPROCS=1", "VERIF_JOURNAL="+w.journal, "TMPDIR="+tmp, "GOTRACEBACK=all")
	cmd.Dir = b.dir
	ef, err := os.OpenFile(w.stderr, os.O_CREATE|os.O_WRONLY|os.O_TRUNC, 0o644)
	if err != nil {
		return nil, err
	}
	cmd.Stderr = ef
	stdin, _ := cmd.StdinPipe()
	stdout, _ := cmd.StdoutPipe()
	if err := cmd.Start(); err != nil {
		return nil, err
	}
	ef.Close()
	w.cmd = cmd
	w.in = bufio.NewWriterSize(stdin, 1<<20)
	w.out = bufio.NewReaderSize(stdout, 4<<20)
	return w, nil
}

func (w *workerProc) do(t *explore.Task) (*explore.Result, error) {
	b, _ := json.Marshal(t)
	w.in.Write(b)
	w.in.WriteByte('\n')
	if err := w.in.Flush(); err != nil {
		return nil, err
	}
	for {
		line, err := w.out.ReadBytes('\n')
		if err != nil {
			return nil, fmt.Errorf("worker died: %v", err)
		}
		if len(line) > 0 && line[0] == '{' {
			var r explore.Result
			if e := json.Unmarshal(line, &r); e != nil {
				return nil, fmt.Errorf("bad result: %v", e)
			}
			return &r, nil
		}
		// other test output (PASS, ok ...) is ignored
	}
}

func (w *workerProc) stop() {
	if w.cmd != nil && w.cmd.Process != nil {
		w.cmd.Process.Kill()
		w.cmd.Wait()
	}
}

func headTail(path string, n int) string {
	b, err := os.ReadFile(path)
	if err != nil {
		return ""
	}
	if len(b) <= 2*n {
		return string(b)
	}
	return string(b[:n]) + "\n[...]\n" + string(b[len(b)-n:])
}

func tail(path string, n int) string {
	b, err := os.ReadFile(path)
	if err != nil {
		return ""
	}
	if len(b) > n {
		b = b[len(b)-n:]
	}
	return string(b)
}

// ---------------------------------------------------------------- pool

type agg struct {
	mu        sync.Mutex
	execs     int
	steps     int
	redundant int
	diverged  int
	divMsg    string
	outcomes  map[string]int
	sigs      map[uint64]struct{}
	found     []explore.Found
	samples   []explore.Found
	maxDevs   int
	contended int
	crashes   []crash
	tasksDone int
	perScen   map[string]int
	knownHits map[int]int
	knownSmp  map[int]*explore.Found
}

type crash struct {
	Task   explore.Task
	Prefix []int
	Stderr string
}

func newAgg() *agg {
	return &agg{outcomes: map[string]int{}, sigs: map[uint64]struct{}{}, perScen: map[string]int{}, knownHits: map[int]int{}, knownSmp: map[int]*explore.Found{}}
}

func (a *agg) add(t *explore.Task, r *explore.Result) {
	a.mu.Lock()
	defer a.mu.Unlock()
	a.execs += r.Execs
	a.steps += r.Steps
	a.redundant += r.Redundant
	a.diverged += r.Diverged
	if r.DivMsg != "" {
		a.divMsg = r.DivMsg
	}
	for k, v := range r.Outcomes {
		a.outcomes[t.Scen+"/"+k] += v
	}
	for _, s := range r.Sigs {
		a.sigs[s] = struct{}{}
	}
	if len(a.found) < 200 {
		a.found = append(a.found, r.Found...)
	}
	if r.Sample != nil && len(a.samples) < 400 {
		a.samples = append(a.samples, *r.Sample)
	}
	if r.MaxDevs > a.maxDevs {
		a.maxDevs = r.MaxDevs
	}
	a.contended += r.Contended
	for k, v := range r.KnownHits {
		a.knownHits[k] += v
		if a.knownSmp[k] == nil {
			a.knownSmp[k] = r.KnownSample[k]
		}
	}
	a.tasksDone++
	a.perScen[t.Scen] += r.Execs
}

type pool struct {
	b        *built
	n        int
	mu       sync.Mutex
	cond     *sync.Cond
	queue    []*explore.Task
	inflight int
	nextID   int
	deadline time.Time
	cut      bool // deadline hit: queue dropped
	a        *agg
	expandIf func(depth int) bool
	onResult func(r *explore.Result)
	stopErr  error
}

func newPool(b *built, a *agg) *pool {
	n := runtime.NumCPU()
	if n > 16 {
		n = 16
	}
	if v, _ := strconv.Atoi(os.Getenv("VERIF_WORKERS")); v > 0 {
		n = v
	}
	p := &pool{b: b, n: n, a: a}
	p.cond = sync.NewCond(&p.mu)
	return p
}

func (p *pool) push(t *explore.Task) {
	p.mu.Lock()
	p.nextID++
	t.ID = p.nextID
	p.queue = append(p.queue, t)
	p.mu.Unlock()
	p.cond.Signal()
}

// run processes the queue to exhaustion (or the deadline) with n workers.
func (p *pool) run() {
	var wg sync.WaitGroup
	for i := 0; i < p.n; i++ {
		wg.Add(1)
		go func(i int) {
			defer wg.Done()
			var w *workerProc
			defer func() {
				if w != nil {
					w.stop()
				}
			}()
			for {
				p.mu.Lock()
				for len(p.queue) == 0 && p.inflight > 0 && p.stopErr == nil {
					p.cond.Wait()
				}
				if p.stopErr != nil || (len(p.queue) == 0 && p.inflight == 0) {
					p.mu.Unlock()
					p.cond.Broadcast()
					return
				}
				if !p.deadline.IsZero() && time.Now().After(p.deadline) {
					if len(p.queue) > 0 {
						p.cut = true
						p.queue = nil
					}
					p.mu.Unlock()
					p.cond.Broadcast()
					if p.inflightZero() {
						return
					}
					continue
				}
				// LIFO keeps the frontier small (depth-first over tasks)
				t := p.queue[len(p.queue)-1]
				p.queue = p.queue[:len(p.queue)-1]
				p.inflight++
				p.mu.Unlock()

				if w == nil {
					var err error
					w, err = startWorker(p.b, i)
					if err != nil {
						p.fail(err)
						return
					}
				}
				r, err := w.do(t)
				if err != nil {
					// worker died: attribute to the execution named in its journal
					c := crash{Task: *t, Stderr: headTail(w.stderr, 3000)}
					if jb, e := os.ReadFile(w.journal); e == nil {
						var j struct {
							Prefix []int          `json:"prefix"`
							Params explore.Params `json:"params"`
						}
						if json.Unmarshal(jb, &j) == nil {
							c.Prefix = j.Prefix
							if j.Params != nil {
								c.Task.Params = j.Params
							}
						}
					}
					w.stop()
					w = nil
					p.a.mu.Lock()
					p.a.crashes = append(p.a.crashes, c)
					p.a.mu.Unlock()
					if len(t.Batch) > 0 {
						// re-queue the cases of the batch that come after the one that killed the worker
						// (results of the earlier ones are lost with the worker: re-queue them too, minus the culprit)
						var rest []explore.Params
						ck := c.Task.Params.Key()
						for _, ps := range t.Batch {
							if ps.Key() != ck {
								rest = append(rest, ps)
							}
						}
						if len(rest) > 0 && len(rest) < len(t.Batch) {
							p.push(&explore.Task{Scen: t.Scen, Batch: rest, Known: t.Known})
						}
					}
				} else {
					if r.Err != "" {
						p.fail(fmt.Errorf("worker: %s", r.Err))
						return
					}
					p.a.add(t, r)
					if p.onResult != nil {
						p.onResult(r)
					}
					for _, c := range r.Children {
						d := t.Depth - 1
						p.push(&explore.Task{Scen: t.Scen, Params: t.Params, Prefix: c.Prefix, Hash: c.Hash, Depth: d, Expand: p.expandIf(d), Known: t.Known, WantObs: t.WantObs})
					}
					if r.Recycle {
						w.stop()
						w = nil
					}
				}
				p.mu.Lock()
				p.inflight--
				p.mu.Unlock()
				p.cond.Broadcast()
			}
		}(i)
	}
	wg.Wait()
}

func (p *pool) inflightZero() bool {
	p.mu.Lock()
	defer p.mu.Unlock()
	return p.inflight == 0 && len(p.queue) == 0
}

func (p *pool) fail(err error) {
	p.mu.Lock()
	if p.stopErr == nil {
		p.stopErr = err
	}
	p.mu.Unlock()
	p.cond.Broadcast()
}

// instances asks a worker for the parameter instances of a scenario.
func instances(b *built, scen, tier string) ([]explore.Params, error) {
	w, err := startWorker(b, 99)
	if err != nil {
		return nil, err
	}
	defer w.stop()
	r, err := w.do(&explore.Task{Scen: scen, Instances: tier})
	if err != nil {
		return nil, fmt.Errorf("%v\n%s", err, tail(w.stderr, 3000))
	}
	if r.Err != "" {
		return nil, fmt.Errorf("%s", r.Err)
	}
	return r.Instances, nil
}

// confirm re-executes a violating decision list in a fresh worker and returns
// the violations it reproduces.
func confirm(b *built, f *explore.Found, trace bool) (*explore.Found, string) {
	w, err := startWorker(b, 98)
	if err != nil {
		return nil, err.Error()
	}
	defer w.stop()
	r, err := w.do(&explore.Task{Scen: f.Scen, Params: f.Params, Prefix: f.Choices, Depth: 0, Trace: trace})
	if err != nil {
		return nil, "worker died: " + headTail(w.stderr, 2500)
	}
	if len(r.Found) == 0 {
		if os.Getenv("VERIF_TRACE") != "" && r.Sample != nil && trace {
			for k, st := range r.Sample.Steps {
				fmt.Fprintf(os.Stderr, "  step %3d t=%6dms choice %d/%d %-40s [%s]\n", k, st.T, st.Choice, st.NAlts, st.Sig, st.Alts)
			}
			for _, o := range r.Sample.Obs {
				fmt.Fprintln(os.Stderr, "  obs:", o)
			}
		}
		return nil, ""
	}
	return &r.Found[0], ""
}

// ---------------------------------------------------------------- findings

type finding struct {
	Status   string `json:"status"` // known | fixed
	Property string `json:"property"`
	Commit   string `json:"commit,omitempty"`
	What     string `json:"what"`
	// match (known findings only): every non-empty field must match
	Scen   string `json:"scen,omitempty"`   // regexp on scenario or part name
	Params string `json:"params,omitempty"` // regexp on params key / case description
	Class  string `json:"class,omitempty"`
	Msg    string `json:"msg,omitempty"` // regexp on violation message
}

func loadFindings() []finding {
	var out []finding
	f, err := os.Open(filepath.Join(root, "findings", "known-findings.jsonl"))
	if err != nil {
		return nil
	}
	defer f.Close()
	sc := bufio.NewScanner(f)
	sc.Buffer(make([]byte, 1<<20), 1<<20)
	for sc.Scan() {
		l := strings.TrimSpace(sc.Text())
		if l == "" || strings.HasPrefix(l, "#") {
			continue
		}
		var fd finding
		if json.Unmarshal([]byte(l), &fd) == nil {
			out = append(out, fd)
		}
	}
	return out
}

// matchesStatic: the part of a known finding that can be decided before running (property, scenario, params).
func (fd *finding) matchesStatic(prop, scen, params string) bool {
	if fd.Status != "known" || fd.Property != prop {
		return false
	}
	m := func(pat, s string) bool {
		if pat == "" {
			return true
		}
		ok, _ := regexp.MatchString(pat, s)
		return ok
	}
	return m(fd.Scen, scen) && m(fd.Params, params)
}

func (fd *finding) matches(prop, scen, params, class, msg string) bool {
	if fd.Status != "known" || fd.Property != prop {
		return false
	}
	m := func(pat, s string) bool {
		if pat == "" {
			return true
		}
		ok, _ := regexp.MatchString(pat, s)
		return ok
	}
	return m(fd.Scen, scen) && m(fd.Params, params) && (fd.Class == "" || fd.Class == class) && m(fd.Msg, msg)
}
