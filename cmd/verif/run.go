package main

import (
	"bufio"
	"crypto/sha1"
	"encoding/hex"
	"encoding/json"
	"fmt"
	"os"
	"os/exec"
	"path/filepath"
	"sort"
	"strconv"
	"strings"
	"sync"
	"time"

	"verif/engine/explore"
)

type part struct {
	Name   string
	Kind   string // explore | enum
	Scen   string
	Depths map[string][]int         // tier -> successive deviation bounds
	Budget map[string]time.Duration // tier -> wall budget for this part
	BatchN int                      // >0: depth-0 enumeration, instances dispatched in batches of BatchN
	Inst   map[string]string        // tier -> instance set name passed to the scenario (default: the tier)
	Test   string                   // enum: test function
	Bin    string                   // enum: test binary in the scratch dir (default: the worker)
	Env    []string
}

type check struct {
	Title       string
	Level       string
	Rule        string
	Assumptions []string
	Parts       []part
}

// enumResult is what an enumeration test prints (one JSON line prefixed ENUM).
type enumResult struct {
	Evaluations int             `json:"evaluations"`
	Distinct    int             `json:"distinct_nontrivial"`
	Exhaustive  bool            `json:"exhaustive"`
	States      int             `json:"states,omitempty"`
	Transitions int             `json:"transitions,omitempty"`
	Validated   int             `json:"traces_validated_against_impl,omitempty"`
	Samples     []any           `json:"samples"`
	Outcomes    map[string]int  `json:"outcomes,omitempty"`
	Violations  []enumViolation `json:"violations"`
	Notes       []string        `json:"notes,omitempty"`
	Extra       map[string]any  `json:"extra,omitempty"`
}

type enumViolation struct {
	Case  string `json:"case"`
	Class string `json:"class"`
	Msg   string `json:"msg"`
	Input any    `json:"input,omitempty"`
}

type violation struct {
	Part   string
	Scen   string
	Params string
	Class  string
	Msg    string
	Replay any
}

type partReport struct {
	Name         string         `json:"part"`
	Kind         string         `json:"kind"`
	Scenario     string         `json:"scenario,omitempty"`
	Instances    int            `json:"instances,omitempty"`
	Evaluations  int            `json:"evaluations"`
	Transitions  int            `json:"transitions,omitempty"`
	States       int            `json:"states,omitempty"`
	Redundant    int            `json:"redundant_aborted,omitempty"`
	Diverged     int            `json:"replay_divergences,omitempty"`
	Contended    int            `json:"contended_executions,omitempty"`
	Outcomes     int            `json:"distinct_outcomes,omitempty"`
	BoundDone    int            `json:"deviation_bound_completed"`
	BoundPartial int            `json:"deviation_bound_partial,omitempty"`
	Exhaustive   bool           `json:"exhaustive"`
	WallS        float64        `json:"wall_s"`
	Extra        map[string]any `json:"extra,omitempty"`
	Notes        []string       `json:"notes,omitempty"`
}

func seed() int {
	v, _ := strconv.Atoi(os.Getenv("VERIF_SEED"))
	return v
}

func runCheck(id, tier string) int {
	ck, ok := checks[id]
	if !ok {
		fmt.Fprintf(os.Stderr, "verif: unknown property %s\n", id)
		return 2
	}
	if tier != "quick" && tier != "thorough" {
		usage()
	}
	t0 := time.Now()
	dir := scratch()
	defer os.RemoveAll(dir)
	b, err := build(dir)
	if err != nil {
		fmt.Fprintln(os.Stderr, err)
		return 2
	}
	fds := loadFindings()
	knownSeen := map[int]bool{}
	var reports []partReport
	var viols []violation
	var samples []any
	total := partReport{Exhaustive: true}
	engineErr := ""
	only := os.Getenv("VERIF_PARTS") // development aid: run only the named parts; the evidence then goes to a side directory
	for _, p := range ck.Parts {
		if only != "" && !strings.Contains(","+only+",", ","+p.Name+",") {
			continue
		}
		var rep partReport
		var vs []violation
		var smp []any
		switch p.Kind {
		case "explore":
			rep, vs, smp, err = runExplore(b, id, p, tier, fds, knownSeen)
		case "enum":
			rep, vs, smp, err = runEnum(b, id, p, tier)
		case "conform":
			rep, vs, smp, err = runConform(b, id, p, tier)
		}
		if err != nil {
			// an engine error (nondeterminism the explorer does not own, a stall, a worker crash that does not reproduce) in
			// one part: the other parts still run; violations they find are reported (exit 1), otherwise the engine error is (exit 3)
			if engineErr == "" {
				engineErr = err.Error()
			}
			fmt.Fprintf(os.Stderr, "verif: engine error in part %s: %s\n", p.Name, err.Error())
			continue
		}
		reports = append(reports, rep)
		viols = append(viols, vs...)
		if len(smp) > 4 {
			smp = smp[:4]
		}
		samples = append(samples, smp...)
		total.Evaluations += rep.Evaluations
		total.Transitions += rep.Transitions
		total.States += rep.States
		total.Contended += rep.Contended
		total.Outcomes += rep.Outcomes
		total.Diverged += rep.Diverged
		if !rep.Exhaustive {
			total.Exhaustive = false
		}
	}
	if engineErr != "" && len(viols) == 0 {
		fmt.Fprintf(os.Stderr, "verif: engine error: %s\n", engineErr)
		return 3
	}
	if engineErr != "" {
		total.Exhaustive = false
	}
	// classify violations against the known-findings file
	var unknown []violation
	for _, v := range viols {
		matched := false
		for i := range fds {
			if fds[i].matches(id, v.Scen, v.Params, v.Class, v.Msg) {
				knownSeen[i] = true
				matched = true
				break
			}
		}
		if !matched {
			unknown = append(unknown, v)
		}
	}
	for i := range fds {
		if knownSeen[i] {
			fmt.Printf("KNOWN-FINDING: property=%s %s\n", id, fds[i].What)
		}
	}
	// replay artefacts for unknown violations (deduplicated by class+message shape)
	os.MkdirAll(filepath.Join(root, "replays", "out"), 0o755)
	seen := map[string]bool{}
	nv := 0
	for _, v := range unknown {
		key := v.Scen + "|" + v.Class + "|" + normalize(v.Msg)
		if seen[key] {
			continue
		}
		seen[key] = true
		nv++
		if nv > 20 {
			continue
		}
		h := sha1.Sum([]byte(key + v.Params))
		path := filepath.Join(root, "replays", "out", fmt.Sprintf("%s_%s.json", id, hex.EncodeToString(h[:5])))
		jb, _ := json.MarshalIndent(map[string]any{"property": id, "part": v.Part, "scenario": v.Scen, "params": v.Params,
			"class": v.Class, "message": v.Msg, "replay": v.Replay}, "", " ")
		os.WriteFile(path, jb, 0o644)
		fmt.Printf("VIOLATION property=%s replay=%s\n", id, path)
		fmt.Printf("  [%s] %s (%s %s)\n", v.Class, strings.ReplaceAll(v.Msg, "\x00", "<absent>"), v.Scen, strings.ReplaceAll(strings.ReplaceAll(v.Params, "\x00", "<absent>"), "\x01", "|"))
	}
	// evidence
	cov := map[string]any{
		"evaluations":                   total.Evaluations,
		"distinct_nontrivial":           distinctNontrivial(reports),
		"rule":                          ck.Rule,
		"samples":                       samples,
		"states":                        total.States,
		"transitions":                   total.Transitions,
		"traces_validated_against_impl": validated(reports),
		"exhaustive":                    total.Exhaustive,
		"distinct_outcomes":             total.Outcomes,
		"replay_divergences":            total.Diverged,
		"parts":                         reports,
		"known_findings_reobserved":     len(knownSeen),
	}
	ev := map[string]any{
		"property_id": id,
		"tier":        tier,
		"seed":        seed(),
		"level":       ck.Level,
		"coverage":    cov,
		"assumptions": ck.Assumptions,
		"wall_s":      time.Since(t0).Seconds(),
		"violations":  nv,
	}
	eb, _ := json.MarshalIndent(ev, "", " ")
	evDir := filepath.Join(root, "evidence")
	if r := os.Getenv("VERIF_REPO"); r != "" && r != "/repo" {
		// a scratch tree (seeded change) is being checked: its results are not evidence about /repo
		evDir = filepath.Join(r, ".verif-evidence")
	}
	if os.Getenv("VERIF_PARTS") != "" {
		evDir = filepath.Join(os.TempDir(), "verif-partial-evidence")
	}
	os.MkdirAll(evDir, 0o755)
	if err := os.WriteFile(filepath.Join(evDir, id+".json"), eb, 0o644); err != nil {
		fmt.Fprintln(os.Stderr, "verif:", err)
		return 2
	}
	fmt.Printf("%s %s: %d evaluations, %d states, %d transitions, exhaustive=%v, %d unlisted violation(s), %d known finding(s), %.1fs\n",
		id, tier, total.Evaluations, total.States, total.Transitions, total.Exhaustive, nv, len(knownSeen), time.Since(t0).Seconds())
	if nv > 0 {
		return 1
	}
	if engineErr != "" {
		fmt.Fprintf(os.Stderr, "verif: engine error: %s\n", engineErr)
		return 3
	}
	return 0
}

func distinctNontrivial(rs []partReport) int {
	n := 0
	for _, r := range rs {
		if r.Kind == "explore" {
			n += r.Contended
		} else if v, ok := r.Extra["distinct_nontrivial"].(int); ok {
			n += v
		}
	}
	return n
}

func validated(rs []partReport) int {
	n := 0
	for _, r := range rs {
		if v, ok := r.Extra["traces_validated_against_impl"].(int); ok {
			n += v
		}
	}
	return n
}

func normalize(s string) string {
	// strip digits so that the same defect at different ids/timestamps is reported once
	var sb strings.Builder
	for _, c := range s {
		if c >= '0' && c <= '9' {
			continue
		}
		sb.WriteRune(c)
	}
	return sb.String()
}

func knownFor(fds []finding, prop, scen, params string) []explore.Known {
	var ks []explore.Known
	for i := range fds {
		if fds[i].matches(prop, scen, params, fds[i].Class, "\x00") || fds[i].matchesStatic(prop, scen, params) {
			ks = append(ks, explore.Known{Idx: i, Class: fds[i].Class, Msg: fds[i].Msg})
		}
	}
	return ks
}

func runExplore(b *built, prop string, p part, tier string, fds []finding, knownSeen map[int]bool) (partReport, []violation, []any, error) {
	rep := partReport{Name: p.Name, Kind: "explore", Scenario: p.Scen, BoundDone: -1}
	t0 := time.Now()
	it := tier
	if v, ok := p.Inst[tier]; ok {
		it = v
	}
	inst, err := instances(b, p.Scen, it)
	if err != nil {
		return rep, nil, nil, fmt.Errorf("instances of %s: %v", p.Scen, err)
	}
	rep.Instances = len(inst)
	if len(inst) == 0 {
		rep.Exhaustive = true
		rep.BoundDone = 0
		rep.Notes = append(rep.Notes, "no instances in this tier")
		return rep, nil, nil, nil
	}
	depths := p.Depths[tier]
	if v, err := strconv.Atoi(os.Getenv("VERIF_DEPTH")); err == nil { // experimentation only
		depths = []int{v}
	}
	budget := p.Budget[tier]
	deadline := time.Time{}
	if budget > 0 {
		deadline = t0.Add(budget)
	}
	var last *agg
	var divErr error
	for _, d := range depths {
		if !deadline.IsZero() && time.Now().After(deadline) {
			break
		}
		a := newAgg()
		pl := newPool(b, a)
		pl.deadline = deadline
		many := len(inst) >= 32
		_ = many
		pl.expandIf = func(depth int) bool { return depth >= 2 }
		if p.BatchN > 0 {
			// enumeration part: every instance once; known findings are matched by the driver afterwards
			var ks []explore.Known
			for i := range fds {
				if fds[i].Status == "known" && fds[i].Property == prop {
					ks = append(ks, explore.Known{Idx: i, Class: fds[i].Class, Msg: fds[i].Msg})
				}
			}
			for i := 0; i < len(inst); i += p.BatchN {
				j := i + p.BatchN
				if j > len(inst) {
					j = len(inst)
				}
				pl.push(&explore.Task{Scen: p.Scen, Batch: inst[i:j], Known: ks})
			}
		} else {
			for _, ps := range inst {
				pl.push(&explore.Task{Scen: p.Scen, Params: ps, Depth: d, Expand: pl.expandIf(d), Known: knownFor(fds, prop, p.Scen, ps.Key())})
			}
		}
		pl.run()
		if pl.stopErr != nil {
			return rep, nil, nil, pl.stopErr
		}
		if a.diverged > 0 {
			out, _ := exec.Command("sh", "-c", "grep -h -A8 DIVERGENCE "+b.dir+"/stderr.* | head -40").CombinedOutput()
			fmt.Fprintf(os.Stderr, "%s\n", out)
		}
		// A replay that diverges three times in a row is not explored further. Isolated divergences come
		// from choices inside uninstrumented libraries (Go's randomised select, map order); they are
		// counted, reported in the evidence and make the part non-exhaustive. Many of them mean the
		// explorer does not own the scenario's nondeterminism: that is an engine error.
		if a.diverged > 3 && a.diverged*2000 > a.execs {
			// ... unless a violation found on the way replays deterministically in fresh workers (state kept
			// in package-level variables of the code under test makes executions depend on their
			// predecessors in the same worker, and can be a violation's very cause): see below
			divErr = fmt.Errorf("NONDETERMINISM: %d replay divergences in %s (%s)", a.diverged, p.Scen, a.divMsg)
			rep.Diverged += a.diverged
			if last == nil {
				last = a
			} else {
				last.found = append(last.found, a.found...)
				last.crashes = append(last.crashes, a.crashes...)
			}
			break
		}
		if a.diverged > 0 {
			rep.Diverged += a.diverged
			rep.Notes = append(rep.Notes, fmt.Sprintf("bound %d: %d of %d replays diverged from their parent three times in a row and their subtrees were not explored (last: %s)", d, a.diverged, a.execs, a.divMsg))
		}
		if pl.cut {
			rep.BoundPartial = d
			rep.Notes = append(rep.Notes, fmt.Sprintf("bound %d cut by the %s wall budget after %d executions", d, budget, a.execs))
			if last == nil {
				last = a
			} else {
				// keep the complete lower bound as the coverage statement, add what the partial run found
				last.found = append(last.found, a.found...)
				last.crashes = append(last.crashes, a.crashes...)
			}
			break
		}
		rep.BoundDone = d
		last = a
		for k := range a.knownHits {
			knownSeen[k] = true
		}
		if len(a.found) > 0 || len(a.crashes) > 0 {
			break
		}
	}
	if last == nil {
		return rep, nil, nil, fmt.Errorf("no exploration completed for %s", p.Scen)
	}
	a := last
	rep.Evaluations = a.execs
	rep.Transitions = a.steps
	rep.States = len(a.sigs)
	rep.Redundant = a.redundant
	if len(a.knownHits) > 0 {
		kh := map[string]int{}
		for k, v := range a.knownHits {
			kh[fmt.Sprintf("finding#%d", k)] = v
		}
		rep.Extra = map[string]any{"executions_explained_by_known_findings": kh}
	}
	rep.Contended = a.contended
	rep.Outcomes = len(a.outcomes)
	rep.Exhaustive = rep.BoundDone >= 0 && rep.BoundPartial == 0 && rep.Diverged == 0
	rep.WallS = time.Since(t0).Seconds()
	var viols []violation
	// confirm each distinct violation by replaying it twice in fresh workers
	seen := map[string]bool{}
	for i := range a.found {
		f := &a.found[i]
		if len(f.Viol) == 0 {
			continue
		}
		key := f.Viol[0].Class + "|" + normalize(f.Viol[0].Msg)
		if seen[key] {
			continue
		}
		seen[key] = true
		if len(seen) > 12 {
			break
		}
		r1, e1 := confirm(b, f, true)
		r2, e2 := confirm(b, f, false)
		if e1 != "" || e2 != "" {
			return rep, nil, nil, fmt.Errorf("replay of a violation crashed the worker: %s%s", e1, e2)
		}
		if r1 == nil || r2 == nil || r1.Viol[0].Class != f.Viol[0].Class || r2.Viol[0].Class != f.Viol[0].Class {
			if divErr != nil {
				continue
			}
			if f.Viol[0].Class == "S" || f.Viol[0].Class == "PANIC" {
				// A wrong output or a panic of the code under test was observed, from the real code; that the same
				// decision list does not produce it again in a fresh worker means something outside the explorer's
				// control takes part (map iteration order, a sync.Pool, state kept across executions in one
				// process). It is reported, marked as such; liveness / latency verdicts are not (they depend on the
				// schedule having been what the explorer thinks it was).
				for _, v := range f.Viol {
					if v.Class == "S" || v.Class == "PANIC" {
						viols = append(viols, violation{Part: p.Name, Scen: f.Scen, Params: f.Params.Key(), Class: v.Class,
							Msg: v.Msg + " [observed during the exploration; 2 replays in fresh workers did not reproduce it: nondeterminism outside the explorer's control is involved]", Replay: f})
					}
				}
				continue
			}
			return rep, nil, nil, fmt.Errorf("NONDETERMINISM: violation %q of %s %v not reproduced on replay", f.Viol[0].Msg, f.Scen, f.Choices)
		}
		for _, v := range r1.Viol {
			viols = append(viols, violation{Part: p.Name, Scen: f.Scen, Params: f.Params.Key(), Class: v.Class, Msg: v.Msg, Replay: r1})
		}
	}
	if divErr != nil {
		if len(viols) == 0 {
			return rep, nil, nil, divErr
		}
		fmt.Fprintf(os.Stderr, "verif: engine warning: %v; the violations below replay deterministically in fresh workers and are reported\n", divErr)
	}
	for _, c := range a.crashes {
		// a worker died: re-run the journalled execution in a fresh worker to confirm
		f := &explore.Found{Scen: c.Task.Scen, Params: c.Task.Params, Choices: c.Prefix}
		_, e1 := confirm(b, f, false)
		for try := 0; e1 == "" && try < 2; try++ {
			_, e1 = confirm(b, f, false)
		}
		if e1 == "" {
			// The same decision list does not crash again: something the explorer does not
			// control took part. A Go panic of the code under test is a violation all the
			// same (it happened, in the real code); anything else is an engine error.
			if strings.Contains(c.Stderr, "panic:") || strings.Contains(c.Stderr, "fatal error:") {
				msg := firstPanicLine(c.Stderr) + " [observed once; 3 replays of the same decision list did not reproduce it: a scheduling choice outside the explorer's control is involved]"
				viols = append(viols, violation{Part: p.Name, Scen: f.Scen, Params: f.Params.Key(), Class: "PANIC", Msg: msg,
					Replay: map[string]any{"scen": f.Scen, "params": f.Params, "choices": f.Choices, "stderr": c.Stderr, "reproducible": false}})
				continue
			}
			return rep, nil, nil, fmt.Errorf("worker crash not reproducible (scen %s prefix %v):\n%s", c.Task.Scen, c.Prefix, c.Stderr)
		}
		msg := firstPanicLine(e1)
		viols = append(viols, violation{Part: p.Name, Scen: f.Scen, Params: f.Params.Key(), Class: "PANIC", Msg: msg,
			Replay: map[string]any{"scen": f.Scen, "params": f.Params, "choices": f.Choices, "stderr": e1}})
	}
	var smp []any
	sort.Slice(a.samples, func(i, j int) bool { return a.samples[i].Devs > a.samples[j].Devs })
	for i, s := range a.samples {
		if i >= 3 {
			break
		}
		smp = append(smp, map[string]any{"scenario": s.Scen, "params": s.Params, "choices": s.Choices, "deviations": s.Devs, "observations": s.Obs, "faults": s.Faults})
	}
	return rep, viols, smp, nil
}

func firstPanicLine(s string) string {
	for _, key := range []string{"panic:", "fatal error:", "EXPLORER STALL"} {
		if i := strings.Index(s, key); i >= 0 {
			l := s[i:]
			if j := strings.IndexByte(l, '\n'); j >= 0 {
				l = l[:j]
			}
			return "host process died: " + l
		}
	}
	if len(s) > 200 {
		s = s[len(s)-200:]
	}
	return "worker died: " + s
}

func runEnum(b *built, prop string, p part, tier string) (partReport, []violation, []any, error) {
	rep := partReport{Name: p.Name, Kind: "enum"}
	t0 := time.Now()
	bin := b.worker
	if p.Bin != "" {
		bin = filepath.Join(b.dir, p.Bin)
	}
	cmd := exec.Command(bin, "-test.run", "^"+p.Test+"$", "-test.timeout", "0")
	tmp := filepath.Join(b.dir, "tmp")
	os.MkdirAll(tmp, 0o755)
	cmd.Env = append(os.Environ(), "VERIF_ENUM="+tier, "TMPDIR="+tmp, "VERIF_SCRATCH="+b.dir, "VERIF_SEED="+strconv.Itoa(seed()))
	cmd.Env = append(cmd.Env, p.Env...)
	if bd := p.Budget[tier]; bd > 0 {
		cmd.Env = append(cmd.Env, "VERIF_BUDGET_S="+strconv.Itoa(int(bd.Seconds())))
	}
	cmd.Dir = b.dir
	errf, _ := os.Create(filepath.Join(b.dir, "enum.stderr"))
	cmd.Stderr = errf
	out, _ := cmd.StdoutPipe()
	if err := cmd.Start(); err != nil {
		return rep, nil, nil, err
	}
	var res *enumResult
	sc := bufio.NewScanner(out)
	sc.Buffer(make([]byte, 1<<20), 64<<20)
	for sc.Scan() {
		l := sc.Text()
		if strings.HasPrefix(l, "STRESS") { // VERIF_CELL_FILTER debugging output
			fmt.Fprintln(os.Stderr, l)
		}
		if strings.HasPrefix(l, "ENUM ") {
			var r enumResult
			if e := json.Unmarshal([]byte(l[5:]), &r); e != nil {
				return rep, nil, nil, fmt.Errorf("bad ENUM line from %s: %v", p.Test, e)
			}
			if res == nil {
				res = &r
			} else {
				mergeEnum(res, &r)
			}
		}
	}
	werr := cmd.Wait()
	errf.Close()
	if res == nil {
		return rep, nil, nil, fmt.Errorf("%s produced no result (exit: %v)\n%s", p.Test, werr, tail(filepath.Join(b.dir, "enum.stderr"), 4000))
	}
	if werr != nil {
		return rep, nil, nil, fmt.Errorf("%s exited abnormally: %v\n%s", p.Test, werr, tail(filepath.Join(b.dir, "enum.stderr"), 4000))
	}
	rep.Evaluations = res.Evaluations
	rep.Exhaustive = res.Exhaustive
	rep.States = res.States
	rep.Transitions = res.Transitions
	rep.Outcomes = len(res.Outcomes)
	rep.Notes = res.Notes
	rep.Extra = map[string]any{"distinct_nontrivial": res.Distinct, "traces_validated_against_impl": res.Validated}
	for k, v := range res.Extra {
		rep.Extra[k] = v
	}
	rep.WallS = time.Since(t0).Seconds()
	var viols []violation
	for _, v := range res.Violations {
		viols = append(viols, violation{Part: p.Name, Scen: p.Test, Params: v.Case, Class: v.Class, Msg: v.Msg,
			Replay: map[string]any{"test": p.Test, "case": v.Case, "input": v.Input}})
	}
	return rep, viols, res.Samples, nil
}

func mergeEnum(a, b *enumResult) {
	a.Evaluations += b.Evaluations
	a.Distinct += b.Distinct
	a.Exhaustive = a.Exhaustive && b.Exhaustive
	a.States += b.States
	a.Transitions += b.Transitions
	a.Validated += b.Validated
	if len(a.Samples) < 6 {
		a.Samples = append(a.Samples, b.Samples...)
	}
	a.Violations = append(a.Violations, b.Violations...)
	a.Notes = append(a.Notes, b.Notes...)
	if a.Outcomes == nil {
		a.Outcomes = map[string]int{}
	}
	for k, v := range b.Outcomes {
		a.Outcomes[k] += v
	}
	if a.Extra == nil {
		a.Extra = map[string]any{}
	}
	for k, v := range b.Extra {
		a.Extra[k] = v
	}
}

func replay(id, file string) int {
	jb, err := os.ReadFile(file)
	if err != nil {
		fmt.Fprintln(os.Stderr, err)
		return 2
	}
	var art struct {
		Scenario string          `json:"scenario"`
		Replay   json.RawMessage `json:"replay"`
	}
	if err := json.Unmarshal(jb, &art); err != nil {
		fmt.Fprintln(os.Stderr, err)
		return 2
	}
	var f explore.Found
	if err := json.Unmarshal(art.Replay, &f); err != nil || f.Scen == "" {
		fmt.Fprintln(os.Stderr, "verif: this artefact is an enumeration case; re-run the check to reproduce it:", string(art.Replay))
		return 2
	}
	dir := scratch()
	defer os.RemoveAll(dir)
	b, err := build(dir)
	if err != nil {
		fmt.Fprintln(os.Stderr, err)
		return 2
	}
	rc := 0
	for i := 0; i < 2; i++ {
		r, e := confirm(b, &f, true)
		if e != "" {
			fmt.Printf("replay %d: worker died:\n%s\n", i+1, e)
			rc = 1
			continue
		}
		if r == nil {
			fmt.Printf("replay %d: no violation\n", i+1)
			continue
		}
		rc = 1
		if i == 0 {
			for k, st := range r.Steps {
				fmt.Printf("  step %3d t=%6dms choice %d/%d %-40s [%s]\n", k, st.T, st.Choice, st.NAlts, st.Sig, st.Alts)
			}
			for _, o := range r.Obs {
				fmt.Println("  obs:", o)
			}
		}
		for _, v := range r.Viol {
			fmt.Printf("replay %d: VIOLATION property=%s replay=%s [%s] %s\n", i+1, id, file, v.Class, v.Msg)
		}
	}
	return rc
}

// runConform binds the environment model to reality: the conformance instances of the
// part's scenarios are executed (a) free-running outside any bubble — real time, real
// sockets — and (b) on the default schedule inside the bubble; the sorted observation
// lists must be equal and neither side may report a violation.
func runConform(b *built, prop string, p part, tier string) (partReport, []violation, []any, error) {
	rep := partReport{Name: p.Name, Kind: "conform", Exhaustive: true}
	t0 := time.Now()
	cmd := exec.Command(b.worker, "-test.run", "^TestConformance$", "-test.timeout", "600s")
	tmp := filepath.Join(b.dir, "tmp")
	os.MkdirAll(tmp, 0o755)
	// GOMAXPROCS=1: the scenario bodies keep their observations in a plain map (x.Data), written from several
	// harness goroutines; inside the bubble only one goroutine runs at a time, free-running they must not run
	// in parallel either (the Go scheduler still interleaves them, time and sockets are real)
	cmd.Env = append(os.Environ(), "VERIF_CONFORM="+p.Scen, "TMPDIR="+tmp, "GOMAXPROCS=1")
	cmd.Dir = b.dir
	errf, _ := os.Create(filepath.Join(b.dir, "conform.stderr"))
	cmd.Stderr = errf
	outp, _ := cmd.StdoutPipe()
	if err := cmd.Start(); err != nil {
		return rep, nil, nil, err
	}
	free := map[string]explore.ObsRec{}
	sc := bufio.NewScanner(outp)
	sc.Buffer(make([]byte, 1<<20), 16<<20)
	for sc.Scan() {
		if l := sc.Text(); strings.HasPrefix(l, "CONF ") {
			var r explore.ObsRec
			if json.Unmarshal([]byte(l[5:]), &r) == nil {
				free[r.Scen+"|"+r.Params.Key()] = r
			}
		}
	}
	werr := cmd.Wait()
	errf.Close()
	if werr != nil {
		return rep, nil, nil, fmt.Errorf("free-running conformance run failed: %v\n%s", werr, headTail(filepath.Join(b.dir, "conform.stderr"), 2000))
	}
	// the same instances on the default schedule inside the bubble
	a := newAgg()
	pl := newPool(b, a)
	pl.expandIf = func(int) bool { return false }
	byScen := map[string][]explore.Params{}
	for _, r := range free {
		byScen[r.Scen] = append(byScen[r.Scen], r.Params)
	}
	var mu sync.Mutex
	bubble := map[string]explore.ObsRec{}
	pl.onResult = func(r *explore.Result) {
		mu.Lock()
		for _, o := range r.ObsList {
			bubble[o.Scen+"|"+o.Params.Key()] = o
		}
		mu.Unlock()
	}
	for sn, ps := range byScen {
		for _, q := range ps {
			pl.push(&explore.Task{Scen: sn, Params: q, Depth: 0, WantObs: true})
		}
	}
	pl.run()
	if pl.stopErr != nil {
		return rep, nil, nil, pl.stopErr
	}
	var viols []violation
	var smp []any
	matched := 0
	keys := make([]string, 0, len(free))
	for k := range free {
		keys = append(keys, k)
	}
	sort.Strings(keys)
	for _, k := range keys {
		f := free[k]
		bu, ok := bubble[k]
		rep.Evaluations += 2
		switch {
		case !ok:
			viols = append(viols, violation{Part: p.Name, Scen: f.Scen, Params: f.Params.Key(), Class: "CONFORMANCE", Msg: "instance produced no result inside the bubble"})
		case len(f.Viol) > 0:
			viols = append(viols, violation{Part: p.Name, Scen: f.Scen, Params: f.Params.Key(), Class: "CONFORMANCE", Msg: fmt.Sprintf("free-running execution (real time, real sockets) reports [%s] %s", f.Viol[0].Class, f.Viol[0].Msg), Replay: f})
		case len(bu.Viol) > 0:
			viols = append(viols, violation{Part: p.Name, Scen: f.Scen, Params: f.Params.Key(), Class: bu.Viol[0].Class, Msg: bu.Viol[0].Msg, Replay: bu})
		case strings.Join(f.Obs, "\n") != strings.Join(bu.Obs, "\n"):
			viols = append(viols, violation{Part: p.Name, Scen: f.Scen, Params: f.Params.Key(), Class: "CONFORMANCE",
				Msg: fmt.Sprintf("environment model disagrees with reality: free-running observations %v, in-bubble default schedule %v", f.Obs, bu.Obs), Replay: map[string]any{"free": f, "bubble": bu}})
		default:
			matched++
			if len(smp) < 2 {
				smp = append(smp, map[string]any{"scenario": f.Scen, "params": f.Params, "observations_equal_in_both_worlds": f.Obs})
			}
		}
	}
	rep.Extra = map[string]any{"traces_validated_against_impl": matched, "distinct_nontrivial": matched, "conformance_instances": len(free)}
	rep.WallS = time.Since(t0).Seconds()
	return rep, viols, smp, nil
}
