package main

import (
	"crypto/ecdsa"
	"crypto/elliptic"
	"crypto/rand"
	"crypto/tls"
	"crypto/x509"
	"crypto/x509/pkix"
	"encoding/base64"
	"encoding/pem"
	"fmt"
	"io"
	"math/big"
	"net"
	"os"
	"path/filepath"
	"time"

	plugin "github.com/hashicorp/go-plugin"

	"verif/e3/kv"
)

func freshCert() (tls.Certificate, string) {
	key, _ := ecdsa.GenerateKey(elliptic.P256(), rand.Reader)
	tmpl := &x509.Certificate{SerialNumber: big.NewInt(time.Now().UnixNano()), Subject: pkix.Name{CommonName: "localhost"}, DNSNames: []string{"localhost"},
		NotBefore: time.Now().Add(-time.Hour), NotAfter: time.Now().Add(24 * time.Hour), IsCA: true, BasicConstraintsValid: true,
		KeyUsage: x509.KeyUsageDigitalSignature | x509.KeyUsageCertSign, ExtKeyUsage: []x509.ExtKeyUsage{x509.ExtKeyUsageServerAuth, x509.ExtKeyUsageClientAuth}}
	der, _ := x509.CreateCertificate(rand.Reader, tmpl, tmpl, &key.PublicKey, key)
	kb, _ := x509.MarshalECPrivateKey(key)
	c, _ := tls.X509KeyPair(pem.EncodeToMemory(&pem.Block{Type: "CERTIFICATE", Bytes: der}), pem.EncodeToMemory(&pem.Block{Type: "EC PRIVATE KEY", Bytes: kb}))
	return c, base64.RawStdEncoding.EncodeToString(der)
}

// impostor is a hand-made plugin process for C12: it does by hand what plugin.Serve does under
// AutoMTLS (listener, server, handshake line with a certificate field) but chooses which
// certificate it announces and which one it serves with:
//
//	legit         announces and serves the configured certificate (CertPEM/KeyPEM)
//	other-cert    announces a fresh certificate, serves another fresh one
//	sibling-cert  announces a fresh certificate, serves the configured one (the key of a plugin the
//	              same host launched before)
//	plaintext     announces a fresh certificate, serves without TLS
//	chain-with-announced / sibling-chain
//	              announces a fresh certificate A, serves a chain [B, A] whose leaf B is another
//	              certificate (fresh / the sibling's) and holds only B's key
//
// The real RPCServer / GRPCServer answer whoever gets through.
func impostor(c *Conf) {
	own, err := tls.X509KeyPair([]byte(c.CertPEM), []byte(c.KeyPEM))
	if err != nil {
		fmt.Fprintln(os.Stderr, "vplugin impostor: bad certificate:", err)
		os.Exit(3)
	}
	ownField := base64.RawStdEncoding.EncodeToString(own.Certificate[0])
	f1, f1Field := freshCert()
	f2, _ := freshCert()
	_ = f1
	announce, serve := ownField, &own
	switch c.Impostor {
	case "other-cert":
		announce, serve = f1Field, &f2
	case "sibling-cert":
		announce, serve = f1Field, &own
	case "chain-with-announced": // serves its own leaf (whose key it holds) with the announced certificate appended behind it
		ch := tls.Certificate{Certificate: [][]byte{f2.Certificate[0], f1.Certificate[0]}, PrivateKey: f2.PrivateKey}
		announce, serve = f1Field, &ch
	case "sibling-chain": // the sibling's certificate and key as leaf, the announced certificate behind it
		ch := tls.Certificate{Certificate: [][]byte{own.Certificate[0], f1.Certificate[0]}, PrivateKey: own.PrivateKey}
		announce, serve = f1Field, &ch
	case "plaintext":
		announce, serve = f1Field, nil
	case "nocert-plaintext": // a plugin that ignores PLUGIN_CLIENT_CERT altogether
		announce, serve = "", nil
	}
	if c.Impostor == "sibling-address" {
		// announces a fresh certificate and the ADDRESS of the plugin the same host launched before (it relays, or simply
		// points at, that plugin): the host must not take the sibling for the plugin that announced this certificate
		fmt.Printf("%d|1|unix|%s|%s|%s\n", plugin.CoreProtocolVersion, os.Getenv("VP_SIBLING_ADDR"), c.LegacyProto, f1Field)
		os.Stdout.Sync()
		time.Sleep(60 * time.Second)
		return
	}
	pool := x509.NewCertPool()
	pool.AppendCertsFromPEM([]byte(os.Getenv("PLUGIN_CLIENT_CERT")))
	var tc *tls.Config
	if serve != nil {
		tc = &tls.Config{Certificates: []tls.Certificate{*serve}, ClientAuth: tls.RequireAndVerifyClientCert, ClientCAs: pool, RootCAs: pool, MinVersion: tls.VersionTLS12, ServerName: "localhost"}
	}
	dir, _ := os.MkdirTemp("", "plugin")
	path := filepath.Join(dir, "sock")
	ln, err := net.Listen("unix", path)
	if err != nil {
		fmt.Fprintln(os.Stderr, "vplugin impostor:", err)
		os.Exit(3)
	}
	impl := &kv.Impl{}
	done := make(chan struct{})
	never, _ := io.Pipe()
	proto := c.LegacyProto
	if proto == "grpc" {
		s := &plugin.GRPCServer{Plugins: set("grpc", impl), Server: plugin.DefaultGRPCServer, TLS: tc, DoneCh: done, Stdout: never, Stderr: never}
		if err := s.Init(); err != nil {
			fmt.Fprintln(os.Stderr, "vplugin impostor:", err)
			os.Exit(3)
		}
		go s.Serve(ln)
	} else {
		var l net.Listener = ln
		if tc != nil {
			l = tls.NewListener(ln, tc)
		}
		s := &plugin.RPCServer{Plugins: set("netrpc", impl), Stdout: never, Stderr: never, DoneCh: done}
		go s.Serve(l)
	}
	fmt.Printf("%d|1|unix|%s|%s|%s\n", plugin.CoreProtocolVersion, path, proto, announce)
	os.Stdout.Sync()
	select {
	case <-done:
	case <-time.After(60 * time.Second):
	}
	ln.Close()
	os.RemoveAll(dir)
}

// handmade is a plugin process that does by hand what plugin.Serve does, without transport security, and listens where
// a hand-written plugin may: "handmade-abstract" on a Linux abstract socket (announced as unix|@name), "handmade-relative"
// on a relative socket path (host and plugin share the working directory, which the launching host sets through Cmd.Dir).
func handmade(c *Conf) {
	name := fmt.Sprintf("@verif-handmade-%d", os.Getpid())
	if c.Impostor == "handmade-relative" {
		name = fmt.Sprintf("handmade-%d.sock", os.Getpid())
	}
	ln, err := net.Listen("unix", name)
	if err != nil {
		fmt.Fprintln(os.Stderr, "vplugin handmade:", err)
		os.Exit(3)
	}
	impl := &kv.Impl{}
	done := make(chan struct{})
	never, _ := io.Pipe()
	proto := c.LegacyProto
	if proto == "grpc" {
		s := &plugin.GRPCServer{Plugins: set("grpc", impl), Server: plugin.DefaultGRPCServer, DoneCh: done, Stdout: never, Stderr: never}
		if err := s.Init(); err != nil {
			fmt.Fprintln(os.Stderr, "vplugin handmade:", err)
			os.Exit(3)
		}
		go s.Serve(ln)
	} else {
		s := &plugin.RPCServer{Plugins: set("netrpc", impl), Stdout: never, Stderr: never, DoneCh: done}
		go s.Serve(ln)
	}
	fmt.Printf("%d|1|unix|%s|%s|\n", plugin.CoreProtocolVersion, name, proto)
	os.Stdout.Sync()
	select {
	case <-done:
	case <-time.After(60 * time.Second):
	}
	ln.Close()
	if c.ExitMarker != "" {
		os.WriteFile(c.ExitMarker, []byte("done"), 0o644)
	}
}
