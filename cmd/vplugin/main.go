// Command vplugin is a real go-plugin plugin binary for the E3 (real process)
// cells: it calls the real plugin.Serve with a configuration taken from the
// VP_CONF environment variable (JSON).
package main

import (
	"context"
	"crypto/tls"
	"crypto/x509"
	"encoding/json"
	"errors"
	"fmt"
	"os"
	"strconv"
	"strings"
	"time"

	plugin "github.com/hashicorp/go-plugin"
	"google.golang.org/grpc"

	"verif/e3/kv"
)

// Conf is what a cell asks the plugin to be.
type Conf struct {
	CookieKey   string            `json:"cookie_key"`
	CookieValue string            `json:"cookie_value"`
	Legacy      int               `json:"legacy"`       // -1: no legacy Plugins field
	LegacyProto string            `json:"legacy_proto"` // netrpc|grpc
	Versions    map[string]string `json:"versions"`     // version -> netrpc|grpc
	GRPCServer  bool              `json:"grpc_server"`
	TLS         string            `json:"tls"` // none | provider
	CertPEM     string            `json:"cert_pem"`
	KeyPEM      string            `json:"key_pem"`
	ExitMarker  string            `json:"exit_marker"` // file written by deferred plugin code when Serve returns
	ExitDelayMs int               `json:"exit_delay_ms"`
	InitDelayMs int               `json:"init_delay_ms"` // the plugin's registration hook takes this long
	Test        bool              `json:"test"`
	Impostor    string            `json:"impostor"` // see impostor.go
	AckShutdown bool              `json:"ack_shutdown"`
	// plugin code that prints to os.Stdout / os.Stderr by itself as soon as it is being served (three lines each)
	Chatter bool `json:"chatter"`
}

// ackShutdown answers the controller's Shutdown RPC with its (empty) reply and runs go-plugin's own handler, which
// stops the server, 100 ms later: a plugin that acknowledges the request before it goes away.
func ackShutdown(ctx context.Context, req any, info *grpc.UnaryServerInfo, handler grpc.UnaryHandler) (any, error) {
	if info.FullMethod != "/plugin.GRPCController/Shutdown" {
		return handler(ctx, req)
	}
	go func() {
		time.Sleep(100 * time.Millisecond)
		handler(context.Background(), req)
	}()
	return req, nil // request and reply are the same empty message type
}

func set(proto string, impl *kv.Impl) plugin.PluginSet {
	if proto == "grpc" {
		return plugin.PluginSet{"kv": &kv.GPlugin{Impl: impl}}
	}
	return plugin.PluginSet{"kv": &kv.Plugin{Impl: impl}}
}

func main() {
	var c Conf
	c.Legacy = -1
	if err := json.Unmarshal([]byte(os.Getenv("VP_CONF")), &c); err != nil {
		fmt.Fprintln(os.Stderr, "vplugin: bad VP_CONF:", err)
		os.Exit(3)
	}
	if c.Impostor != "" {
		if os.Getenv(c.CookieKey) != c.CookieValue {
			os.Exit(1)
		}
		if strings.HasPrefix(c.Impostor, "handmade-") {
			handmade(&c)
			return
		}
		impostor(&c)
		return
	}
	kv.InitDelay = time.Duration(c.InitDelayMs) * time.Millisecond
	impl := &kv.Impl{}
	sc := &plugin.ServeConfig{HandshakeConfig: plugin.HandshakeConfig{MagicCookieKey: c.CookieKey, MagicCookieValue: c.CookieValue}}
	if c.Legacy >= 0 {
		sc.ProtocolVersion = uint(c.Legacy)
		sc.Plugins = set(c.LegacyProto, impl)
	}
	if len(c.Versions) > 0 {
		sc.VersionedPlugins = map[int]plugin.PluginSet{}
		for v, p := range c.Versions {
			n, _ := strconv.Atoi(v)
			sc.VersionedPlugins[n] = set(p, impl)
		}
	}
	if c.GRPCServer {
		sc.GRPCServer = plugin.DefaultGRPCServer
		if c.AckShutdown {
			sc.GRPCServer = func(opts []grpc.ServerOption) *grpc.Server {
				return grpc.NewServer(append(opts, grpc.ChainUnaryInterceptor(ackShutdown))...)
			}
		}
	}
	if c.TLS == "provider-fail" {
		sc.TLSProvider = func() (*tls.Config, error) { return nil, errors.New("no certificate available") }
	}
	if c.TLS == "provider" {
		sc.TLSProvider = func() (*tls.Config, error) {
			cert, err := tls.X509KeyPair([]byte(c.CertPEM), []byte(c.KeyPEM))
			if err != nil {
				return nil, err
			}
			// usable in both directions: the plugin is a TLS server on its own listeners and a TLS
			// client when it dials a listener brokered by the host
			pool := x509.NewCertPool()
			pool.AppendCertsFromPEM([]byte(c.CertPEM))
			return &tls.Config{Certificates: []tls.Certificate{cert}, RootCAs: pool, ServerName: "localhost"}, nil
		}
	}
	if c.Chatter {
		orig := os.Stdout
		go func() {
			for os.Stdout == orig { // Serve swaps os.Stdout for its pipe right after the handshake line
				time.Sleep(2 * time.Millisecond)
			}
			for i := 0; i < 3; i++ {
				fmt.Fprintf(os.Stdout, "C16-PLUGIN-STDOUT %d\n", i)
				fmt.Fprintf(os.Stderr, "C16-PLUGIN-STDERR %d\n", i)
				time.Sleep(20 * time.Millisecond)
			}
		}()
	}
	defer func() {
		if c.ExitDelayMs > 0 {
			time.Sleep(time.Duration(c.ExitDelayMs) * time.Millisecond)
		}
		if c.ExitMarker != "" {
			os.WriteFile(c.ExitMarker, []byte("done"), 0o644)
		}
	}()
	plugin.Serve(sc)
}
