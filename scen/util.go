package scen

import (
	"fmt"
	"os"
	"reflect"
	"unsafe"

	plugin "github.com/hashicorp/go-plugin"
	"strconv"
	"strings"
	"time"

	"verif/engine/explore"
	"verif/engine/vs"
)

func atoi(s string) int { n, _ := strconv.Atoi(s); return n }

func ms(s string) time.Duration { return time.Duration(atoi(s)) * time.Millisecond }

// pattern fills a buffer with a position- and tag-dependent byte pattern
// covering all 256 byte values.
func pattern(tag byte, n int) []byte {
	b := make([]byte, n)
	for i := range b {
		b[i] = byte(i*7) ^ tag ^ byte(i>>8)
	}
	return b
}

// done tracks completion of harness goroutines for the L oracle.
type done struct {
	x     *vs.Exec
	names []string
	fin   map[string]bool
}

func newDone(x *vs.Exec) *done { return &done{x: x, fin: map[string]bool{}} }

func (d *done) goIn(dom, name string, f func()) {
	d.names = append(d.names, name)
	d.x.Tracked.Add(1)
	d.x.Go(dom, func() {
		defer d.x.Tracked.Add(-1)
		defer func() {
			if r := recover(); r != nil {
				d.x.Fail("PANIC", "%s panicked: %v", name, r)
			}
			d.x.Put("done:"+name, true)
		}()
		f()
	})
}

func (d *done) checkAll(x *vs.Exec) {
	for _, n := range d.names {
		if x.Data["done:"+n] != true {
			x.Fail("L", "%s never returned (blocked: %s)", n, strings.Join(x.EndBlocked, "; "))
		}
	}
}

func checkNoLeak(x *vs.Exec, frame string, allow ...string) {
outer:
	for _, g := range x.Goroutines(frame) {
		for _, a := range allow {
			if strings.Contains(g, a) {
				continue outer
			}
		}
		x.Fail("L", "goroutine left behind: %s", g)
	}
	if os.Getenv("VERIF_DEBUG") != "" && len(x.Violations()) > 0 {
		x.Fail("DEBUG", "goroutines=%q blocked=%q", x.Goroutines(""), x.EndBlocked)
	}
}

var _ = fmt.Sprint
var _ explore.Params

// parsePat splits a per-id pattern "<side><order><gapms>[@<startms>]": the second of the two calls is
// issued gapms after the first, and the first startms after the scenario began (default 0).
func parsePat(pat string) (side, order byte, gap, start time.Duration) {
	g, st, _ := strings.Cut(pat[2:], "@")
	return pat[0], pat[1], ms(g), ms(st)
}

// pluginSetInUse is the plugin set a started Client dispenses from. Before fix b0c8618 Start wrote the negotiated
// set into the caller's ClientConfig.Plugins; since then it is kept in unexported Client fields, which are read
// here by reflection so that the oracle works on trees with and without that fix (no exported accessor exists).
func pluginSetInUse(cl *plugin.Client, cfg *plugin.ClientConfig) plugin.PluginSet {
	v := reflect.ValueOf(cl).Elem()
	if f := v.FieldByName("negotiated"); f.IsValid() && f.Kind() == reflect.Bool && f.Bool() {
		if pf := v.FieldByName("negotiatedPlugins"); pf.IsValid() && pf.CanAddr() {
			return *(*plugin.PluginSet)(unsafe.Pointer(pf.UnsafeAddr()))
		}
	}
	return cfg.Plugins
}
