package scen

import (
	"context"
	"fmt"
	"net/rpc"
	"os"
	"path/filepath"
	"strings"
	"time"

	grpctest "github.com/hashicorp/go-plugin/test/grpc"
	"google.golang.org/grpc"

	"verif/engine/explore"
	"verif/engine/vnet"
	"verif/engine/vs"
)

// kill_leak — C18 under schedule exploration: a session in which the host uses the client from
// one or two goroutines (first Client() calls racing, concurrent dispenses, a brokered
// connection in either direction), then a graceful Kill; a few (virtual) seconds later no
// go-plugin / gRPC goroutine of that client is left in the host, no listener is registered any
// more and no socket file or runner directory exists. params: proto, hist.
func init() {
	explore.Register(&explore.Scenario{
		Name:    "kill_leak",
		Horizon: 90 * time.Second,
		Settle:  7 * time.Second,
		Body: func(x *vs.Exec, p explore.Params) {
			proto, hist := p["proto"], p["hist"]
			d := newDone(x)
			x.Put("d", d)
			x.Hold()
			lc := newLive(x, liveOpts{proto: proto})
			x.Put("lc", lc)
			if _, err := lc.cl.Start(); err != nil {
				x.Fail("ENGINE", "start: %v", err)
				return
			}
			if hist != "client2" {
				if _, err := lc.cl.Client(); err != nil {
					x.Fail("ENGINE", "connect: %v", err)
					return
				}
			}
			x.Release()
			users := 0
			fin := make(chan struct{}, 8)
			user := func(name string, f func()) {
				users++
				d.goIn("host", name, func() {
					defer func() { fin <- struct{}{} }()
					f()
				})
			}
			use := func(name string) func() {
				return func() {
					cp, err := lc.cl.Client()
					if err != nil {
						failT(x, "%s: Client(): %v", name, err)
						return
					}
					o, err := cp.Dispense("p")
					if err != nil {
						failT(x, "%s: Dispense: %v", name, err)
						return
					}
					if err := lc.call(o, false); err != nil {
						failT(x, "%s: call: %v", name, err)
					}
				}
			}
			switch hist {
			case "seq":
				user("u0", use("u0"))
			case "client2", "disp2":
				user("u0", use("u0"))
				user("u1", use("u1"))
			case "kill-accept":
				// Kill while the host is announcing a brokered listener (AcceptAndServe not yet returned, nobody waits for it)
				user("u0", use("u0"))
				if proto != "netrpc" {
					x.Go("host", func() {
						if lc.gp.cb != nil {
							lc.gp.cb.AcceptAndServe(41, func(o []grpc.ServerOption) *grpc.Server {
								s := grpc.NewServer(o...)
								grpctest.RegisterPingPongServer(s, &ppServer{tag: "41"})
								return s
							})
						}
					})
				}
			case "h2p", "p2h":
				user("u0", func() {
					use("u0")()
					if proto == "netrpc" {
						acc, dial := lc.rp.sb, lc.rp.cb
						adom, ddom := lc.r.dom.Name, "host"
						if hist == "p2h" {
							acc, dial, adom, ddom = lc.rp.cb, lc.rp.sb, "host", lc.r.dom.Name
						}
						if acc == nil || dial == nil {
							return // the dispense above failed (reported there)
						}
						got := make(chan struct{}, 2)
						x.Go(adom, func() {
							defer func() { got <- struct{}{} }()
							if c, err := acc.Accept(41); err == nil {
								b := make([]byte, 1)
								c.Read(b)
								c.Close()
							}
						})
						x.Go(ddom, func() {
							defer func() { got <- struct{}{} }()
							if c, err := dial.Dial(41); err == nil {
								c.Write([]byte{1})
								c.Close()
							} else {
								failT(x, "brokered Dial: %v", err)
							}
						})
						<-got
						<-got
						return
					}
					acc, dial := lc.gp.sb, lc.gp.cb
					adom, ddom := lc.r.dom.Name, "host"
					if hist == "p2h" {
						acc, dial, adom, ddom = lc.gp.cb, lc.gp.sb, "host", lc.r.dom.Name
					}
					if acc == nil || dial == nil {
						return
					}
					x.Go(adom, func() { // serves until the broker / process goes away
						acc.AcceptAndServe(41, func(o []grpc.ServerOption) *grpc.Server {
							s := grpc.NewServer(o...)
							grpctest.RegisterPingPongServer(s, &ppServer{tag: "41"})
							return s
						})
					})
					got := make(chan struct{}, 1)
					x.Go(ddom, func() {
						defer func() { got <- struct{}{} }()
						cc, err := dial.Dial(41)
						if err != nil {
							failT(x, "brokered Dial: %v", err)
							return
						}
						x.OnCleanup(func() { cc.Close() })
						ctx, cancel := context.WithTimeout(context.Background(), 8*time.Second)
						if tag, err := pingTag(ctx, cc); err != nil || tag != "41" {
							failT(x, "brokered ping: %q %v", tag, err)
						}
						cancel()
						cc.Close()
					})
					<-got
				})
			}
			d.goIn("host", "Kill", func() {
				for i := 0; i < users; i++ {
					<-fin
				}
				vs.Point("before-kill")
				lc.cl.Kill()
			})
		},
		Check: func(x *vs.Exec, p explore.Params) {
			desc := fmt.Sprintf("proto=%s history=%s", p["proto"], p["hist"])
			d, _ := x.Data["d"].(*done)
			lc, _ := x.Data["lc"].(*liveClient)
			if d == nil || lc == nil {
				return
			}
			close(lc.block)
			for _, n := range d.names {
				if x.Data["done:"+n] != true {
					x.Fail("L", "%s never returned [%s]", n, desc)
					return
				}
			}
			lc.r.mu.Lock()
			forced := lc.r.killsAlive > 0
			lc.r.mu.Unlock()
			x.Obs("forced=%v", forced)
			if os.Getenv("VERIF_DEBUG") != "" {
				x.Fail("DEBUG", "forced=%v goroutines=%q", forced, x.Goroutines(""))
			}
			if forced || len(x.Violations()) > 0 || x.Data["session-disturbed"] == true {
				return // the property speaks about graceful exits of working sessions
			}
			for _, pkg := range []string{"hashicorp/go-plugin.", "google.golang.org/grpc", "hashicorp/yamux"} {
				for _, g := range x.Goroutines(pkg) {
					if !strings.HasPrefix(g, "host: ") {
						continue
					}
					if fr := strings.Split(g, " < "); len(fr) > 3 {
						g = strings.Join(fr[:3], " < ")
					}
					x.Fail("L", "goroutine left in the host after a graceful Kill: %s [%s]", g, desc)
				}
			}
			for _, l := range vnet.Open(x.ExecID) {
				x.Fail("L", "listener still open after a graceful Kill: %s [%s]", shortAddr(l), desc)
			}
			for _, f := range vnet.LeftFiles(x.ExecID) {
				dom, path, _ := strings.Cut(f, " ")
				x.Fail("L", "socket file left behind after a graceful Kill, created by %s: %s [%s]", dom, short(filepath.Base(filepath.Dir(path)))+"/"+short(filepath.Base(path)), desc)
			}
			if td := lc.r.tmpDir; td != "" {
				if _, err := os.Stat(td); err == nil {
					x.Fail("L", "the runner's socket directory still exists after a graceful Kill [%s]", desc)
				}
			}
		},
		Conform: func() []explore.Params {
			return []explore.Params{{"proto": "netrpc", "hist": "seq"}, {"proto": "grpc", "hist": "h2p"}, {"proto": "grpcmux", "hist": "p2h"}}
		},
		Instances: func(tier string) []explore.Params {
			var out []explore.Params
			for _, proto := range []string{"netrpc", "grpc", "grpcmux"} {
				for _, h := range []string{"seq", "client2", "disp2", "h2p", "p2h", "kill-accept"} {
					out = append(out, explore.Params{"proto": proto, "hist": h})
				}
			}
			return out
		},
	})
}

var _ = rpc.ErrShutdown

// short keeps the constant head of a randomly named temp file or directory.
func short(n string) string {
	if len(n) > 6 {
		return n[:6] + "*"
	}
	return n
}

// shortAddr replaces the random parts of "domain unix|/tmp/.../pluginNNN" by stars.
func shortAddr(l string) string {
	dom, a, _ := strings.Cut(l, " ")
	if i := strings.IndexByte(a, '|'); i >= 0 && strings.HasPrefix(a, "unix|") {
		return dom + " unix|" + short(filepath.Base(filepath.Dir(a[i+1:]))) + "/" + short(filepath.Base(a[i+1:]))
	}
	return l
}

// failT records a "the working session did not work" verdict, which like every latency / success verdict is
// only meaningful when no timer was made to fire early (TIME deviation).
func failT(x *vs.Exec, f string, a ...any) {
	if x.TimeDevs == 0 {
		x.Fail("T", f, a...)
	} else {
		x.Put("session-disturbed", true)
	}
}
