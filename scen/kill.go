package scen

import (
	"bytes"
	"crypto/tls"
	"crypto/x509"
	"encoding/base64"
	"fmt"
	"io"
	"net/rpc"
	"os"
	"strings"
	"sync/atomic"
	"time"

	"context"
	plugin "github.com/hashicorp/go-plugin"
	grpctest "github.com/hashicorp/go-plugin/test/grpc"
	"google.golang.org/grpc"

	"verif/engine/explore"
	"verif/engine/vs"
)

// liveClient is one started Client with its scripted plugin.
type liveClient struct {
	r     *scriptRunner
	cl    *plugin.Client
	rp    *tagRPCPlugin
	gp    *fullGRPCPlugin
	block chan struct{}
	proto string
}

type liveOpts struct {
	proto            string // netrpc | grpc | grpcmux
	exitDelay        time.Duration
	ignoreQuit       bool
	noLine           bool
	managed          bool
	timeout          time.Duration
	onExit           func()
	preLine          func(r *scriptRunner)
	pStdout, pStderr io.Reader // what the plugin process writes to its stdout/stderr after serving begins
	syncOut, syncErr io.Writer // ClientConfig.SyncStdout / SyncStderr
	autoMTLS         bool      // ClientConfig.AutoMTLS; the scripted plugin does what Serve does with PLUGIN_CLIENT_CERT (gRPC only)
	tlsAuto          bool
	badLines         string // not a plugin: writes this to stdout instead of serving, then lives on
	realStdout       []byte // written to the process's real stdout right after the handshake line
}

func newLive(x *vs.Exec, o liveOpts) *liveClient {
	lc := &liveClient{proto: o.proto, block: make(chan struct{})}
	var ps plugin.PluginSet
	so := serveOpts{exitDelay: o.exitDelay, ignoreQuit: o.ignoreQuit, onExit: o.onExit, preLine: o.preLine, stdout: o.pStdout, stderr: o.pStderr, realStdout: o.realStdout}
	if o.proto == "netrpc" {
		lc.rp = &tagRPCPlugin{mk: func() *tagRPCServer { return &tagRPCServer{tag: "obj", block: lc.block} }}
		ps = plugin.PluginSet{"p": lc.rp, "bad": failingRPCPlugin{}}
		so.proto = "netrpc"
	} else {
		lc.gp = &fullGRPCPlugin{block: lc.block}
		ps = plugin.PluginSet{"p": lc.gp}
		so.proto = "grpc"
		so.mux = o.proto == "grpcmux"
	}
	so.plugins = ps
	script := servePlugin(so)
	if o.autoMTLS {
		script = func(r *scriptRunner) {
			clientCert := ""
			for _, e := range r.env {
				if strings.HasPrefix(e, "PLUGIN_CLIENT_CERT=") {
					clientCert = strings.TrimPrefix(e, "PLUGIN_CLIENT_CERT=")
				}
			}
			pool := x509.NewCertPool()
			pool.AppendCertsFromPEM([]byte(clientCert))
			cp, kp, err := plugin.VGenerateCert() // the plugin's one-time certificate, made the way Serve makes it
			if err != nil {
				r.x.Fail("ENGINE", "plugin certificate: %v", err)
				return
			}
			c, _ := tls.X509KeyPair(cp, kp)
			so2 := so
			so2.certField = base64.RawStdEncoding.EncodeToString(c.Certificate[0])
			so2.tls = &tls.Config{Certificates: []tls.Certificate{c}, ClientAuth: tls.RequireAndVerifyClientCert, ClientCAs: pool, RootCAs: pool, MinVersion: tls.VersionTLS12, ServerName: "localhost"}
			servePlugin(so2)(r)
		}
	}
	if o.noLine {
		script = func(r *scriptRunner) { r.waitKilled() }
	}
	if o.badLines != "" {
		script = func(r *scriptRunner) {
			for _, l := range strings.SplitAfter(o.badLines, "\n") {
				io.WriteString(r.stdout, l)
			}
			r.waitKilled()
		}
	}
	lc.r = newScriptRunner(x, script)
	if o.timeout == 0 {
		o.timeout = 3 * time.Second
	}
	cfg := &plugin.ClientConfig{
		HandshakeConfig:     plugin.HandshakeConfig{MagicCookieKey: "VK", MagicCookieValue: "vv", ProtocolVersion: 1},
		Plugins:             ps,
		AllowedProtocols:    []plugin.Protocol{plugin.ProtocolNetRPC, plugin.ProtocolGRPC},
		StartTimeout:        o.timeout,
		Logger:              nullLogger(),
		RunnerFunc:          lc.r.runnerFunc,
		GRPCBrokerMultiplex: o.proto == "grpcmux",
		Managed:             o.managed,
		AutoMTLS:            o.autoMTLS,
		SyncStdout:          o.syncOut,
		SyncStderr:          o.syncErr,
		UnixSocketConfig:    &plugin.UnixSocketConfig{TempDir: os.Getenv("TMPDIR")},
	}
	lc.cl = plugin.NewClient(cfg)
	x.OnCleanup(func() {
		lc.r.exit()
		if lc.r.tmpDir != "" {
			os.RemoveAll(lc.r.tmpDir)
		}
	})
	return lc
}

// connect starts the client, connects and dispenses; returns the dispensed object.
func (lc *liveClient) connect() (interface{}, error) {
	cp, err := lc.cl.Client()
	if err != nil {
		return nil, err
	}
	return cp.Dispense("p")
}

// call performs one unary call on the dispensed object (blocks while lc.block is open if slow).
func (lc *liveClient) call(obj interface{}, slow bool) error {
	if lc.proto == "netrpc" {
		var out string
		m := "Plugin.Tag"
		if slow {
			m = "Plugin.Slow"
		}
		return obj.(*rpc.Client).Call(m, 0, &out)
	}
	cc := obj.(*grpc.ClientConn)
	if slow {
		_, err := grpctest.NewTestClient(cc).Double(context.Background(), &grpctest.TestRequest{Input: 2})
		return err
	}
	_, err := pingTag(context.Background(), cc)
	return err
}

// kill_plugin — C04. params: proto, beh, pat.
func init() {
	explore.Register(&explore.Scenario{
		Name:    "kill_plugin",
		Horizon: 150 * time.Second,
		Settle:  4 * time.Second,
		Body: func(x *vs.Exec, p explore.Params) {
			x.Hold()
			beh, pat := p["beh"], p["pat"]
			n := 1
			if pat == "cleanup" {
				n = 3
			}
			var lcs []*liveClient
			behs := []string{beh}
			if pat == "cleanup" {
				behs = []string{beh, "exit0", "nohandshake"} // mixed states
			}
			marker := map[*liveClient]*bool{}
			for i := 0; i < n; i++ {
				b := behs[i%len(behs)]
				o := liveOpts{proto: p["proto"], managed: pat == "cleanup"}
				switch b {
				case "exit1000":
					o.exitDelay = time.Second
				case "exit1900":
					o.exitDelay = 1900 * time.Millisecond
				case "ignore", "busy-ignore":
					o.ignoreQuit = true
				case "nohandshake":
					o.noLine = true
					o.timeout = 2 * time.Second
				case "badhandshake": // a program that is not a plugin: prints a usage text and keeps running
					o.badLines = "usage: tool [flags]\n  -h  help\n  -v  version\n"
				}
				if p["sink"] == "blocked" && i == 0 {
					// the plugin prints something, and the application's SyncStdout writer cannot take it before Kill has returned
					// (the application calls Kill while holding the lock its sink takes, or stopped draining a pipe)
					bw := &blockedWriter{release: make(chan struct{})}
					x.Put("sink", bw)
					o.syncOut = bw
					o.pStdout = bytes.NewReader(pattern(3, 300))
				}
				done := false
				o.onExit = func() { done = true }
				lc := newLive(x, o)
				marker[lc] = &done
				lcs = append(lcs, lc)
				obj, err := lc.connect()
				x.Obs("connect%d err=%v", i, err != nil)
				if b == "nohandshake" || b == "badhandshake" {
					continue
				}
				if err != nil {
					x.Fail("ENGINE", "connect: %v", err)
					return
				}
				if err := lc.call(obj, false); err != nil {
					x.Fail("ENGINE", "call: %v", err)
					return
				}
				switch b {
				case "frozen":
					lc.r.dom.Freeze()
				case "crashed":
					lc.r.exit()
					x.Pause(100 * time.Millisecond) // the wait goroutine notices the exit
				case "busy", "busy-ignore":
					x.Go("host", func() { lc.call(obj, true) })
				}
			}
			x.Put("lcs", lcs)
			x.Put("marker", marker)
			x.Release()
			d := newDone(x)
			x.Put("d", d)
			lc := lcs[0]
			kill := func(name string) func() {
				return func() {
					t0 := x.Now()
					func() {
						defer func() {
							if rec := recover(); rec != nil {
								x.Fail("PANIC", "%s panicked: %v", name, rec)
							}
						}()
						lc.cl.Kill()
					}()
					x.Put("dt:"+name, x.Now()-t0)
					x.Put("exitedAtReturn:"+name, lc.r.hasExited())
					x.Put("ExitedAtReturn:"+name, lc.cl.Exited())
				}
			}
			switch pat {
			case "one":
				d.goIn("host", "Kill#1", kill("Kill#1"))
			case "two":
				d.goIn("host", "Kill#1+2", func() { kill("Kill#1")(); kill("Kill#2")() })
			case "conc2":
				d.goIn("host", "Kill#1", kill("Kill#1"))
				d.goIn("host", "Kill#2", kill("Kill#2"))
			case "conc3":
				d.goIn("host", "Kill#1", kill("Kill#1"))
				d.goIn("host", "Kill#2", kill("Kill#2"))
				d.goIn("host", "Kill#3", kill("Kill#3"))
			case "cleanup":
				d.goIn("host", "CleanupClients", func() {
					t0 := x.Now()
					plugin.CleanupClients()
					x.Put("dt:CleanupClients", x.Now()-t0)
				})
			}
		},
		Check: func(x *vs.Exec, p explore.Params) {
			plugin.VResetManaged()
			desc := fmt.Sprintf("proto=%s plugin=%s pattern=%s", p["proto"], p["beh"], p["pat"])
			if bw, ok := x.Data["sink"].(*blockedWriter); ok {
				desc += " SyncStdout-writer-blocked-until-after-Kill"
				defer close(bw.release)
			}
			d, _ := x.Data["d"].(*done)
			if d == nil {
				if len(x.Violations()) == 0 {
					x.Fail("L", "setup never finished: %v [%s]", x.EndBlocked, desc)
				}
				return
			}
			lcs := x.Data["lcs"].([]*liveClient)
			marker := x.Data["marker"].(map[*liveClient]*bool)
			for _, n := range d.names {
				if x.Data["done:"+n] != true {
					x.Fail("L", "%s never returned [%s]", n, desc)
					continue
				}
			}
			for k, v := range x.Data {
				if strings.HasPrefix(k, "dt:") {
					dt := v.(time.Duration)
					// a stopped plugin is detected by the transport's keep-alive (yamux: 30 s + 10 s) or by
					// the 2 s shutdown deadline; everything else within the 2 s grace period
					bound := 3*time.Second + 500*time.Millisecond
					if p["beh"] == "frozen" {
						bound = 45 * time.Second
					}
					if p["pat"] == "cleanup" || strings.HasPrefix(p["pat"], "conc") {
						bound += 2 * time.Second
					}
					if x.TimeDevs == 0 && dt > bound {
						x.Fail("T", "%s took %v (bound %v) [%s]", k[3:], dt, bound, desc)
					}
				}
				if strings.HasPrefix(k, "exitedAtReturn:") && v == false {
					x.Fail("L", "plugin process still running when %s returned [%s]", k[15:], desc)
				}
			}
			allDone := true
			for _, n := range d.names {
				if x.Data["done:"+n] != true {
					allDone = false
				}
			}
			if allDone {
				for i, lc := range lcs {
					if lc.r.startCount() > 0 && !lc.r.hasExited() {
						x.Fail("L", "plugin %d still running after %s returned [%s]", i, p["pat"], desc)
					}
					if lc.r.startCount() > 0 && !lc.cl.Exited() {
						x.Fail("L", "Client.Exited() is false after %s returned (plugin %d) [%s]", p["pat"], i, desc)
					}
				}
			}
			// graceful clause: single and sequential patterns, no timer deviation
			if (p["pat"] == "one" || p["pat"] == "two") && x.TimeDevs == 0 && allDone {
				lc := lcs[0]
				switch p["beh"] {
				case "exit0", "exit1000", "exit1900", "busy":
					if lc.r.killsAlive > 0 {
						x.Fail("S", "plugin that exits within the grace period was force-killed while still running [%s]", desc)
					}
					if !*marker[lc] {
						x.Fail("S", "plugin was not allowed to finish its cleanup [%s]", desc)
					}
				case "ignore", "busy-ignore":
					if lc.r.killCount() == 0 {
						x.Fail("S", "plugin that ignores the shutdown request was never force-killed [%s]", desc)
					}
				}
			}
			for _, e := range x.EndBlocked {
				x.Fail("L", "blocked forever: %s [%s]", e, desc)
			}
			for _, lc := range lcs {
				close(lc.block)
			}
		},
		Conform: func() []explore.Params {
			return []explore.Params{{"proto": "netrpc", "beh": "exit0", "pat": "one"}, {"proto": "grpc", "beh": "exit0", "pat": "two"}, {"proto": "grpcmux", "beh": "exit1000", "pat": "one"},
				{"proto": "netrpc", "beh": "ignore", "pat": "one"}, {"proto": "grpc", "beh": "exit0", "pat": "conc2"}}
		},
		Instances: func(tier string) []explore.Params {
			var out []explore.Params
			if tier == "sink" {
				for _, proto := range []string{"netrpc", "grpc", "grpcmux"} {
					for _, b := range []string{"exit0", "exit1000", "ignore", "crashed"} {
						for _, pt := range []string{"one", "cleanup"} {
							out = append(out, explore.Params{"proto": proto, "beh": b, "pat": pt, "sink": "blocked"})
						}
					}
				}
				return out
			}
			behs := []string{"exit0", "exit1000", "exit1900", "ignore", "frozen", "crashed", "nohandshake", "badhandshake", "busy", "busy-ignore"}
			for _, proto := range []string{"netrpc", "grpc", "grpcmux"} {
				for _, b := range behs {
					pats := []string{"one", "two"}
					if tier == "conc" {
						pats = []string{"conc2", "cleanup"}
					} else if tier == "conc-thorough" {
						pats = []string{"conc2", "conc3", "cleanup"}
					}
					for _, pt := range pats {
						out = append(out, explore.Params{"proto": proto, "beh": b, "pat": pt})
					}
				}
			}
			return out
		},
	})
}

// blockedWriter is an application's sync writer that cannot take anything until it is released.
type blockedWriter struct {
	release chan struct{}
	got     atomic.Int64
}

func (b *blockedWriter) Write(p []byte) (int, error) {
	<-b.release
	b.got.Add(int64(len(p)))
	return len(p), nil
}
