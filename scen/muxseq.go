package scen

import (
	"context"
	"fmt"
	"strconv"
	"strings"
	"time"

	grpctest "github.com/hashicorp/go-plugin/test/grpc"
	"google.golang.org/grpc"
	"google.golang.org/grpc/backoff"
	"google.golang.org/grpc/keepalive"

	"verif/engine/explore"
	"verif/engine/vs"
)

// grpcmux_seq — C08: brokered connections over the multiplexed gRPC broker,
// established strictly one at a time. params: seq = comma separated
// establishments "<acceptside><order><gapms>": acceptside h|p (the other side
// dials), order A (AcceptAndServe issued first) | D (Dial + first RPC first).
func init() {
	explore.Register(&explore.Scenario{
		Name:    "grpcmux_seq",
		Horizon: 90 * time.Second,
		Body: func(x *vs.Exec, p explore.Params) {
			x.Hold()
			pr, err := newGRPCPair(x, grpcPairOpts{mux: true, mainAge: ms(p["mainage"])})
			if err != nil {
				x.Fail("ENGINE", "pair setup: %v", err)
				return
			}
			x.Release()
			x.Put("pair", pr)
			type est struct {
				id  uint32
				cc  *grpc.ClientConn
				tag string
			}
			var made []est
			// per id: the server serving it and a channel closed when its AcceptAndServe has returned
			type serving struct {
				srv  chan *grpc.Server
				done chan struct{}
			}
			served := map[uint32]*serving{}
			lastID := uint32(0)
			pingAll := func(when string) {
				ctx, cancel := context.WithTimeout(context.Background(), 20*time.Second)
				defer cancel()
				if err := pr.gc.Ping(); err != nil {
					x.Put("mainfail", fmt.Sprintf("%s: main Ping: %v", when, err))
				}
				if tag, err := pingTag(ctx, pr.g.cc); err != nil {
					x.Put("mainfail", fmt.Sprintf("%s: main PingPong: %v", when, err))
				} else if tag != "main" {
					x.Fail("S", "%s: main connection answered by %q", when, tag)
				}
				for _, e := range made {
					tag, err := pingTag(ctx, e.cc)
					if err != nil {
						x.Put("earlierfail", fmt.Sprintf("%s: earlier brokered connection id %d: %v", when, e.id, err))
					} else if tag != e.tag {
						x.Fail("S", "%s: earlier connection for id %d answered by %q%s", when, e.id, tag, raceNote(x))
					}
				}
			}
			for i, e := range strings.Split(p["seq"], ",") {
				id := uint32(20 + i)
				if b, n, ok := strings.Cut(e, "#"); ok { // "<est>#<id>": a caller-chosen id (ids are plain uint32 values; NextId merely starts at 1)
					e = b
					v, _ := strconv.ParseUint(n, 10, 32)
					id = uint32(v)
				}
				reuse := strings.HasSuffix(e, "r")
				e = strings.TrimSuffix(e, "r")
				as, order, gap := e[0], e[1], ms(e[2:])
				ab, adom := pr.side(as)
				db, ddom := pr.side(other(as))
				if reuse && lastID != 0 {
					// "<est>r": the previous establishment's server is stopped, its AcceptAndServe has returned
					// (listener closed) and its connection is closed; the same id is then accepted and dialled
					// afresh (an id must not be accepted more than once *at one time*)
					id = lastID
					sv := served[id]
					stopped := make(chan struct{})
					x.Go("host", func() {
						defer close(stopped)
						select {
						case srv := <-sv.srv:
							srv.Stop()
							<-sv.done
						case <-sv.done:
						}
					})
					<-stopped
					for k, m := range made {
						if m.id == id {
							m.cc.Close()
							made = append(made[:k:k], made[k+1:]...)
							break
						}
					}
					vs.Point("previous-closed")
				}
				lastID = id
				tag := fmt.Sprintf("id=%d", id)
				if reuse {
					tag += strings.Repeat("r", i) // generations of a re-accepted id answer differently
				}
				res := make(chan est, 1)
				sv := &serving{srv: make(chan *grpc.Server, 1), done: make(chan struct{})}
				served[id] = sv
				accept := func() {
					defer close(sv.done)
					ab.AcceptAndServe(id, func(opts []grpc.ServerOption) *grpc.Server {
						if f := ms(p["factory"]); f > 0 { // the accepting side needs this long between Accept and Serve (slow service set-up)
							x.Pause(f)
						}
						if a := ms(p["maxage"]); a > 0 {
							// the brokered server recycles its connections (GOAWAY after that age): the dialler's ClientConn then
							// re-establishes its transport through the broker's dialer by itself
							opts = append(opts, grpc.KeepaliveParams(keepalive.ServerParameters{MaxConnectionAge: a, MaxConnectionAgeGrace: time.Second}))
						}
						s := grpc.NewServer(opts...)
						grpctest.RegisterPingPongServer(s, &ppServer{tag: tag})
						sv.srv <- s
						return s
					})
				}
				dial := func() {
					t0 := x.Now()
					var dopts []grpc.DialOption
					var copts []grpc.CallOption
					if c := ms(p["connect"]); c > 0 && i == 0 {
						// the first connection is dialled with a connect timeout and back-off of the caller's own (shorter than
						// the broker's 5 s waits); its first call waits for the connection to come up
						dopts = append(dopts, grpc.WithConnectParams(grpc.ConnectParams{MinConnectTimeout: c, Backoff: backoff.Config{BaseDelay: c, Multiplier: 1, MaxDelay: c}}))
						copts = append(copts, grpc.WaitForReady(true))
					}
					cc, err := db.DialWithOptions(id, dopts...)
					if err != nil {
						x.Put(fmt.Sprintf("derr%d", 20+i), fmt.Sprintf("Dial: %v", err))
						res <- est{id: id}
						return
					}
					x.OnCleanup(func() { cc.Close() })
					ctx, cancel := context.WithTimeout(context.Background(), 20*time.Second)
					defer cancel()
					var got string
					if r, e := grpctest.NewPingPongClient(cc).Ping(ctx, &grpctest.PingRequest{}, copts...); e != nil {
						err = e
					} else {
						got = r.Msg
					}
					x.Obs("est%d err=%v tag=%s", id, err != nil, got)
					if err != nil {
						x.Put(fmt.Sprintf("derr%d", 20+i), fmt.Sprintf("first RPC: %v (after %v)", err, x.Now()-t0))
						cc.Close()
						res <- est{id: id}
						return
					}
					if got != tag {
						x.Fail("S", "misrouted: connection dialled for id %d was answered by %q%s", id, got, raceNote(x))
					}
					res <- est{id: id, cc: cc, tag: tag}
				}
				// traffic=1: calls on the main connection and on every earlier brokered connection
				// run concurrently with this establishment
				var traffic chan struct{}
				if p["traffic"] == "1" {
					traffic = make(chan struct{})
					when := fmt.Sprintf("during establishment %d (%s)", i+1, e)
					x.Go("host", func() {
						defer close(traffic)
						pingAll(when)
					})
				}
				if a := ms(p["mainage"]); a > 0 {
					// the plugin's main server recycles its connections: the control connection has gone idle by now; the next call
					// on it makes gRPC connect again by itself (an unannounced stream), shortly before this establishment
					x.Pause(a + 1500*time.Millisecond)
					x.Go("host", func() {
						if err := pr.gc.Ping(); err != nil {
							x.Put("mainfail", fmt.Sprintf("Ping on the recycled control connection: %v", err))
						}
					})
					x.Pause(300 * time.Millisecond)
				}
				if order == 'A' {
					x.Go(adom, accept)
					x.Pause(gap)
					x.Go(ddom, dial)
				} else {
					x.Go(ddom, dial)
					x.Pause(gap)
					x.Go(adom, accept)
				}
				r := <-res
				if traffic != nil {
					<-traffic
				}
				vs.Point("established")
				if r.cc != nil {
					made = append(made, r)
				}
				if p["redial"] != "" && r.cc != nil {
					if p["redial"] != "1" { // redial=<ms>: the second connection comes that long after the first
						x.Pause(ms(p["redial"]))
					}
					// a second connection to the same id while its listener is serving (what gRPC does by itself
					// when it reconnects): it must reach the same server and disturb nobody
					rd := make(chan struct{})
					x.Go(ddom, func() {
						defer close(rd)
						cc, err := db.Dial(id)
						if err != nil {
							x.Put(fmt.Sprintf("derr%d", 20+i), fmt.Sprintf("second Dial: %v", err))
							return
						}
						x.OnCleanup(func() { cc.Close() })
						ctx, cancel := context.WithTimeout(context.Background(), 20*time.Second)
						defer cancel()
						got, err := pingTag(ctx, cc)
						x.Obs("redial%d err=%v tag=%s", id, err != nil, got)
						if err != nil {
							x.Put(fmt.Sprintf("derr%d", 20+i), fmt.Sprintf("first RPC on the second connection: %v", err))
						} else if got != tag {
							x.Fail("S", "misrouted: second connection dialled for id %d was answered by %q%s", id, got, raceNote(x))
						}
						cc.Close()
					})
					<-rd
				}
				pingAll(fmt.Sprintf("after establishment %d (%s)", i+1, e))
			}
			if r := ms(p["rest"]); r > 0 {
				x.Pause(r)
				pingAll(fmt.Sprintf("%v after the last establishment", r))
				x.Pause(r)
				pingAll(fmt.Sprintf("%v after the last establishment", 2*r))
			}
			x.Put("completed", true)
		},
		Check: func(x *vs.Exec, p explore.Params) {
			pr, _ := x.Data["pair"].(*grpcPair)
			if pr == nil {
				if len(x.Violations()) == 0 {
					x.Fail("L", "setup never finished: %v", x.EndBlocked)
				}
				return
			}
			if x.Data["completed"] != true {
				x.Fail("L", "driver never finished (blocked: %s)%s", strings.Join(x.EndBlocked, "; "), raceNote(x))
			}
			if x.TimeDevs == 0 {
				for i, e := range strings.Split(p["seq"], ",") {
					e, _, _ = strings.Cut(e, "#")
					e = strings.TrimSuffix(e, "r")
					if ms(e[2:]) < 5*time.Second {
						if v, ok := x.Data[fmt.Sprintf("derr%d", 20+i)]; ok {
							x.Fail("T", "establishment %d (%s) inside the window failed: %v", i+1, e, v)
						}
					}
				}
			}
			// The main control connection and earlier connections must keep working. Like every
			// "succeeds" verdict this is asserted only when no TIME deviation was taken: stalling a
			// goroutine for 5 virtual seconds legitimately makes go-plugin's own timeouts fire
			// (e.g. the muxer's 5 s wait for its session in session()), which is the scheduler's
			// doing, not a defect (DESIGN §2.6).
			if x.TimeDevs == 0 {
				if v, ok := x.Data["mainfail"]; ok {
					x.Fail("L", "main control connection broken: %v", v)
				}
				if v, ok := x.Data["earlierfail"]; ok {
					x.Fail("L", "%v", v)
				}
				select {
				case <-pr.srv.VDone():
					x.Fail("L", "the plugin's main gRPC server stopped serving during the session")
				default:
				}
			}
			for _, e := range x.EndBlocked {
				x.Fail("L", "blocked forever: %s%s", e, raceNote(x))
			}
			x.GoFree(func() { pr.gc.Close(); pr.srv.Stop() })
			x.Quiesce(12 * time.Second)
			for _, g := range x.Goroutines("hashicorp/go-plugin.") {
				x.Fail("L", "goroutine left behind: %s%s", g, raceNote(x))
			}
		},
		Conform: func() []explore.Params {
			return []explore.Params{{"seq": "pA0"}, {"seq": "hD0"}, {"seq": "pA0,hD0"}}
		},
		Instances: func(tier string) []explore.Params {
			var one []string
			for _, s := range []string{"p", "h"} {
				for _, o := range []string{"A", "D"} {
					for _, g := range []string{"0", "1000", "4900"} {
						one = append(one, s+o+g)
					}
				}
			}
			var out []explore.Params
			switch tier {
			case "single":
				for _, a := range one {
					out = append(out, explore.Params{"seq": a})
				}
			case "pairs":
				for _, a := range one {
					for _, b := range one {
						out = append(out, explore.Params{"seq": a + "," + b})
					}
				}
			case "redial":
				for _, a := range []string{"pA0", "pD0", "hA0", "hD0", "pA1000", "hD1000"} {
					out = append(out, explore.Params{"seq": a, "redial": "1"})
				}
				out = append(out, explore.Params{"seq": "pA0,hA0", "redial": "1"}, explore.Params{"seq": "hD0,pD0", "redial": "1"})
				// the second connection long after the first (past every 5 s timer of the broker)
				for _, a := range []string{"pA0", "hA0", "pD1000", "hD0"} {
					out = append(out, explore.Params{"seq": a, "redial": "6000"})
				}
			case "recycled":
				// brokered servers that recycle their connections after 6 s; the connections are used again 9 s and 18 s later
				for _, a := range []string{"pA0", "hA0", "pD0", "hD0", "pA0,hA0", "hA0,pA0"} {
					out = append(out, explore.Params{"seq": a, "maxage": "6000", "rest": "9000"})
				}
			case "slow-factory":
				// the accepting side starts serving 2.5 s / 7 s after it accepted the id (the dialled stream has been waiting)
				for _, f := range []string{"2500", "7000"} {
					for _, a := range []string{"pA0", "pD0", "hA0", "hD0"} {
						out = append(out, explore.Params{"seq": a, "factory": f})
					}
					out = append(out, explore.Params{"seq": "pA0,hA0", "factory": f})
				}
			case "recycled-main":
				// the plugin author's GRPCServer constructor sets MaxConnectionAge 2 s on the main server: the control connection
				// is re-established by gRPC itself (a stream nobody announced) 300 ms before each brokered establishment
				for _, a := range []string{"pA0", "pD0", "hA0", "hD0", "pA0,pA0", "pA0,hA0", "pD0,pA0"} {
					out = append(out, explore.Params{"seq": a, "mainage": "2000", "notime": "1"})
				}
			case "short-connect":
				// the first connection is dialled before it is accepted, with a 2 s connect timeout and back-off of the dialler's
				// own; the acceptor arrives after 3 s (during the back-off); then further connections (schedules and select choices, no timer deviations:
				// the timers here are the caller's)
				for _, a := range []string{"hD3000", "pD3000"} {
					out = append(out, explore.Params{"seq": a, "connect": "2000", "notime": "1"})
					for _, b := range []string{"hA0", "pA0", "hD0", "pD0"} {
						out = append(out, explore.Params{"seq": a + "," + b, "connect": "2000", "notime": "1"})
					}
				}
			case "ids":
				// caller-chosen ids at the edges of uint32, alone and next to an ordinary id
				for _, id := range []string{"0", "1", "2147483648", "4294967295"} {
					for _, a := range []string{"pA0", "pD0", "hA0", "hD0", "hD1000"} {
						out = append(out, explore.Params{"seq": a + "#" + id})
					}
					out = append(out, explore.Params{"seq": "hA0#" + id + ",pA0"}, explore.Params{"seq": "pD0,hD0#" + id})
				}
			case "reuse":
				// the same id accepted again after its first listener was closed, each side accepting, both orders
				for _, a := range []string{"pA0", "hA0", "pD0", "hD0"} {
					for _, b := range []string{"pA0r", "hA0r", "pD0r", "hD0r", "hA1000r", "pD1000r"} {
						out = append(out, explore.Params{"seq": a + "," + b})
					}
				}
				out = append(out, explore.Params{"seq": "hA0,hA0r,hA0"}, explore.Params{"seq": "pA0,pD0r,hD0"}, explore.Params{"seq": "hD0,hD0r,hD0r"})
			case "traffic-single":
				for _, a := range one {
					out = append(out, explore.Params{"seq": a, "traffic": "1"})
				}
			case "traffic-pairs":
				short := []string{"pA0", "pD0", "hA0", "hD0", "pA1000", "hD1000"}
				for _, a := range short {
					for _, b := range short {
						out = append(out, explore.Params{"seq": a + "," + b, "traffic": "1"})
					}
				}
			case "triples":
				short := []string{"pA0", "pD0", "hA0", "hD0", "pD4900", "hD4900"}
				for _, a := range short {
					for _, b := range short {
						for _, c := range short {
							out = append(out, explore.Params{"seq": a + "," + b + "," + c})
						}
					}
				}
			}
			return out
		},
	})
}

// raceNote marks verdicts reached in an execution where a go-plugin timer was
// made to fire although some goroutine could still run (a TIME deviation), so
// that the known knock-timeout finding is keyed on that circumstance.
func raceNote(x *vs.Exec) string {
	if x.TimeDevs > 0 {
		return " [after a timer fired during a pending step: TIME deviation]"
	}
	return ""
}
