package scen

import (
	"bytes"
	"context"
	"fmt"
	"net"
	"os"
	"path/filepath"
	"strings"
	"sync/atomic"
	"time"

	plugin "github.com/hashicorp/go-plugin"
	"github.com/hashicorp/go-plugin/runner"
	grpctest "github.com/hashicorp/go-plugin/test/grpc"
	"google.golang.org/grpc"

	"verif/engine/explore"
	"verif/engine/vnet"
	"verif/engine/vs"
)

// rawAttached follows the hand-written plugin "process".
type rawAttached struct {
	done   chan struct{}
	closed atomic.Bool
	forced atomic.Bool
}

func (a *rawAttached) exit() {
	if a.closed.CompareAndSwap(false, true) {
		close(a.done)
	}
}
func (a *rawAttached) Wait(context.Context) error { <-a.done; return nil }
func (a *rawAttached) Kill(context.Context) error {
	if !a.closed.Load() {
		a.forced.Store(true)
	}
	return nil
}
func (a *rawAttached) ID() string                                        { return "raw-plugin" }
func (a *rawAttached) PluginToHost(n, ad string) (string, string, error) { return n, ad, nil }
func (a *rawAttached) HostToPlugin(n, ad string) (string, string, error) { return n, ad, nil }

// raw_grpc_peer — the real host side (Client, GRPCClient, GRPCBroker, stdio client) against a HAND-WRITTEN gRPC plugin:
// a server that implements go-plugin's .proto services directly, the way a plugin in another language does, and uses
// the freedom they leave. params: mode =
//
//	broker-eos  (C07) the plugin opens 4 brokered servers, announces them on the broker stream and ends that stream at
//	            once; the host dials all four inside the window: each connection is answered by its id's server
//	broker-emptyknock  like broker-eos with the stream kept open, every announcement carrying an empty knock sub-message
//	broker-late-eos    the HOST accepts id 9; the plugin receives the announcement, ends the broker stream, dials, and keeps
//	            calling: every call is answered by the server accepted on id 9
//	stdio-big   (C11) the plugin forwards its output in chunks of whatever size read() returned (1000 B, 100 B, 64 KiB,
//	            10 B ...): every byte arrives on the right sync writer, in order
func init() {
	explore.Register(&explore.Scenario{
		Name:    "raw_grpc_peer",
		Horizon: 60 * time.Second,
		Settle:  3 * time.Second,
		Body: func(x *vs.Exec, p explore.Params) {
			x.Hold()
			dir, _ := os.MkdirTemp(os.Getenv("TMPDIR"), "rawplugin")
			x.OnCleanup(func() { os.RemoveAll(dir) })
			pd := x.Domain("plugin")
			_ = pd
			var opts plugin.VRawPluginOpts
			var wantOut, wantErr []byte
			ready := make(chan error, 1)
			hostInfo := make(chan plugin.VRawConnInfo, 1)
			var mainLn interface {
				Addr() interface{ String() string }
			}
			_ = mainLn
			var addr string
			stopCh := make(chan func(), 1)
			att := &rawAttached{done: make(chan struct{})}
			x.Go("plugin", func() {
				if p["mode"] == "broker-eos" || p["mode"] == "broker-emptyknock" {
					for i := 1; i <= 4; i++ {
						path := filepath.Join(dir, fmt.Sprintf("b%d", i))
						ln, err := vnet.Listen("unix", path)
						if err != nil {
							ready <- err
							return
						}
						s := grpc.NewServer()
						grpctest.RegisterPingPongServer(s, &ppServer{tag: fmt.Sprintf("id=%d", i)})
						go s.Serve(ln)
						x.OnCleanup(s.Stop)
						opts.Infos = append(opts.Infos, plugin.VRawConnInfo{ID: uint32(i), Network: "unix", Address: path, EmptyKnock: p["mode"] == "broker-emptyknock"})
					}
					opts.EndBrokerStream = p["mode"] == "broker-eos"
				}
				if p["mode"] == "stdio-big" {
					for i, c := range []struct{ ch, n int }{{1, 1000}, {2, 100}, {1, 65536}, {1, 10}, {2, 10}, {2, 70000}, {1, 1}} {
						d := pattern(byte(0x30+i), c.n)
						opts.Stdio = append(opts.Stdio, plugin.VRawStdio{Channel: c.ch, Data: d})
						if c.ch == 1 {
							wantOut = append(wantOut, d...)
						} else {
							wantErr = append(wantErr, d...)
						}
					}
				}
				if strings.HasPrefix(p["mode"], "stdio-status-") {
					// one chunk on each channel, then the stdio stream ends with a status code (Internal 13, Unknown 2, OK-less
					// shapes a gRPC server in another language produces when its handler fails)
					opts.Stdio = []plugin.VRawStdio{{Channel: 1, Data: []byte("out")}, {Channel: 2, Data: []byte("err")}}
					opts.StdioEndCode = atoi(strings.TrimPrefix(p["mode"], "stdio-status-"))
					opts.OnStop = att.exit // the process exits when it has been asked to shut down
				}
				if p["mode"] == "slow-ack" {
					// (C04) the Shutdown handler needs 1.5 s to acknowledge, the process then finishes its clean-up and exits by
					// itself 1 s later: inside the grace period that begins with the acknowledged request
					opts.ShutdownAck = func() { x.Pause(1500 * time.Millisecond) }
					opts.StopAfterAck = func(stop func()) { x.Pause(time.Second); x.Put("cleanup-done", true); stop() }
					opts.OnStop = att.exit
				}
				if p["mode"] == "broker-late-eos" {
					// the plugin waits for the host's announcement of id 9, ends the broker stream (it has what it needs) and dials
					opts.EndAfterHostInfo = true
					opts.OnHostInfo = func(ci plugin.VRawConnInfo) {
						select {
						case hostInfo <- ci:
						default:
						}
					}
				}
				ln, err := vnet.Listen("unix", filepath.Join(dir, "main"))
				if err != nil {
					ready <- err
					return
				}
				addr = filepath.Join(dir, "main")
				stopCh <- plugin.VServeRawPlugin(ln, opts)
				ready <- nil
			})
			if err := <-ready; err != nil {
				x.Fail("ENGINE", "raw plugin: %v", err)
				return
			}
			stop := <-stopCh
			x.OnCleanup(func() { stop(); att.exit() })
			x.Put("att", att)
			so, se := &lockedBuf{}, &lockedBuf{}
			gp := &fullGRPCPlugin{}
			ua, _ := vnet.ResolveUnixAddr("unix", addr)
			cl := plugin.NewClient(&plugin.ClientConfig{
				HandshakeConfig:  plugin.HandshakeConfig{MagicCookieKey: "VK", MagicCookieValue: "vv", ProtocolVersion: 1},
				Plugins:          plugin.PluginSet{"p": gp},
				AllowedProtocols: []plugin.Protocol{plugin.ProtocolGRPC},
				Logger:           nullLogger(),
				SyncStdout:       so,
				SyncStderr:       se,
				Reattach: &plugin.ReattachConfig{Protocol: plugin.ProtocolGRPC, ProtocolVersion: 1, Addr: ua, Pid: 1 << 22, Test: !strings.HasPrefix(p["mode"], "stdio-status-") && p["mode"] != "slow-ack",
					ReattachFunc: func() (runner.AttachedRunner, error) { return att, nil }},
			})
			x.OnCleanup(cl.Kill)
			x.Release()
			cp, err := cl.Client()
			if err != nil {
				failT(x, "Client(): %v", err)
				return
			}
			if _, err := cp.Dispense("p"); err != nil {
				failT(x, "Dispense: %v", err)
				return
			}
			switch p["mode"] {
			case "broker-eos", "broker-emptyknock":
				d := newDone(x)
				x.Put("d", d)
				for i := 1; i <= 4; i++ {
					id := uint32(i)
					d.goIn("host", fmt.Sprintf("dial%d", id), func() {
						cc, err := gp.cb.Dial(id)
						if err != nil {
							failT(x, "Dial(%d) inside the pending window: %v", id, err)
							return
						}
						defer cc.Close()
						ctx, cancel := context.WithTimeout(context.Background(), 8*time.Second)
						defer cancel()
						tag, err := pingTag(ctx, cc)
						x.Obs("dial%d err=%v tag=%s", id, err != nil, tag)
						if err != nil {
							failT(x, "first call on the connection dialled for id %d: %v", id, err)
						} else if tag != fmt.Sprintf("id=%d", id) {
							x.Fail("S", "misrouted: connection dialled for id %d was answered by %q", id, tag)
						}
					})
				}
			case "broker-late-eos":
				d := newDone(x)
				x.Put("d", d)
				x.Go("host", func() { // serves until the broker is closed
					gp.cb.AcceptAndServe(9, func(o []grpc.ServerOption) *grpc.Server {
						s := grpc.NewServer(o...)
						grpctest.RegisterPingPongServer(s, &ppServer{tag: "host-9"})
						return s
					})
				})
				d.goIn("plugin", "raw-dial9", func() {
					var ci plugin.VRawConnInfo
					select {
					case ci = <-hostInfo:
					case <-time.After(8 * time.Second):
						failT(x, "the hand-written plugin never received the host's announcement of id 9")
						return
					}
					cc, err := grpc.Dial("passthrough:///raw", grpc.WithInsecure(), grpc.WithContextDialer(func(ctx context.Context, _ string) (net.Conn, error) {
						return vnet.Dial(ci.Network, ci.Address)
					}))
					if err != nil {
						failT(x, "raw dial: %v", err)
						return
					}
					defer cc.Close()
					for k := 0; k < 4; k++ { // the first call, then more after the negotiation stream has long ended
						ctx, cancel := context.WithTimeout(context.Background(), 8*time.Second)
						tag, err := pingTag(ctx, cc)
						cancel()
						x.Obs("raw call %d err=%v tag=%s", k, err != nil, tag)
						if err != nil {
							failT(x, "call %d on the connection the plugin dialled for id 9 (the broker stream had ended): %v", k+1, err)
							return
						}
						if tag != "host-9" {
							x.Fail("S", "misrouted: the connection dialled for id 9 was answered by %q", tag)
						}
						x.Pause(1500 * time.Millisecond)
					}
				})
			case "stdio-status-13", "stdio-status-2", "stdio-status-8":
				x.Pause(time.Second)
				if err := cp.Ping(); err != nil {
					failT(x, "Ping after the stdio stream ended: %v", err)
				}
				cl.Kill()
				x.Put("killed", !att.forced.Load()) // (the leak verdict is about graceful exits)
			case "slow-ack":
				t0 := x.Now()
				cl.Kill()
				x.Put("killdt", x.Now()-t0)
				x.Put("slowack-killed", true)
			case "stdio-big":
				for i := 0; i < 200 && (so.Len() < len(wantOut) || se.Len() < len(wantErr)); i++ {
					x.Pause(100 * time.Millisecond)
				}
				x.Put("gotOut", so.Bytes())
				x.Put("gotErr", se.Bytes())
				x.Put("wantOut", wantOut)
				x.Put("wantErr", wantErr)
				if err := cp.Ping(); err != nil {
					failT(x, "Ping after the stdio traffic: %v", err)
				}
			}
			x.Put("completed", true)
		},
		Check: func(x *vs.Exec, p explore.Params) {
			if d, ok := x.Data["d"].(*done); ok {
				d.checkAll(x)
			}
			if x.Data["completed"] != true && len(x.Violations()) == 0 && x.Data["session-disturbed"] != true {
				x.Fail("L", "session never finished (blocked %v)", x.EndBlocked)
			}
			if p["mode"] == "stdio-big" && x.Data["completed"] == true {
				for _, s := range []string{"Out", "Err"} {
					got, want := x.Data["got"+s].([]byte), x.Data["want"+s].([]byte)
					if bytes.Equal(got, want) {
						continue
					}
					if x.TimeDevs > 0 && len(got) < len(want) && bytes.Equal(got, want[:len(got)]) {
						continue // only late
					}
					n := 0
					for n < len(got) && n < len(want) && got[n] == want[n] {
						n++
					}
					x.Fail("S", "SyncStd%s: received %d bytes, the hand-written plugin sent %d; first difference at offset %d", s, len(got), len(want), n)
				}
			}
			for _, e := range x.EndBlocked {
				x.Fail("L", "blocked forever: %s", e)
			}
			if x.Data["slowack-killed"] == true && x.TimeDevs == 0 {
				att, _ := x.Data["att"].(*rawAttached)
				if att != nil && att.forced.Load() {
					x.Fail("S", "a plugin that acknowledges the shutdown request after 1.5 s and exits by itself 1 s later was force-killed while still running (Kill took %v)", x.Data["killdt"])
				}
				if x.Data["cleanup-done"] != true {
					x.Fail("S", "the plugin was not allowed to finish its clean-up")
				}
			}
			if x.Data["killed"] == true && len(x.Violations()) == 0 && x.Data["session-disturbed"] != true {
				// C18: after Kill nothing that go-plugin started for the client is left in the host
				x.Quiesce(7 * time.Second)
				for _, g := range x.Goroutines("hashicorp/go-plugin.") {
					if strings.HasPrefix(g, "host: ") {
						x.Fail("L", "goroutine left in the host after Kill: %s", g)
					}
				}
			}
		},
		Instances: func(tier string) []explore.Params {
			if tier == "stdio-status" {
				return []explore.Params{{"mode": "stdio-status-13"}, {"mode": "stdio-status-2"}, {"mode": "stdio-status-8"}}
			}
			return []explore.Params{{"mode": tier}}
		},
	})
}
