package scen

import (
	"crypto/tls"
	"crypto/x509"
	"encoding/base64"
	"fmt"
	"os"
	"strings"
	"time"

	plugin "github.com/hashicorp/go-plugin"

	"verif/engine/explore"
	"verif/engine/vs"
)

// impostor — C12 (host side): with AutoMTLS the host talks only to the plugin
// whose certificate came back in the handshake. params: proto, mode =
// legit | other-cert | plaintext | sibling-cert (the certificate and key of another plugin
// that the same host process launched before).
func init() {
	explore.Register(&explore.Scenario{
		Name:    "impostor",
		Horizon: 60 * time.Second,
		Settle:  3 * time.Second,
		Body: func(x *vs.Exec, p explore.Params) {
			proto := p["proto"]
			var sibling *tls.Certificate // the certificate (and key) of a plugin this host launched earlier
			session := func(mode string) string {
				x.Hold()
				var ps plugin.PluginSet
				rp := &tagRPCPlugin{mk: func() *tagRPCServer { return &tagRPCServer{tag: "obj"} }}
				gp := &fullGRPCPlugin{}
				if proto == "netrpc" {
					ps = plugin.PluginSet{"p": rp}
				} else {
					ps = plugin.PluginSet{"p": gp}
				}
				r := newScriptRunner(x, func(r *scriptRunner) {
					clientCert := ""
					for _, e := range r.env {
						if strings.HasPrefix(e, "PLUGIN_CLIENT_CERT=") {
							clientCert = strings.TrimPrefix(e, "PLUGIN_CLIENT_CERT=")
						}
					}
					pool := x509.NewCertPool()
					pool.AppendCertsFromPEM([]byte(clientCert))
					mk := func() (tls.Certificate, string) {
						cp, kp, _ := plugin.VGenerateCert()
						c, _ := tls.X509KeyPair(cp, kp)
						return c, base64.RawStdEncoding.EncodeToString(c.Certificate[0])
					}
					certA, fieldA := mk()
					certB, _ := mk()
					serveCert := certA
					switch mode {
					case "other-cert":
						serveCert = certB
					case "sibling-cert":
						serveCert = certB
						if sibling != nil { // nil: the sibling's start failed in this schedule (timer first)
							serveCert = *sibling
						}
					case "chain-with-announced": // its own leaf (whose key it holds) with the announced certificate appended behind it
						serveCert = tls.Certificate{Certificate: [][]byte{certB.Certificate[0], certA.Certificate[0]}, PrivateKey: certB.PrivateKey}
					case "legit":
						sibling = &certA
					}
					o := serveOpts{proto: proto, plugins: ps, certField: fieldA}
					if mode == "nocert-plaintext" { // a plugin that ignores PLUGIN_CLIENT_CERT: no certificate field, no TLS
						o.certField = ""
					}
					if proto != "netrpc" {
						o.proto = "grpc"
					}
					if mode != "plaintext" && mode != "nocert-plaintext" {
						o.tls = &tls.Config{Certificates: []tls.Certificate{serveCert}, ClientAuth: tls.RequireAndVerifyClientCert, ClientCAs: pool, RootCAs: pool, MinVersion: tls.VersionTLS12, ServerName: "localhost"}
					}
					servePlugin(o)(r)
				})
				x.OnCleanup(r.exit)
				cfg := &plugin.ClientConfig{
					HandshakeConfig:  plugin.HandshakeConfig{MagicCookieKey: "VK", MagicCookieValue: "vv", ProtocolVersion: 1},
					Plugins:          ps,
					AllowedProtocols: []plugin.Protocol{plugin.ProtocolNetRPC, plugin.ProtocolGRPC},
					StartTimeout:     5 * time.Second,
					Logger:           nullLogger(),
					RunnerFunc:       r.runnerFunc,
					AutoMTLS:         true,
					UnixSocketConfig: &plugin.UnixSocketConfig{TempDir: os.Getenv("TMPDIR")},
				}
				cl := plugin.NewClient(cfg)
				x.Release()
				served := ""
				func() {
					defer func() {
						if rec := recover(); rec != nil {
							x.Fail("PANIC", "host panicked: %v", rec)
						}
					}()
					cp, err := cl.Client()
					x.Obs("Client err=%v", err != nil)
					if err != nil {
						return
					}
					obj, err := cp.Dispense("p")
					x.Obs("Dispense err=%v", err != nil)
					if err != nil {
						return
					}
					lc := &liveClient{proto: proto}
					if err := lc.call(obj, false); err == nil {
						served = "call answered"
					}
					if err := cp.Ping(); err == nil && served == "" {
						served = "ping answered"
					}
				}()
				cl.Kill()
				if r.tmpDir != "" {
					os.RemoveAll(r.tmpDir)
				}
				return served
			}
			if p["mode"] == "sibling-cert" {
				// the same host process first runs an honest AutoMTLS plugin, whose key the impostor then uses
				if s := session("legit"); s == "" {
					x.Obs("sibling session did not talk")
				}
			}
			x.Put("served", session(p["mode"]))
			x.Put("completed", true)
		},
		Check: func(x *vs.Exec, p explore.Params) {
			desc := fmt.Sprintf("proto=%s plugin=%s", p["proto"], p["mode"])
			x.Put("nontrivial", p["mode"] != "legit")
			if x.Data["completed"] != true {
				if len(x.Violations()) == 0 {
					x.Fail("L", "session never finished (blocked: %v) [%s]", x.EndBlocked, desc)
				}
				return
			}
			served, _ := x.Data["served"].(string)
			if p["mode"] == "legit" {
				if served == "" && x.TimeDevs == 0 {
					x.Fail("L", "the legitimate AutoMTLS pair could not talk (control) [%s]", desc)
				}
				return
			}
			if served != "" {
				x.Fail("S", "the host accepted an impostor plugin (%s) [%s]", served, desc)
			}
		},
		Instances: func(tier string) []explore.Params {
			var out []explore.Params
			for _, proto := range []string{"netrpc", "grpc"} {
				for _, m := range []string{"legit", "other-cert", "plaintext", "sibling-cert", "nocert-plaintext", "chain-with-announced"} {
					if proto == "netrpc" {
						// crypto/tls holds its (real) handshake mutex across a blocking read while yamux's
						// second goroutine waits for that mutex: not durably blocked, the bubble stalls.
						// (seen with a failing handshake only). Host-side TLS mismatches over net/rpc are decided
						// by C14's real-process cells (TLSProvider plugin vs AutoMTLS host => error on first use).
						continue
					}
					out = append(out, explore.Params{"proto": proto, "mode": m})
				}
			}
			return out
		},
	})
}

var _ = vs.Point
