package scen

import (
	"io"
	"log"
	"os"
	"runtime"
	"testing"
	"testing/synctest"
	"time"

	"verif/engine/explore"
)

// TestWorker is the explorer worker: one process, one bubble, many executions.
func TestWorker(t *testing.T) {
	if os.Getenv("VERIF_WORKER") == "" {
		t.Skip("worker mode only")
	}
	log.SetOutput(io.Discard)
	// real-time watchdog, started outside the bubble
	go func() {
		last, idle := int64(-1), 0
		for {
			time.Sleep(5 * time.Second)
			cur := explore.Progress.Load()
			if !explore.Busy.Load() || cur != last {
				last, idle = cur, 0
				continue
			}
			idle++
			if idle >= 6 {
				buf := make([]byte, 4<<20)
				n := runtime.Stack(buf, true)
				os.Stderr.Write([]byte("\nEXPLORER STALL: no execution completed for 30 s\n"))
				os.Stderr.Write(buf[:n])
				os.Exit(7)
			}
		}
	}()
	synctest.Test(t, func(t *testing.T) {
		explore.WorkerMain()
	})
}
