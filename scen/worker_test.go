package scen

import (
	"io"
	"log"
	"os"
	"testing"
	"testing/synctest"

	"verif/engine/explore"
)

// TestWorker is the explorer worker: one process, one bubble, many executions.
func TestWorker(t *testing.T) {
	if os.Getenv("VERIF_WORKER") == "" {
		t.Skip("worker mode only")
	}
	log.SetOutput(io.Discard)
	synctest.Test(t, func(t *testing.T) {
		explore.WorkerMain()
	})
}
