package scen

import (
	"encoding/json"
	"fmt"
	"io"
	"log"
	"os"
	"runtime"
	"strings"
	"sync"
	"testing"
	"testing/synctest"
	"time"

	"verif/engine/explore"
)

// TestWorker is the explorer worker: one process, one bubble, many executions.
func TestWorker(t *testing.T) {
	if os.Getenv("VERIF_WORKER") == "" {
		t.Skip("worker mode only")
	}
	log.SetOutput(io.Discard)
	// real-time watchdog, started outside the bubble
	go func() {
		last, idle := int64(-1), 0
		for {
			time.Sleep(5 * time.Second)
			cur := explore.Progress.Load()
			if !explore.Busy.Load() || cur != last {
				last, idle = cur, 0
				continue
			}
			idle++
			if idle >= 6 {
				buf := make([]byte, 4<<20)
				n := runtime.Stack(buf, true)
				os.Stderr.Write([]byte("\nEXPLORER STALL: no execution completed for 30 s\n"))
				os.Stderr.Write(buf[:n])
				os.Exit(7)
			}
		}
	}()
	synctest.Test(t, func(t *testing.T) {
		explore.WorkerMain()
	})
}

// TestConformance runs the conformance instances of every scenario free (no bubble, real
// time, real sockets) and prints one CONF line per instance.
func TestConformance(t *testing.T) {
	if os.Getenv("VERIF_CONFORM") == "" {
		t.Skip("conformance mode only")
	}
	log.SetOutput(io.Discard)
	want := map[string]bool{}
	for _, s := range strings.Split(os.Getenv("VERIF_CONFORM"), ",") {
		want[s] = true
	}
	var mu sync.Mutex
	var wg sync.WaitGroup
	sem := make(chan struct{}, 8)
	for _, name := range explore.Names() {
		s := explore.Get(name)
		if s.Conform == nil || !(want["all"] || want[name]) {
			continue
		}
		for _, p := range s.Conform() {
			wg.Add(1)
			sem <- struct{}{}
			go func() {
				defer wg.Done()
				defer func() { <-sem }()
				rec := explore.RunFreeOne(s, p)
				b, _ := json.Marshal(rec)
				mu.Lock()
				fmt.Printf("CONF %s\n", b)
				mu.Unlock()
			}()
		}
	}
	wg.Wait()
}
