package scen

import (
	"context"
	"fmt"
	"io"
	"os"
	"os/exec"
	"path/filepath"
	"sync"
	"time"

	hclog "github.com/hashicorp/go-hclog"
	"github.com/hashicorp/go-plugin/runner"

	"verif/engine/vnet"
	"verif/engine/vs"
)

// scriptRunner is a runner.Runner whose "process" is a script running in the
// plugin failure domain of the current execution: stdout/stderr are OS-pipe
// models, Wait returns when the process has exited, Kill makes it exit.
type scriptRunner struct {
	startDelay time.Duration // Start returns (successfully) only after this long
	emptyID    bool          // ID() answers ""
	x          *vs.Exec
	dom        *vs.Domain
	script     func(r *scriptRunner)

	stdoutR, stderrR io.ReadCloser
	stdout, stderr   io.WriteCloser

	mu         sync.Mutex
	exited     chan struct{}
	exitOnce   sync.Once
	starts     int
	kills      int
	killsAlive int
	killedAt   []string
	startErr   error
	env        []string
	stdin      io.Reader
	tmpDir     string
	// address translation (identity unless set)
	p2h, h2p   func(n, a string) (string, string, error)
	ignoreKill bool
}

func newScriptRunner(x *vs.Exec, script func(r *scriptRunner)) *scriptRunner {
	// one failure domain per process: "plugin", "plugin#2", ...
	n, _ := x.Data["runners"].(int)
	n++
	x.Put("runners", n)
	name := "plugin"
	if n > 1 {
		name = fmt.Sprintf("plugin#%d", n)
	}
	r := &scriptRunner{x: x, dom: x.Domain(name), script: script, exited: make(chan struct{})}
	r.stdoutR, r.stdout = vnet.NewPipe(64*1024, x.Domain("host"))
	r.stderrR, r.stderr = vnet.NewPipe(64*1024, x.Domain("host"))
	return r
}

// runnerFunc is a ClientConfig.RunnerFunc for this runner.
func (r *scriptRunner) runnerFunc(l hclog.Logger, cmd *exec.Cmd, tmpDir string) (runner.Runner, error) {
	r.mu.Lock()
	r.env = append([]string(nil), cmd.Env...)
	r.stdin = cmd.Stdin
	r.tmpDir = tmpDir
	r.mu.Unlock()
	return r, nil
}

func (r *scriptRunner) Start(ctx context.Context) error {
	r.mu.Lock()
	r.starts++
	err := r.startErr
	delay := r.startDelay
	r.mu.Unlock()
	if err != nil {
		return err
	}
	if delay > 0 {
		// a runner whose launch takes its time and does not watch the context (like the built-in command runner,
		// whose launch is a fork/exec that cannot be interrupted)
		r.x.Pause(delay)
	}
	// a real plugin binds its socket inside the directory the runner was given (PLUGIN_UNIX_SOCKET_DIR); if
	// the process is killed that file stays behind, a graceful exit unlinks it (script returned normally)
	sock := ""
	if r.tmpDir != "" {
		sock = filepath.Join(r.tmpDir, "plugin-socket-of-the-scripted-process")
		os.WriteFile(sock, nil, 0o600)
	}
	r.x.Go(r.dom.Name, func() {
		defer r.exit()
		r.script(r)
		if sock != "" && !r.hasExited() {
			os.Remove(sock)
		}
	})
	return nil
}

// exit ends the process: its descriptors are closed by the "kernel".
func (r *scriptRunner) exit() {
	r.exitOnce.Do(func() {
		r.stdout.Close()
		r.stderr.Close()
		r.dom.Crash()
		close(r.exited)
	})
}

// exitKeepingSockets is a process death the kernel does not announce on the plugin's connections: a child of the
// plugin inherited the descriptors (a helper forked without close-on-exec) and lives on, or the plugin ran in a VM
// that was destroyed without FIN/RST. The process is gone (Wait returns), its pipes are closed, nothing of it runs any
// more, but its sockets stay open and silent.
func (r *scriptRunner) exitKeepingSockets() {
	r.exitOnce.Do(func() {
		r.stdout.Close()
		r.stderr.Close()
		r.dom.Freeze()
		close(r.exited)
	})
}

func (r *scriptRunner) hasExited() bool {
	select {
	case <-r.exited:
		return true
	default:
		return false
	}
}

func (r *scriptRunner) Wait(ctx context.Context) error {
	<-r.exited
	vs.Point("runner.Wait")
	return nil
}

func (r *scriptRunner) Kill(ctx context.Context) error {
	// like a runner that stops its plugin through an API call carrying the context (docker kill, ...): a context
	// that is already done stops nothing
	if err := ctx.Err(); err != nil {
		return err
	}
	r.mu.Lock()
	r.kills++
	if !r.hasExited() {
		r.killsAlive++
	}
	ign := r.ignoreKill
	r.mu.Unlock()
	if !ign {
		r.exit()
	}
	return nil
}

func (r *scriptRunner) killCount() int  { r.mu.Lock(); defer r.mu.Unlock(); return r.kills }
func (r *scriptRunner) startCount() int { r.mu.Lock(); defer r.mu.Unlock(); return r.starts }

func (r *scriptRunner) Stdout() io.ReadCloser { return r.stdoutR }
func (r *scriptRunner) Stderr() io.ReadCloser { return r.stderrR }
func (r *scriptRunner) Name() string          { return "scripted-plugin" }
func (r *scriptRunner) ID() string {
	if r.emptyID {
		return "" // a runner that has no identifier for its plugin (in-process, remote, or learnt later)
	}
	return "script-1"
}
func (r *scriptRunner) Diagnose(context.Context) string { return "" }

func (r *scriptRunner) PluginToHost(n, a string) (string, string, error) {
	if r.p2h != nil {
		return r.p2h(n, a)
	}
	return n, a, nil
}

func (r *scriptRunner) HostToPlugin(n, a string) (string, string, error) {
	if r.h2p != nil {
		return r.h2p(n, a)
	}
	return n, a, nil
}

// waitExit blocks the script until the process is killed.
func (r *scriptRunner) waitKilled() { <-r.exited }
