package scen

import (
	"context"
	"fmt"
	"math"
	"os"
	"sort"
	"strconv"
	"strings"
	"time"

	plugin "github.com/hashicorp/go-plugin"
	"google.golang.org/grpc"

	"verif/engine/explore"
	"verif/engine/vs"
)

type tagGRPCPlugin struct {
	plugin.NetRPCUnsupportedPlugin
	tag string
}

func (t *tagGRPCPlugin) GRPCServer(*plugin.GRPCBroker, *grpc.Server) error { return nil }
func (t *tagGRPCPlugin) GRPCClient(context.Context, *plugin.GRPCBroker, *grpc.ClientConn) (interface{}, error) {
	return t.tag, nil
}

func tagOf(ps plugin.PluginSet) string {
	switch p := ps["p"].(type) {
	case *tagPlugin:
		return p.tag
	case *tagGRPCPlugin:
		return p.tag
	}
	return "?"
}

// side describes the version-related part of a ClientConfig or ServeConfig.
type verSide struct {
	legacy int   // -1 none
	vers   []int // versioned sets
	stale  int   // plugin side only: ProtocolVersion left at this value although no legacy Plugins are served (-1: 0)
}

func parseSide(s string) verSide {
	// "L<n or ->:v,v,v"
	a, b, _ := strings.Cut(s, ":")
	vsd := verSide{legacy: -1, stale: -1}
	if strings.HasPrefix(a, "S") {
		vsd.stale = atoi(a[1:])
	} else if a != "L-" {
		vsd.legacy = atoi(a[1:])
	}
	if b != "" {
		for _, f := range strings.Split(b, ",") {
			vsd.vers = append(vsd.vers, atoi(f))
		}
	}
	return vsd
}

func (v verSide) String() string {
	l := "L-"
	if v.legacy >= 0 {
		l = "L" + strconv.Itoa(v.legacy)
	} else if v.stale >= 0 {
		l = "S" + strconv.Itoa(v.stale)
	}
	var fs []string
	for _, x := range v.vers {
		fs = append(fs, strconv.Itoa(x))
	}
	return l + ":" + strings.Join(fs, ",")
}

func (v verSide) set() map[int]bool {
	m := map[int]bool{}
	for _, x := range v.vers {
		m[x] = true
	}
	if v.legacy >= 0 {
		m[v.legacy] = true
	}
	return m
}

func allSides(universe []int) []verSide {
	var out []verSide
	legs := append([]int{-1}, universe...)
	n := len(universe)
	for _, l := range legs {
		for mask := 0; mask < 1<<n; mask++ {
			var vsn []int
			for i := 0; i < n; i++ {
				if mask&(1<<i) != 0 {
					vsn = append(vsn, universe[i])
				}
			}
			if l < 0 && len(vsn) == 0 {
				continue
			}
			out = append(out, verSide{legacy: l, vers: vsn, stale: -1})
		}
	}
	return out
}

// protoOf: wire protocol of the plugin's set for version v under assignment a.
func protoOf(a string, v int) string {
	switch a {
	case "rpc":
		return "netrpc"
	case "grpc":
		return "grpc"
	}
	if v%2 == 0 {
		return "grpc"
	}
	return "netrpc"
}

func mkSet(side string, v int, legacy bool, proto string) plugin.PluginSet {
	tag := fmt.Sprintf("%s-v%d", side, v)
	if legacy {
		tag = fmt.Sprintf("%s-legacy%d", side, v)
	}
	if proto == "grpc" {
		return plugin.PluginSet{"p": &tagGRPCPlugin{tag: tag}}
	}
	return plugin.PluginSet{"p": &tagPlugin{tag: tag}}
}

// version_pair — C02. params: host, plug (verSide strings), gs=0|1 (GRPCServer
// configured), pa (protocol assignment rpc|grpc|alt), env (sent|missing|junk|dup), rep.
func init() {
	explore.Register(&explore.Scenario{
		Name:    "version_pair",
		Horizon: 30 * time.Second,
		Settle:  3 * time.Second,
		Body: func(x *vs.Exec, p explore.Params) {
			hs, psd := parseSide(p["host"]), parseSide(p["plug"])
			pa := p["pa"]
			// plugin half: the real protocolVersion on a ServeConfig built from psd
			opts := &plugin.ServeConfig{}
			if p["gs"] == "1" {
				opts.GRPCServer = plugin.DefaultGRPCServer
			}
			if psd.stale >= 0 {
				opts.ProtocolVersion = uint(psd.stale) // a handshake version nobody serves any more
			}
			if psd.legacy >= 0 {
				opts.ProtocolVersion = uint(psd.legacy)
				opts.Plugins = mkSet("plug", psd.legacy, true, protoOf(pa, psd.legacy))
			}
			if psd.vers != nil {
				opts.VersionedPlugins = map[int]plugin.PluginSet{}
				for _, v := range psd.vers {
					opts.VersionedPlugins[v] = mkSet("plug", v, false, protoOf(pa, v))
				}
			}
			r := newScriptRunner(x, func(r *scriptRunner) {
				sent := ""
				for _, e := range r.env {
					if strings.HasPrefix(e, "PLUGIN_PROTOCOL_VERSIONS=") {
						sent = strings.TrimPrefix(e, "PLUGIN_PROTOCOL_VERSIONS=")
					}
				}
				x.Put("sent", sent)
				val := sent
				switch p["env"] {
				case "missing":
					val = ""
				case "junk":
					val = "x," + sent + ",,9z"
				case "dup":
					val = sent + "," + sent
				case "asc", "desc": // the same set, written in ascending / descending order (a hand-written host; go-plugin's own order is its map's)
					var vs []int
					for _, f := range strings.Split(sent, ",") {
						if n, err := strconv.Atoi(f); err == nil {
							vs = append(vs, n)
						}
					}
					sort.Ints(vs)
					var fs []string
					for _, n := range vs {
						if p["env"] == "asc" {
							fs = append(fs, strconv.Itoa(n))
						} else {
							fs = append([]string{strconv.Itoa(n)}, fs...)
						}
					}
					val = strings.Join(fs, ",")
				}
				x.Put("envval", val)
				os.Setenv("PLUGIN_PROTOCOL_VERSIONS", val)
				ver, proto, set := plugin.VProtocolVersion(opts)
				os.Unsetenv("PLUGIN_PROTOCOL_VERSIONS")
				x.Put("pver", ver)
				x.Put("pproto", string(proto))
				x.Put("ptag", tagOf(set))
				if p["segs"] == "5" { // the five documented segments and nothing after them (what a hand-written plugin prints)
					fmt.Fprintf(r.stdout, "%d|%d|%s|%s|%s\n", plugin.CoreProtocolVersion, ver, "tcp", "127.0.0.1:1234", proto)
				} else {
					fmt.Fprintf(r.stdout, "%d|%d|%s|%s|%s|%s\n", plugin.CoreProtocolVersion, ver, "tcp", "127.0.0.1:1234", proto, "")
				}
				r.waitKilled()
			})
			x.Put("runner", r)
			cfg := &plugin.ClientConfig{
				HandshakeConfig:  plugin.HandshakeConfig{MagicCookieKey: "VK", MagicCookieValue: "vv"},
				AllowedProtocols: []plugin.Protocol{plugin.ProtocolNetRPC, plugin.ProtocolGRPC},
				RunnerFunc:       r.runnerFunc,
				StartTimeout:     10 * time.Second,
				Logger:           nullLogger(),
				UnixSocketConfig: &plugin.UnixSocketConfig{TempDir: os.Getenv("TMPDIR")},
			}
			if p["allow"] == "netrpc" { // a host that allows net/rpc only (the default when AllowedProtocols is left empty)
				cfg.AllowedProtocols = nil
			}
			if hs.legacy >= 0 {
				cfg.ProtocolVersion = uint(hs.legacy)
				cfg.Plugins = mkSet("host", hs.legacy, true, "netrpc")
			}
			if hs.vers != nil {
				cfg.VersionedPlugins = map[int]plugin.PluginSet{}
				for _, v := range hs.vers {
					cfg.VersionedPlugins[v] = mkSet("host", v, false, "netrpc")
				}
			}
			cl := plugin.NewClient(cfg)
			x.Put("client", cl)
			x.Put("cfg", cfg)
			func() {
				defer func() {
					if rec := recover(); rec != nil {
						x.Put("panic", fmt.Sprint(rec))
					}
				}()
				_, err := cl.Start()
				x.Put("started", true)
				x.Put("err", err)
			}()
			x.Put("killsAtReturn", r.killCount())
			cl.Kill()
		},
		Check: func(x *vs.Exec, p explore.Params) {
			r := x.Data["runner"].(*scriptRunner)
			x.OnCleanup(r.exit)
			hs, psd := parseSide(p["host"]), parseSide(p["plug"])
			desc := fmt.Sprintf("host{%s} plugin{%s} grpcserver=%s protos=%s env=%s", hs, psd, p["gs"], p["pa"], p["env"])
			if pv, bad := x.Data["panic"]; bad {
				x.Fail("PANIC", "panic: %v [%s]", pv, desc)
				return
			}
			if x.Data["started"] != true {
				x.Fail("L", "Start never returned [%s]", desc)
				return
			}
			err, _ := x.Data["err"].(error)
			cl := x.Data["client"].(*plugin.Client)
			cfg := x.Data["cfg"].(*plugin.ClientConfig)
			H, P := hs.set(), psd.set()
			// what the host must have sent: exactly its offered set
			sent, _ := x.Data["sent"].(string)
			got := map[int]bool{}
			for _, f := range strings.Split(sent, ",") {
				if n, e := strconv.Atoi(f); e == nil {
					got[n] = true
				}
			}
			if len(got) != len(H) {
				x.Fail("S", "host sent version list %q, offered set is %v [%s]", sent, keys(H), desc)
			}
			for v := range H {
				if !got[v] {
					x.Fail("S", "host sent version list %q, offered set is %v [%s]", sent, keys(H), desc)
					break
				}
			}
			// reference: what the plugin was told
			told := map[int]bool{}
			for _, f := range strings.Split(x.Data["envval"].(string), ",") {
				if n, e := strconv.Atoi(f); e == nil {
					told[n] = true
				}
			}
			common := -1
			for v := range told {
				if P[v] && v > common {
					common = v
				}
			}
			lowest := math.MaxInt
			for v := range P {
				if v < lowest {
					lowest = v
				}
			}
			want := common
			if common < 0 {
				want = lowest
			}
			pver := x.Data["pver"].(int)
			ptag := x.Data["ptag"].(string)
			pproto := x.Data["pproto"].(string)
			x.Put("nontrivial", len(H) > 1 || len(P) > 1)
			x.Obs("common=%v ok=%v", common >= 0, err == nil)
			if pver != want {
				x.Fail("S", "plugin announced version %d, expected %d (highest common, else its lowest) [%s]", pver, want, desc)
			}
			wantPTag := fmt.Sprintf("plug-v%d", pver)
			if pver == psd.legacy {
				wantPTag = fmt.Sprintf("plug-legacy%d", pver)
			}
			if ptag != wantPTag {
				x.Fail("S", "plugin serves set %q, the set registered under announced version %d is %q [%s]", ptag, pver, wantPTag, desc)
			}
			wantProto := "netrpc"
			if p["gs"] == "1" {
				wantProto = protoOf(p["pa"], pver)
			}
			if pproto != wantProto {
				x.Fail("S", "plugin announced protocol %q, the chosen set's is %q [%s]", pproto, wantProto, desc)
			}
			if H[pver] && p["allow"] == "netrpc" && pproto == "grpc" {
				// the versions agree but the chosen set speaks a protocol this host does not allow: Start must fail (C14's matter)
				if err == nil {
					x.Fail("S", "Start succeeded with a protocol the host does not allow [%s]", desc)
				}
			} else if H[pver] {
				if err != nil {
					x.Fail("S", "host offers the announced version %d but Start failed: %v [%s]", pver, err, desc)
				} else {
					if cl.NegotiatedVersion() != pver {
						x.Fail("S", "NegotiatedVersion() = %d, announced %d [%s]", cl.NegotiatedVersion(), pver, desc)
					}
					if got := string(cl.Protocol()); got != pproto {
						x.Fail("S", "the host speaks %q, the set registered under version %d announced %q [%s]", got, pver, pproto, desc)
					}
					wantHTag := fmt.Sprintf("host-v%d", pver)
					if !contains(hs.vers, pver) {
						wantHTag = fmt.Sprintf("host-legacy%d", pver)
					}
					if t := tagOf(pluginSetInUse(cl, cfg)); t != wantHTag {
						x.Fail("S", "host uses set %q, the set registered under version %d is %q: the two sides proceed with sets of different versions [%s]", t, pver, wantHTag, desc)
					}
				}
			} else {
				if err == nil {
					x.Fail("S", "Start succeeded although the announced version %d was never offered (%v) [%s]", pver, keys(H), desc)
				} else {
					if !strings.Contains(err.Error(), "Incompatible API version") {
						x.Fail("S", "incompatible versions reported as %q [%s]", err, desc)
					}
					if x.Data["killsAtReturn"].(int) == 0 && !r.hasExited() {
						x.Fail("S", "incompatible plugin was not terminated [%s]", desc)
					}
				}
			}
			for _, e := range x.EndBlocked {
				x.Fail("L", "blocked forever: %s [%s]", e, desc)
			}
		},
		Instances: func(tier string) []explore.Params {
			universe := []int{0, 1, 2, 3} // 0 matters: a host or plugin that never set ProtocolVersion offers / announces 0
			reps := 2
			if tier == "thorough" {
				universe = []int{0, 1, 2, 3, 4}
				reps = 6
			}
			sides := allSides(universe)
			psides := append([]verSide(nil), sides...)
			for _, st := range universe { // plugin only: versioned sets plus a stale, un-served ProtocolVersion
				for _, s := range sides {
					if s.legacy < 0 && !contains(s.vers, st) {
						psides = append(psides, verSide{legacy: -1, vers: s.vers, stale: st})
					}
				}
			}
			var out []explore.Params
			for _, h := range sides {
				for _, pl := range psides {
					n := 0
					for v := range h.set() {
						if pl.set()[v] {
							n++
						}
					}
					for _, gs := range []string{"0", "1"} {
						for _, pa := range []string{"rpc", "grpc", "alt"} {
							if gs == "0" && pa != "alt" {
								continue
							}
							for _, env := range []string{"sent", "missing", "junk", "dup"} {
								r := 1
								if n >= 2 && env == "sent" {
									r = reps // several runs: map iteration order differs between runs
								}
								for i := 0; i < r; i++ {
									out = append(out, explore.Params{"host": h.String(), "plug": pl.String(), "gs": gs, "pa": pa, "env": env, "rep": strconv.Itoa(i)})
								}
							}
						}
					}
				}
			}
			// plugins that print exactly the five documented segments
			for _, h := range allSides([]int{1, 2}) {
				for _, pl := range allSides([]int{1, 2}) {
					for _, c := range [][2]string{{"1", "grpc"}, {"1", "alt"}, {"0", "alt"}} {
						out = append(out, explore.Params{"host": h.String(), "plug": pl.String(), "gs": c[0], "pa": c[1], "env": "sent", "rep": "0", "segs": "5"})
					}
				}
			}
			// hosts that allow net/rpc only, against plugins whose sets speak gRPC / mixed protocols: a version mismatch is still
			// reported as a version mismatch
			small := allSides([]int{1, 2})
			for _, h := range small {
				for _, pl := range small {
					for _, c := range [][2]string{{"1", "grpc"}, {"1", "alt"}} {
						out = append(out, explore.Params{"host": h.String(), "plug": pl.String(), "gs": c[0], "pa": c[1], "env": "sent", "rep": "0", "allow": "netrpc"})
					}
				}
			}
			// hosts that offer many versions (40 and 70 entries), the common one anywhere in the list
			for _, n := range []int{40, 70} {
				many := verSide{legacy: -1, stale: -1, vers: []int{2}}
				for v := 101; v < 101+n; v++ {
					many.vers = append(many.vers, v)
				}
				for _, pl := range []verSide{{legacy: -1, stale: -1, vers: []int{1, 2}}, {legacy: 1, stale: -1, vers: []int{100 + n}}, {legacy: -1, stale: -1, vers: []int{100 + n/2, 3}}} {
					for _, env := range []string{"sent", "asc", "desc"} {
						r := 1
						if env == "sent" {
							r = reps + 2
						}
						for i := 0; i < r; i++ {
							out = append(out, explore.Params{"host": many.String(), "plug": pl.String(), "gs": "1", "pa": "grpc", "env": env, "rep": strconv.Itoa(i)})
						}
					}
				}
			}
			// versions that do not fit in 32 bits (date / timestamp style version numbers): every pair of sides over
			// {2, 2^31, 202401011200}
			big := allSides([]int{2, 1 << 31, 202401011200})
			for _, h := range big {
				for _, pl := range big {
					for _, c := range [][2]string{{"1", "grpc"}, {"1", "rpc"}, {"0", "alt"}} {
						for _, env := range []string{"sent", "missing"} {
							out = append(out, explore.Params{"host": h.String(), "plug": pl.String(), "gs": c[0], "pa": c[1], "env": env, "rep": "0"})
						}
					}
				}
			}
			// versioned sets (no legacy fields) over {-2, 3, MaxInt64}: keys of VersionedPlugins are plain ints, and two of them
			// may be further apart than MaxInt64; several runs each, map iteration order differs between runs
			var ext []verSide
			for mask := 1; mask < 8; mask++ {
				var vsn []int
				for i, v := range []int{-2, 3, math.MaxInt64} { // (-1 is this harness's "no legacy version" mark)
					if mask&(1<<i) != 0 {
						vsn = append(vsn, v)
					}
				}
				ext = append(ext, verSide{legacy: -1, vers: vsn, stale: -1})
			}
			for _, h := range ext {
				for _, pl := range ext {
					for _, env := range []string{"sent", "missing"} {
						for i := 0; i < reps+2; i++ {
							out = append(out, explore.Params{"host": h.String(), "plug": pl.String(), "gs": "1", "pa": "grpc", "env": env, "rep": strconv.Itoa(i)})
						}
					}
				}
			}
			return out
		},
	})
}

func keys(m map[int]bool) []int {
	var k []int
	for v := range m {
		k = append(k, v)
	}
	sort.Ints(k)
	return k
}

var _ = vs.Point
