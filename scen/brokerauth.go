package scen

import (
	"context"
	"crypto/tls"
	"crypto/x509"
	"fmt"
	"net"
	"strings"
	"time"

	plugin "github.com/hashicorp/go-plugin"
	grpctest "github.com/hashicorp/go-plugin/test/grpc"
	"google.golang.org/grpc"
	"google.golang.org/grpc/credentials"
	"google.golang.org/grpc/credentials/insecure"

	"verif/engine/explore"
	"verif/engine/vnet"
	"verif/engine/vs"
)

// mtlsPair builds what AutoMTLS builds: each side has its own certificate, trusts only the other's, and
// requires and verifies a client certificate when it is the server.
func mtlsPair() (host, plug *tls.Config) {
	mk := func() (tls.Certificate, *x509.CertPool) {
		cp, kp, err := plugin.VGenerateCert()
		if err != nil {
			panic(err)
		}
		c, err := tls.X509KeyPair(cp, kp)
		if err != nil {
			panic(err)
		}
		pool := x509.NewCertPool()
		pool.AppendCertsFromPEM(cp)
		return c, pool
	}
	hc, hp := mk()
	pc, pp := mk()
	cfg := func(own tls.Certificate, peer *x509.CertPool) *tls.Config {
		return &tls.Config{Certificates: []tls.Certificate{own}, ClientAuth: tls.RequireAndVerifyClientCert, ClientCAs: peer, RootCAs: peer, MinVersion: tls.VersionTLS12, ServerName: "localhost"}
	}
	return cfg(hc, pp), cfg(pc, hp)
}

// brokered_auth — C12, brokered gRPC connections in both directions, with and without multiplexing: after a
// legitimate brokered establishment (control) a second peer reaches the very same brokered listener the way
// the legitimate dialler does (its socket without multiplexing, a knocked stream with multiplexing) but
// speaks plaintext, TLS without a client certificate, or TLS with a certificate of its own. It must never
// get an answer. params: mux, dir (h2p = plugin accepts | p2h), cred.
func init() {
	explore.Register(&explore.Scenario{
		Name:    "brokered_auth",
		Horizon: 90 * time.Second,
		Settle:  3 * time.Second,
		Body: func(x *vs.Exec, p explore.Params) {
			x.Hold()
			hostTLS, plugTLS := mtlsPair()
			pr, err := newGRPCPair(x, grpcPairOpts{mux: p["mux"] == "1", hostTLS: hostTLS, pluginTLS: plugTLS})
			if err != nil {
				x.Fail("ENGINE", "pair setup: %v", err)
				return
			}
			x.Release()
			x.Put("pair", pr)
			as := byte('p')
			accTLS := plugTLS
			if p["dir"] == "p2h" {
				as, accTLS = 'h', hostTLS
			}
			ab, adom := pr.side(as)
			db, ddom := pr.side(other(as))
			const id = 51
			before := map[string]bool{}
			for _, l := range vnet.Open(x.ExecID) {
				before[l] = true
			}
			x.Go(adom, func() {
				ab.AcceptAndServe(id, func(o []grpc.ServerOption) *grpc.Server {
					s := grpc.NewServer(o...)
					grpctest.RegisterPingPongServer(s, &ppServer{tag: "51"})
					return s
				})
			})
			fin := make(chan struct{})
			x.Go(ddom, func() {
				defer close(fin)
				cc, err := db.Dial(id)
				if err != nil {
					x.Put("legit", fmt.Sprintf("Dial: %v", err))
					return
				}
				x.OnCleanup(func() { cc.Close() })
				ctx, cancel := context.WithTimeout(context.Background(), 20*time.Second)
				tag, err := pingTag(ctx, cc)
				cancel()
				if err != nil || tag != "51" {
					x.Put("legit", fmt.Sprintf("first call: %q %v", tag, err))
					return
				}
				// ---- the other peer
				raw := func(context.Context, string) (net.Conn, error) {
					if p["mux"] == "1" {
						return muxRawDial(db, id)
					}
					for _, l := range vnet.Open(x.ExecID) {
						if !before[l] && strings.HasPrefix(l, adom+" unix|") {
							return vnet.Dial("unix", strings.TrimPrefix(l, adom+" unix|"))
						}
					}
					return nil, fmt.Errorf("brokered listener not found")
				}
				var creds credentials.TransportCredentials
				switch p["cred"] {
				case "plain":
					creds = insecure.NewCredentials()
				case "tls-nocert":
					creds = credentials.NewTLS(&tls.Config{RootCAs: accTLS.ClientCAs, InsecureSkipVerify: true, ServerName: "localhost", MinVersion: tls.VersionTLS12})
				case "tls-othercert":
					other, _ := mtlsPair()
					creds = credentials.NewTLS(&tls.Config{Certificates: other.Certificates, InsecureSkipVerify: true, ServerName: "localhost", MinVersion: tls.VersionTLS12})
				}
				ic, err := grpc.Dial("unused", grpc.WithTransportCredentials(creds), grpc.WithContextDialer(raw))
				if err != nil {
					x.Obs("intruder dial err")
					return
				}
				x.OnCleanup(func() { ic.Close() })
				ctx2, cancel2 := context.WithTimeout(context.Background(), 8*time.Second)
				tag2, err2 := pingTag(ctx2, ic)
				cancel2()
				ic.Close()
				x.Obs("intruder answered=%v", err2 == nil)
				if err2 == nil {
					x.Fail("S", "a peer with credentials %q was served by the brokered listener (answer %q) [mux=%s dir=%s]", p["cred"], tag2, p["mux"], p["dir"])
				}
				// the legitimate connection still works
				ctx3, cancel3 := context.WithTimeout(context.Background(), 20*time.Second)
				if _, err := pingTag(ctx3, cc); err != nil {
					x.Put("legit", fmt.Sprintf("call after the intrusion attempt: %v", err))
				}
				cancel3()
				cc.Close()
			})
			<-fin
			x.Put("completed", true)
		},
		Check: func(x *vs.Exec, p explore.Params) {
			desc := fmt.Sprintf("mux=%s dir=%s cred=%s", p["mux"], p["dir"], p["cred"])
			pr, _ := x.Data["pair"].(*grpcPair)
			if pr == nil {
				if len(x.Violations()) == 0 {
					x.Fail("L", "setup never finished: %v [%s]", x.EndBlocked, desc)
				}
				return
			}
			if x.Data["completed"] != true {
				x.Fail("L", "session never finished (blocked: %v) [%s]", x.EndBlocked, desc)
			}
			if v, ok := x.Data["legit"]; ok && x.TimeDevs == 0 {
				x.Fail("T", "control: the legitimate mutually authenticated brokered connection does not work: %v [%s]", v, desc)
			}
			x.GoFree(func() { pr.gc.Close(); pr.srv.Stop() })
			x.Quiesce(8 * time.Second)
		},
		Instances: func(tier string) []explore.Params {
			var out []explore.Params
			for _, m := range []string{"0", "1"} {
				for _, d := range []string{"h2p", "p2h"} {
					for _, c := range []string{"plain", "tls-nocert", "tls-othercert"} {
						out = append(out, explore.Params{"mux": m, "dir": d, "cred": c})
					}
				}
			}
			return out
		},
	})
}

// muxRawDial opens a raw multiplexed stream to the peer's brokered listener id exactly as a brokered dial does (knock,
// then a new stream), without any transport security on top: what a peer that does not speak TLS would use. It goes
// through the public API only: the broker's own dialer produces the raw connection, and a capturing TransportCredentials
// passed as the last dial option receives it instead of a TLS handshake.
func muxRawDial(b *plugin.GRPCBroker, id uint32) (net.Conn, error) {
	cap := &captureCreds{got: make(chan net.Conn, 1)}
	cc, err := b.DialWithOptions(id, grpc.WithTransportCredentials(cap))
	if err != nil {
		return nil, err
	}
	cc.Connect()
	t := time.NewTimer(8 * time.Second)
	defer t.Stop()
	select {
	case c := <-cap.got:
		return &capturedConn{Conn: c, cc: cc}, nil
	case <-t.C:
		cc.Close()
		return nil, fmt.Errorf("no raw connection within 8 s (the knock was not answered)")
	}
}

type captureCreds struct{ got chan net.Conn }

func (c *captureCreds) ClientHandshake(ctx context.Context, _ string, raw net.Conn) (net.Conn, credentials.AuthInfo, error) {
	select {
	case c.got <- raw:
		<-ctx.Done() // the harness owns the connection now; gRPC's attempt ends when the ClientConn is closed
		return nil, nil, fmt.Errorf("raw connection handed to the harness")
	default:
		return nil, nil, fmt.Errorf("only the first raw connection is wanted")
	}
}
func (c *captureCreds) ServerHandshake(net.Conn) (net.Conn, credentials.AuthInfo, error) {
	return nil, nil, fmt.Errorf("client side only")
}
func (c *captureCreds) Info() credentials.ProtocolInfo {
	return credentials.ProtocolInfo{SecurityProtocol: "capture"}
}
func (c *captureCreds) Clone() credentials.TransportCredentials { return c }
func (c *captureCreds) OverrideServerName(string) error         { return nil }

// capturedConn closes the ClientConn that produced the raw connection together with it.
type capturedConn struct {
	net.Conn
	cc *grpc.ClientConn
}

func (c *capturedConn) Close() error { err := c.Conn.Close(); c.cc.Close(); return err }
