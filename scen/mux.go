package scen

import (
	"encoding/binary"
	"fmt"
	"io"
	"net"
	"strconv"
	"strings"
	"sync"
	"time"

	plugin "github.com/hashicorp/go-plugin"
	"github.com/hashicorp/yamux"

	"verif/engine/explore"
	"verif/engine/vnet"
	"verif/engine/vs"
)

// muxPair builds two MuxBrokers over one yamux session over a virtual
// connection, each side in its own domain, with Run started as the library does.
type muxPair struct {
	hs, ps     *yamux.Session
	hb, pb     *plugin.MuxBroker
	raw        *rawMuxPeer // a hand-written peer in place of one of the brokers
	hostClient *plugin.RPCClient
}

func yamuxCfg() *yamux.Config {
	c := yamux.DefaultConfig()
	c.LogOutput = io.Discard
	return c
}

func newMuxPair(x *vs.Exec) *muxPair { return newMuxPairRaw(x, 0) }

// newMuxPairHostClient: the host end is go-plugin's own RPCClient (NewRPCClient creates the yamux session with go-plugin's
// settings), the plugin end a hand-written peer on a stock yamux session that starts accepting streams only after slow.
func newMuxPairHostClient(x *vs.Exec, slow time.Duration) (*muxPair, error) {
	a, b := vnet.NewPair(x.Domain("host"), x.Domain("plugin"))
	m := &muxPair{}
	ready := make(chan struct{})
	x.Go("plugin", func() {
		s, err := yamux.Server(b, yamuxCfg())
		if err != nil {
			panic(err)
		}
		m.ps = s
		m.raw = newRawMuxPeer(x, s, "plugin")
		m.raw.whole = true
		close(ready)
		if slow > 0 {
			x.Pause(slow) // a plugin that is busy for a moment before it gets round to its accept loop
		}
		m.raw.acceptLoop()
	})
	<-ready
	rc, err := plugin.NewRPCClient(a, plugin.PluginSet{})
	if err != nil {
		return nil, err
	}
	m.hb = rc.VBroker()
	m.hostClient = rc
	return m, nil
}

// newMuxPairRaw: rawSide 'h' or 'p' makes that end a hand-written peer (no MuxBroker there, see rawMuxPeer).
func newMuxPairRaw(x *vs.Exec, rawSide byte) *muxPair {
	a, b := vnet.NewPair(x.Domain("host"), x.Domain("plugin"))
	m := &muxPair{}
	ready := make(chan struct{})
	x.Go("plugin", func() {
		s, err := yamux.Server(b, yamuxCfg())
		if err != nil {
			panic(err)
		}
		m.ps = s
		if rawSide == 'p' {
			m.raw = newRawMuxPeer(x, s, "plugin")
			close(ready)
			m.raw.acceptLoop()
			return
		}
		m.pb = plugin.VNewMuxBroker(s)
		close(ready)
		m.pb.Run()
	})
	s, err := yamux.Client(a, yamuxCfg())
	if err != nil {
		panic(err)
	}
	m.hs = s
	<-ready
	if rawSide == 'h' {
		m.raw = newRawMuxPeer(x, s, "host")
		x.Go("host", m.raw.acceptLoop)
		return m
	}
	m.hb = plugin.VNewMuxBroker(s)
	x.Go("host", func() { m.hb.Run() })
	return m
}

// muxEnd is what a scenario needs from one end of the brokered connection.
type muxEnd interface {
	Accept(id uint32) (net.Conn, error)
	Dial(id uint32) (net.Conn, error)
}

// rawMuxPeer is a hand-written peer of a MuxBroker (another language's implementation of the same wire protocol: a
// yamux stream per connection, the id as 4 little-endian bytes, the same 4 bytes back as acknowledgement). It is legal
// but unlike go-plugin's own: it writes the id and the acknowledgement in two pieces (1 + 3 bytes, 10 ms apart), so
// they travel in separate yamux frames.
type rawMuxPeer struct {
	x     *vs.Exec
	sess  *yamux.Session
	dom   string
	mu    sync.Mutex
	in    map[uint32]chan net.Conn
	whole bool // ids and acknowledgements in one piece
}

func newRawMuxPeer(x *vs.Exec, s *yamux.Session, dom string) *rawMuxPeer {
	return &rawMuxPeer{x: x, sess: s, dom: dom, in: map[uint32]chan net.Conn{}}
}

func (r *rawMuxPeer) slot(id uint32) chan net.Conn {
	r.mu.Lock()
	defer r.mu.Unlock()
	c, ok := r.in[id]
	if !ok {
		c = make(chan net.Conn, 4)
		r.in[id] = c
	}
	return c
}

func (r *rawMuxPeer) inPieces(w io.Writer, v uint32) error {
	var b [4]byte
	binary.LittleEndian.PutUint32(b[:], v)
	if r.whole {
		_, err := w.Write(b[:])
		return err
	}
	if _, err := w.Write(b[:1]); err != nil {
		return err
	}
	r.x.Pause(10 * time.Millisecond)
	_, err := w.Write(b[1:])
	return err
}

func (r *rawMuxPeer) acceptLoop() {
	for {
		st, err := r.sess.Accept()
		if err != nil {
			return
		}
		r.x.Go(r.dom, func() {
			var b [4]byte
			if _, err := io.ReadFull(st, b[:]); err != nil {
				st.Close()
				return
			}
			id := binary.LittleEndian.Uint32(b[:])
			if err := r.inPieces(st, id); err != nil {
				st.Close()
				return
			}
			r.slot(id) <- st
		})
	}
}

func (r *rawMuxPeer) Accept(id uint32) (net.Conn, error) {
	t := time.NewTimer(5 * time.Second)
	defer t.Stop()
	select {
	case c := <-r.slot(id):
		return c, nil
	case <-t.C:
		return nil, fmt.Errorf("raw peer: nobody dialled id %d within 5 s", id)
	}
}

func (r *rawMuxPeer) Dial(id uint32) (net.Conn, error) {
	st, err := r.sess.Open()
	if err != nil {
		return nil, err
	}
	if err := r.inPieces(st, id); err != nil {
		st.Close()
		return nil, err
	}
	var b [4]byte
	st.SetReadDeadline(time.Now().Add(6 * time.Second))
	if _, err := io.ReadFull(st, b[:]); err != nil {
		st.Close()
		return nil, fmt.Errorf("raw peer: no acknowledgement for id %d: %v", id, err)
	}
	st.SetReadDeadline(time.Time{})
	if ack := binary.LittleEndian.Uint32(b[:]); ack != id {
		st.Close()
		return nil, fmt.Errorf("raw peer: acknowledgement %d for id %d", ack, id)
	}
	return st, nil
}

// end returns the broker, or the hand-written peer, at side s.
func (m *muxPair) end(s byte) (muxEnd, string) {
	dom := "plugin"
	if s == 'h' {
		dom = "host"
	}
	if m.raw != nil && m.raw.dom == dom {
		return m.raw, dom
	}
	b, _ := m.side(s)
	return b, dom
}

func (m *muxPair) side(s byte) (*plugin.MuxBroker, string) {
	if s == 'h' {
		return m.hb, "host"
	}
	return m.pb, "plugin"
}

func other(s byte) byte {
	if s == 'h' {
		return 'p'
	}
	return 'h'
}

const lateBulk = 400 * 1024

// mux_route — C06: Dial(id) meets Accept(id) and nobody else.
// params: pat = comma-separated per-id patterns "<dialside><order><gapms>",
// dialside h|p, order A (accept issued first) | D (dial issued first).
func init() {
	explore.Register(&explore.Scenario{
		Name: "mux_route",
		Body: func(x *vs.Exec, p explore.Params) {
			x.Hold()
			var rawSide byte
			if p["raw"] != "" {
				rawSide = p["raw"][0]
			}
			m := (*muxPair)(nil)
			if p["hostclient"] == "1" {
				var err error
				if m, err = newMuxPairHostClient(x, ms(p["slowaccept"])); err != nil {
					x.Fail("ENGINE", "NewRPCClient: %v", err)
					return
				}
			} else {
				m = newMuxPairRaw(x, rawSide)
			}
			if p["probe"] == "1" && m.raw != nil {
				// the hand-written peer once opens a stream and closes it again without writing an id (an abandoned dial, a probe)
				if st, err := m.raw.sess.Open(); err == nil {
					st.Close()
				}
			}
			x.Release()
			x.OnCleanup(func() {
				if m.hostClient != nil {
					m.ps.Close() // first: the hand-written peer serves no control stream, Close's Quit call must fail, not wait
					m.hostClient.Close()
				}
				if m.hs != nil {
					m.hs.Close()
				}
				m.ps.Close()
			})
			d := newDone(x)
			x.Put("d", d)
			for i, pat := range strings.Split(p["pat"], ",") {
				slot := uint32(10 + i) // names the pattern in observations and verdict keys
				id := slot
				if l := strings.Split(p["ids"], ","); p["ids"] != "" && i < len(l) {
					// explicit ids: the same number may be outstanding in both directions at once (each side allocates
					// from its own counter), and ids are plain uint32 values
					v, _ := strconv.ParseUint(l[i], 10, 32)
					id = uint32(v)
				}
				ds, order, gap, start := parsePat(pat)
				db, ddom := m.end(ds)
				ab, adom := m.end(other(ds))
				nonce := uint32(0xabc00 + i)
				d.goIn(adom, fmt.Sprintf("accept%d", slot), func() {
					if start > 0 {
						x.Pause(start)
					}
					if order == 'D' {
						x.Pause(gap)
					}
					t0 := x.Now()
					c, err := ab.Accept(id)
					x.Obs("accept%d err=%v", id, err != nil)
					if err != nil {
						x.Put(fmt.Sprintf("aerr%d", slot), fmt.Sprintf("%v after %v", err, x.Now()-t0))
						return
					}
					hdr := make([]byte, 8)
					if _, err := io.ReadFull(c, hdr); err != nil {
						x.Fail("S", "acceptor %d: reading token: %v", id, err)
						return
					}
					gid, gn := binary.LittleEndian.Uint32(hdr), binary.LittleEndian.Uint32(hdr[4:])
					if gid != id || gn != nonce {
						x.Fail("S", "misrouted: acceptor of id %d received token (id=%d nonce=%x)", id, gid, gn)
					}
					pay := make([]byte, 3072)
					if _, err := io.ReadFull(c, pay); err != nil {
						x.Fail("S", "acceptor %d: payload: %v", id, err)
						return
					}
					if string(pay) != string(pattern(byte(id), 3072)) {
						x.Fail("S", "acceptor %d: payload corrupted", id)
					}
					c.Write(hdr)
					if p["late"] == "1" {
						// much later, bulk data in both directions (more than yamux's 256 KiB window each way)
						bulk := make([]byte, lateBulk)
						c.SetReadDeadline(time.Now().Add(60 * time.Second))
						if n, err := io.ReadFull(c, bulk); err != nil {
							x.Fail("S", "acceptor %d: late bulk data: %d of %d bytes arrived: %v", id, n, lateBulk, err)
							return
						}
						if string(bulk) != string(pattern(byte(id)+1, lateBulk)) {
							x.Fail("S", "acceptor %d: late bulk data corrupted", id)
						}
						if n, err := c.Write(pattern(byte(id)+2, lateBulk)); err != nil {
							x.Fail("S", "acceptor %d: late bulk write: %d of %d bytes written: %v", id, n, lateBulk, err)
							return
						}
					}
					x.Obs("accept%d ok", id)
				})
				d.goIn(ddom, fmt.Sprintf("dial%d", slot), func() {
					if start > 0 {
						x.Pause(start)
					}
					if order == 'A' {
						x.Pause(gap)
					}
					t0 := x.Now()
					c, err := db.Dial(id)
					x.Obs("dial%d err=%v", id, err != nil)
					if err != nil {
						x.Put(fmt.Sprintf("derr%d", slot), fmt.Sprintf("%v after %v", err, x.Now()-t0))
						return
					}
					hdr := make([]byte, 8)
					binary.LittleEndian.PutUint32(hdr, id)
					binary.LittleEndian.PutUint32(hdr[4:], nonce)
					pay := pattern(byte(id), 3072)
					c.Write(hdr)
					c.Write(pay[:1000])
					c.Write(pay[1000:])
					echo := make([]byte, 8)
					if _, err := io.ReadFull(c, echo); err != nil {
						x.Fail("S", "dialler %d: echo: %v", id, err)
						return
					}
					if string(echo) != string(hdr) {
						x.Fail("S", "dialler %d: echo of another token", id)
					}
					if p["late"] == "1" {
						x.Pause(6 * time.Second)
						if n, err := c.Write(pattern(byte(id)+1, lateBulk)); err != nil {
							x.Fail("S", "dialler %d: late bulk write on the dialled connection: %d of %d bytes written: %v", id, n, lateBulk, err)
							return
						}
						bulk := make([]byte, lateBulk)
						c.SetReadDeadline(time.Now().Add(60 * time.Second))
						if n, err := io.ReadFull(c, bulk); err != nil {
							x.Fail("S", "dialler %d: late bulk data: %d of %d bytes arrived: %v", id, n, lateBulk, err)
							return
						}
						if string(bulk) != string(pattern(byte(id)+2, lateBulk)) {
							x.Fail("S", "dialler %d: late bulk data corrupted", id)
						}
					}
					x.Obs("dial%d ok", id)
				})
			}
			x.Put("m", m)
		},
		Check: func(x *vs.Exec, p explore.Params) {
			d, _ := x.Data["d"].(*done)
			if d == nil {
				x.Fail("L", "setup never finished: %v", x.EndBlocked)
				return
			}
			d.checkAll(x)
			if x.TimeDevs == 0 {
				for i, pat := range strings.Split(p["pat"], ",") {
					id := 10 + i
					if _, _, g, _ := parsePat(pat); g < 5*time.Second {
						if e, ok := x.Data[fmt.Sprintf("aerr%d", id)]; ok {
							x.Fail("T", "Accept(%d) failed inside the pending window (gap %s): %v", id, pat[2:], e)
						}
						if e, ok := x.Data[fmt.Sprintf("derr%d", id)]; ok {
							x.Fail("T", "Dial(%d) failed inside the pending window (gap %s): %v", id, pat[2:], e)
						}
					}
				}
			}
			for _, e := range x.EndBlocked {
				x.Fail("L", "blocked forever: %s", e)
			}
			m := x.Data["m"].(*muxPair)
			if m.hostClient != nil {
				m.ps.Close()
				m.hostClient.Close()
			}
			if m.hs != nil {
				m.hs.Close()
			}
			m.ps.Close()
			x.Quiesce(6 * time.Second)
			checkNoLeak(x, "hashicorp/go-plugin.")
		},
		Conform: func() []explore.Params {
			return []explore.Params{{"pat": "hA0"}, {"pat": "pD0"}, {"pat": "hA0,pD0"}}
		},
		Instances: routeInstances,
	})
}
