package scen

import (
	"context"
	"fmt"
	"time"

	grpctest "github.com/hashicorp/go-plugin/test/grpc"
	"google.golang.org/grpc"

	"verif/engine/explore"
	"verif/engine/vs"
)

// idle_session — C14 under the virtual clock: a compatible pair connects, works end to end (call, brokered connection
// in both directions, ping), then the host does nothing at all for a long time (2.5 virtual minutes, 12 minutes in
// the thorough tier: longer than any keep-alive, idle or enforcement period of the transports), and then everything is
// used again. params: proto, idle (ms).
func init() {
	registerIdle("idle_session", 20*time.Minute)
	// the same session over months of (virtual) uptime: a scenario of its own because of its horizon
	registerIdle("uptime_session", 420*24*time.Hour)
}

func registerIdle(name string, horizon time.Duration) {
	explore.Register(&explore.Scenario{
		Name:    name,
		Horizon: horizon,
		Settle:  5 * time.Second,
		Body: func(x *vs.Exec, p explore.Params) {
			proto := p["proto"]
			x.Hold()
			lc := newLive(x, liveOpts{proto: proto, autoMTLS: p["tls"] == "auto"})
			x.Put("lc", lc)
			obj, err := lc.connect()
			x.Release()
			if err != nil {
				x.Fail("ENGINE", "connect: %v", err)
				return
			}
			round := func(when string, id uint32) {
				if err := lc.call(obj, false); err != nil {
					failT(x, "%s: call on the dispensed object: %v", when, err)
				}
				cp, err := lc.cl.Client()
				if err != nil {
					failT(x, "%s: Client(): %v", when, err)
					return
				}
				if err := cp.Ping(); err != nil {
					failT(x, "%s: Ping: %v", when, err)
				}
				if o2, err := cp.Dispense("p"); err != nil {
					failT(x, "%s: Dispense: %v", when, err)
				} else if err := lc.call(o2, false); err != nil {
					failT(x, "%s: call on a newly dispensed object: %v", when, err)
				}
				// a brokered connection in each direction
				for dir, ends := range map[string][2]string{"host dials plugin": {"plugin", "host"}, "plugin dials host": {"host", lc.r.dom.Name}} {
					adom, ddom := ends[0], ends[1]
					if dir == "host dials plugin" {
						adom = lc.r.dom.Name
					}
					id++
					if proto == "netrpc" {
						acc, dial := lc.rp.sb, lc.rp.cb
						if dir == "plugin dials host" {
							acc, dial = lc.rp.cb, lc.rp.sb
						}
						got := make(chan error, 2)
						x.Go(adom, func() {
							c, err := acc.Accept(id)
							if err == nil {
								b := make([]byte, 1)
								_, err = c.Read(b)
								c.Close()
							}
							got <- err
						})
						x.Go(ddom, func() {
							c, err := dial.Dial(id)
							if err == nil {
								_, err = c.Write([]byte{1})
								c.Close()
							}
							got <- err
						})
						for k := 0; k < 2; k++ {
							if err := <-got; err != nil {
								failT(x, "%s: brokered connection (%s, id %d): %v", when, dir, id, err)
							}
						}
						continue
					}
					acc, dial := lc.gp.sb, lc.gp.cb
					if dir == "plugin dials host" {
						acc, dial = lc.gp.cb, lc.gp.sb
					}
					tag := fmt.Sprintf("id=%d", id)
					aid := id
					x.Go(adom, func() {
						acc.AcceptAndServe(aid, func(o []grpc.ServerOption) *grpc.Server {
							s := grpc.NewServer(o...)
							grpctest.RegisterPingPongServer(s, &ppServer{tag: tag})
							return s
						})
					})
					got := make(chan struct{})
					x.Go(ddom, func() {
						defer close(got)
						cc, err := dial.Dial(aid)
						if err != nil {
							failT(x, "%s: brokered Dial (%s, id %d): %v", when, dir, aid, err)
							return
						}
						defer cc.Close()
						ctx, cancel := context.WithTimeout(context.Background(), 8*time.Second)
						defer cancel()
						if t, err := pingTag(ctx, cc); err != nil || t != tag {
							failT(x, "%s: first call on the brokered connection (%s, id %d): %q %v", when, dir, aid, t, err)
						}
					})
					<-got
				}
			}
			round("before the idle period", 40)
			vs.Point("idle-begins")
			x.Pause(ms(p["idle"]))
			vs.Point("idle-ends")
			round(fmt.Sprintf("after %s without any traffic", ms(p["idle"])), 50)
			x.Put("completed", true)
			lc.cl.Kill()
		},
		Check: func(x *vs.Exec, p explore.Params) {
			if lc, ok := x.Data["lc"].(*liveClient); ok {
				close(lc.block)
			}
			if x.Data["completed"] != true && len(x.Violations()) == 0 && x.Data["session-disturbed"] != true {
				x.Fail("L", "session never finished (blocked %v) [proto=%s idle=%s]", x.EndBlocked, p["proto"], p["idle"])
			}
		},
		Instances: func(tier string) []explore.Params {
			var out []explore.Params
			if name == "uptime_session" { // 200 and 400 days (in ms), with and without AutoMTLS
				// (gRPC without multiplexing only: yamux's 30 s keep-alive would tick half a million times)
				for _, proto := range []string{"grpc"} {
					for _, tl := range []string{"auto", ""} {
						out = append(out, explore.Params{"proto": proto, "idle": "17280000000", "tls": tl})
						if tier == "thorough" {
							out = append(out, explore.Params{"proto": proto, "idle": "34560000000", "tls": tl})
						}
					}
				}
				return out
			}
			idles := []string{"150000"}
			if tier == "thorough" {
				idles = append(idles, "45000", "720000")
			}
			for _, proto := range []string{"netrpc", "grpc", "grpcmux"} {
				for _, i := range idles {
					out = append(out, explore.Params{"proto": proto, "idle": i})
				}
			}
			return out
		},
	})
}
