package scen

import (
	"bytes"
	"encoding/binary"
	"fmt"
	"io"
	"net"
	"net/rpc"
	"sync"
	"time"

	plugin "github.com/hashicorp/go-plugin"

	"verif/engine/explore"
	"verif/engine/vnet"
	"verif/engine/vs"
)

// rawYamuxHost is a hand-written yamux client (another implementation of the multiplexing protocol: 12-byte headers,
// streams 1, 3, 5 opened with SYN), just enough of it to be the host of a net/rpc plugin: stream 1 carries net/rpc
// (the control service), streams 3 and 5 are the plugin's stdout and stderr.
type rawYamuxHost struct {
	c    net.Conn
	wmu  sync.Mutex
	mu   sync.Mutex
	cond *sync.Cond
	buf  map[uint32]*bytes.Buffer
	fin  map[uint32]bool
	err  error
}

const (
	yData, yWindow, yPing, yGoAway = 0, 1, 2, 3
	ySYN, yACK, yFIN, yRST         = 1, 2, 4, 8
)

func (h *rawYamuxHost) frame(typ byte, flags uint16, id, length uint32, payload []byte) error {
	var hdr [12]byte
	hdr[0], hdr[1] = 0, typ
	binary.BigEndian.PutUint16(hdr[2:], flags)
	binary.BigEndian.PutUint32(hdr[4:], id)
	binary.BigEndian.PutUint32(hdr[8:], length)
	h.wmu.Lock()
	defer h.wmu.Unlock()
	if _, err := h.c.Write(append(hdr[:], payload...)); err != nil {
		return err
	}
	return nil
}

func (h *rawYamuxHost) readLoop() {
	for {
		var hdr [12]byte
		if _, err := io.ReadFull(h.c, hdr[:]); err != nil {
			h.mu.Lock()
			h.err = err
			h.cond.Broadcast()
			h.mu.Unlock()
			return
		}
		typ, flags := hdr[1], binary.BigEndian.Uint16(hdr[2:])
		id, n := binary.BigEndian.Uint32(hdr[4:]), binary.BigEndian.Uint32(hdr[8:])
		switch typ {
		case yData:
			p := make([]byte, n)
			if _, err := io.ReadFull(h.c, p); err != nil {
				return
			}
			h.mu.Lock()
			if h.buf[id] == nil {
				h.buf[id] = &bytes.Buffer{}
			}
			h.buf[id].Write(p)
			if flags&(yFIN|yRST) != 0 {
				h.fin[id] = true
			}
			h.cond.Broadcast()
			h.mu.Unlock()
			if n > 0 {
				h.frame(yWindow, 0, id, n, nil) // give the window back
			}
		case yWindow:
			if flags&(yFIN|yRST) != 0 {
				h.mu.Lock()
				h.fin[id] = true
				h.cond.Broadcast()
				h.mu.Unlock()
			}
		case yPing:
			if flags&ySYN != 0 {
				h.frame(yPing, yACK, 0, n, nil)
			}
		case yGoAway:
			return
		}
	}
}

// stream 1 as an io.ReadWriteCloser for net/rpc
type rawStream struct {
	h  *rawYamuxHost
	id uint32
}

func (s rawStream) Write(p []byte) (int, error) {
	return len(p), s.h.frame(yData, 0, s.id, uint32(len(p)), p)
}
func (s rawStream) Read(p []byte) (int, error) {
	s.h.mu.Lock()
	defer s.h.mu.Unlock()
	for {
		if b := s.h.buf[s.id]; b != nil && b.Len() > 0 {
			return b.Read(p)
		}
		if s.h.fin[s.id] || s.h.err != nil {
			return 0, io.EOF
		}
		s.h.cond.Wait()
	}
}
func (s rawStream) Close() error { return s.h.frame(yWindow, yFIN, s.id, 0, nil) }

// raw_netrpc_host — C11 (net/rpc leg) with a hand-written host: it opens the control, stdout and stderr streams like
// go-plugin's RPCClient does, and then — unlike it, but legally — sends FIN on its (unused) sending side of the two
// stdio streams and keeps reading them. params: fin=0|1.
func init() {
	explore.Register(&explore.Scenario{
		Name:    "raw_netrpc_host",
		Horizon: 60 * time.Second,
		Settle:  3 * time.Second,
		Body: func(x *vs.Exec, p explore.Params) {
			x.Hold()
			a, b := vnet.NewPair(x.Domain("host"), x.Domain("plugin"))
			pd := x.Domain("plugin")
			outR, outW := vnet.NewPipe(64*1024, pd)
			errR, errW := vnet.NewPipe(64*1024, pd)
			done := make(chan struct{})
			x.Go("plugin", func() {
				srv := &plugin.RPCServer{Plugins: plugin.PluginSet{"p": &tagPlugin{tag: "t"}}, Stdout: outR, Stderr: errR, DoneCh: done}
				srv.ServeConn(b)
			})
			h := &rawYamuxHost{c: a, buf: map[uint32]*bytes.Buffer{}, fin: map[uint32]bool{}}
			h.cond = sync.NewCond(&h.mu)
			x.OnCleanup(func() { a.Close(); b.Close(); outW.Close(); errW.Close() })
			x.Go("host", h.readLoop)
			for _, id := range []uint32{1, 3, 5} { // control, stdout, stderr: the order RPCClient opens them in
				h.frame(yWindow, ySYN, id, 0, nil)
			}
			ctl := rpc.NewClient(rawStream{h, 1})
			x.Release()
			ping := func(when string) {
				var empty struct{}
				if err := ctl.Call("Control.Ping", true, &empty); err != nil {
					failT(x, "Control.Ping %s: %v", when, err)
				}
			}
			ping("before")
			if p["fin"] == "1" {
				h.frame(yWindow, yFIN, 3, 0, nil)
				h.frame(yWindow, yFIN, 5, 0, nil)
				x.Pause(50 * time.Millisecond)
			}
			wantOut, wantErr := pattern(0x41, 11266), pattern(0x61, 6145)
			x.Go("plugin", func() {
				for _, n := range []int{1, 1023, 1024, 1025, 4096, 4097} {
					outW.Write(wantOut[:n])
					wantOut = wantOut[n:]
				}
			})
			x.Go("plugin", func() {
				for _, n := range []int{1024, 1, 4096, 1024} {
					errW.Write(wantErr[:n])
					wantErr = wantErr[n:]
				}
			})
			fullOut, fullErr := pattern(0x41, 11266), pattern(0x61, 6145)
			for i := 0; i < 100; i++ {
				h.mu.Lock()
				no, ne := 0, 0
				if h.buf[3] != nil {
					no = h.buf[3].Len()
				}
				if h.buf[5] != nil {
					ne = h.buf[5].Len()
				}
				h.mu.Unlock()
				if no >= len(fullOut) && ne >= len(fullErr) {
					break
				}
				x.Pause(100 * time.Millisecond)
			}
			ping("after")
			h.mu.Lock()
			get := func(id uint32) []byte {
				if h.buf[id] == nil {
					return nil
				}
				return append([]byte(nil), h.buf[id].Bytes()...)
			}
			x.Put("gotOut", get(3))
			x.Put("gotErr", get(5))
			h.mu.Unlock()
			x.Put("wantOut", fullOut)
			x.Put("wantErr", fullErr)
			x.Put("completed", true)
			ctl.Close()
		},
		Check: func(x *vs.Exec, p explore.Params) {
			if x.Data["completed"] != true {
				if len(x.Violations()) == 0 && x.Data["session-disturbed"] != true {
					x.Fail("L", "session never finished (blocked %v)", x.EndBlocked)
				}
				return
			}
			for _, s := range []string{"Out", "Err"} {
				got, want := x.Data["got"+s].([]byte), x.Data["want"+s].([]byte)
				if bytes.Equal(got, want) || (x.TimeDevs > 0 && len(got) < len(want) && bytes.Equal(got, want[:len(got)])) {
					continue
				}
				n := 0
				for n < len(got) && n < len(want) && got[n] == want[n] {
					n++
				}
				x.Fail("S", "std%s stream: the hand-written host received %d bytes, the plugin wrote %d; first difference at offset %d [fin=%s]", s, len(got), len(want), n, p["fin"])
			}
		},
		Instances: func(tier string) []explore.Params {
			return []explore.Params{{"fin": "0"}, {"fin": "1"}}
		},
	})
}

var _ = fmt.Sprint
