package scen

import (
	"context"
	"errors"
	"io"
	"net/rpc"
	"time"
	"verif/engine/vs"

	plugin "github.com/hashicorp/go-plugin"
	grpctest "github.com/hashicorp/go-plugin/test/grpc"
	"google.golang.org/grpc"
)

// ---- net/rpc test plugin: one object per Dispense, answering its tag; Slow blocks until released.

type tagRPCServer struct {
	tag   string
	block chan struct{} // Slow waits on it (nil: returns at once)
}

func (s *tagRPCServer) Tag(_ int, out *string) error { *out = s.tag; return nil }
func (s *tagRPCServer) Slow(_ int, out *string) error {
	if s.block != nil {
		<-s.block
	}
	*out = s.tag
	return nil
}

type tagRPCPlugin struct {
	mk     func() *tagRPCServer
	sb, cb *plugin.MuxBroker
}

func (p *tagRPCPlugin) Server(b *plugin.MuxBroker) (interface{}, error) {
	p.sb = b
	return p.mk(), nil
}
func (p *tagRPCPlugin) Client(b *plugin.MuxBroker, c *rpc.Client) (interface{}, error) {
	p.cb = b
	return c, nil
}

// failingRPCPlugin's Server() fails, after a scheduling point (so that other dispenses can overlap with it).
type failingRPCPlugin struct{}

func (failingRPCPlugin) Server(*plugin.MuxBroker) (interface{}, error) {
	vs.Point("failing-Server()")
	return nil, errors.New("this plugin cannot be served")
}
func (failingRPCPlugin) Client(*plugin.MuxBroker, *rpc.Client) (interface{}, error) {
	return nil, errors.New("no client")
}

// ---- gRPC test plugin: PingPong "main" + a Test service whose Stream blocks (a call in flight).

type slowTestServer struct {
	grpctest.UnimplementedTestServer
	block chan struct{}
}

func (s *slowTestServer) Double(ctx context.Context, r *grpctest.TestRequest) (*grpctest.TestResponse, error) {
	if s.block != nil {
		select {
		case <-s.block:
		case <-ctx.Done():
			return nil, ctx.Err()
		}
	}
	return &grpctest.TestResponse{Output: r.Input * 2}, nil
}

// Stream echoes doubled inputs until the client closes its side.
func (s *slowTestServer) Stream(st grpctest.Test_StreamServer) error {
	for {
		r, err := st.Recv()
		if err != nil {
			if err == io.EOF {
				return nil
			}
			return err
		}
		if err := st.Send(&grpctest.TestResponse{Output: r.Input * 2}); err != nil {
			return err
		}
	}
}

type fullGRPCPlugin struct {
	plugin.NetRPCUnsupportedPlugin
	block  chan struct{}
	sb, cb *plugin.GRPCBroker
	ctx    context.Context
	cc     *grpc.ClientConn
}

func (g *fullGRPCPlugin) GRPCServer(b *plugin.GRPCBroker, s *grpc.Server) error {
	g.sb = b
	grpctest.RegisterPingPongServer(s, &ppServer{tag: "main"})
	grpctest.RegisterTestServer(s, &slowTestServer{block: g.block})
	return nil
}

func (g *fullGRPCPlugin) GRPCClient(ctx context.Context, b *plugin.GRPCBroker, c *grpc.ClientConn) (interface{}, error) {
	g.cb, g.ctx, g.cc = b, ctx, c
	return c, nil
}

var _ = time.Second
