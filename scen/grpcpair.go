package scen

import (
	"bytes"
	"context"
	"crypto/tls"
	"fmt"
	"io"
	"net"
	"time"

	hclog "github.com/hashicorp/go-hclog"
	plugin "github.com/hashicorp/go-plugin"
	grpctest "github.com/hashicorp/go-plugin/test/grpc"
	"google.golang.org/grpc"
	"google.golang.org/grpc/keepalive"

	"verif/engine/vnet"
	"verif/engine/vs"
)

// ppServer answers PingPong.Ping with a fixed tag.
type ppServer struct {
	grpctest.UnimplementedPingPongServer
	tag string
}

func (p *ppServer) Ping(context.Context, *grpctest.PingRequest) (*grpctest.PongResponse, error) {
	return &grpctest.PongResponse{Msg: p.tag}, nil
}

// grabPlugin hands both brokers (and the client context) to the harness and
// registers a PingPong service tagged "main" on the plugin's main server.
type grabPlugin struct {
	plugin.NetRPCUnsupportedPlugin
	sb  *plugin.GRPCBroker
	cb  *plugin.GRPCBroker
	ctx context.Context
	cc  *grpc.ClientConn
}

func (g *grabPlugin) GRPCServer(b *plugin.GRPCBroker, s *grpc.Server) error {
	g.sb = b
	grpctest.RegisterPingPongServer(s, &ppServer{tag: "main"})
	return nil
}

func (g *grabPlugin) GRPCClient(ctx context.Context, b *plugin.GRPCBroker, c *grpc.ClientConn) (interface{}, error) {
	g.cb, g.ctx, g.cc = b, ctx, c
	return c, nil
}

type grpcPair struct {
	g      *grabPlugin
	srv    *plugin.GRPCServer
	cl     *plugin.Client
	gc     *plugin.GRPCClient
	hb, pb *plugin.GRPCBroker
}

// xlateRunner is an AttachedRunner whose only job is address translation between the
// plugin's and the host's view of socket paths (DESIGN 9: vnet namespaces).
type xlateRunner struct{}

func (xlateRunner) Wait(context.Context) error { select {} }
func (xlateRunner) Kill(context.Context) error { return nil }
func (xlateRunner) ID() string                 { return "xlate" }
func (xlateRunner) PluginToHost(n, a string) (string, string, error) {
	return n, vnet.ViewPrefix("host") + a, nil
}
func (xlateRunner) HostToPlugin(n, a string) (string, string, error) {
	return n, vnet.ViewPrefix("plugin") + a, nil
}

type grpcPairOpts struct {
	xlate     bool
	mux       bool
	hostTLS   *tls.Config
	pluginTLS *tls.Config
	stdout    io.Reader
	stderr    io.Reader
	syncOut   io.Writer
	syncErr   io.Writer
	mainAge   time.Duration // the plugin author's GRPCServer constructor sets keepalive MaxConnectionAge on the main server
}

func nullLogger() hclog.Logger { return hclog.NewNullLogger() }

// newGRPCPair starts a GRPCServer in domain "plugin" and a real GRPCClient in
// the calling (host) goroutine, dispenses once so that both brokers are known.
func newGRPCPair(x *vs.Exec, o grpcPairOpts) (*grpcPair, error) {
	g := &grabPlugin{}
	ps := map[string]plugin.Plugin{"g": g}
	p := &grpcPair{g: g}
	type res struct {
		addr interface{}
		err  error
	}
	ready := make(chan error, 1)
	var lnAddr interface {
		Network() string
		String() string
	}
	if o.stdout == nil {
		o.stdout = new(bytes.Buffer)
	}
	if o.stderr == nil {
		o.stderr = new(bytes.Buffer)
	}
	var mkServer func([]grpc.ServerOption) *grpc.Server
	if o.mainAge > 0 {
		mkServer = func(opts []grpc.ServerOption) *grpc.Server {
			return grpc.NewServer(append(opts, grpc.KeepaliveParams(keepalive.ServerParameters{MaxConnectionAge: o.mainAge}))...)
		}
	}
	x.Go("plugin", func() {
		s, ln, err := plugin.VStartGRPCServer(plugin.VGRPCOpts{Plugins: ps, TLS: o.pluginTLS, Mux: o.mux, Stdout: o.stdout, Stderr: o.stderr, Logger: nullLogger(), Server: mkServer})
		if err == nil {
			p.srv = s
			lnAddr = ln.Addr()
			x.OnCleanup(func() { s.Stop() })
		}
		ready <- err
	})
	if err := <-ready; err != nil {
		return nil, err
	}
	vs.Point("pair-ready")
	cfg := &plugin.ClientConfig{Plugins: ps, GRPCBrokerMultiplex: o.mux, TLSConfig: o.hostTLS, Logger: nullLogger(), SyncStdout: o.syncOut, SyncStderr: o.syncErr}
	if cfg.SyncStdout == nil {
		cfg.SyncStdout = io.Discard
	}
	if cfg.SyncStderr == nil {
		cfg.SyncStderr = io.Discard
	}
	if o.xlate {
		vnet.SetNamespaces(true)
		ua := &net.UnixAddr{Net: "unix", Name: vnet.ViewPrefix("host") + lnAddr.String()}
		p.cl = plugin.VNewClientAt(ua, plugin.ProtocolGRPC, cfg, xlateRunner{})
	} else {
		p.cl = plugin.VNewClientAt(lnAddr, plugin.ProtocolGRPC, cfg, nil)
	}
	cp, err := p.cl.Client()
	if err != nil {
		return nil, err
	}
	p.gc = cp.(*plugin.GRPCClient)
	x.OnCleanup(func() { p.gc.Close() })
	if _, err := p.gc.Dispense("g"); err != nil {
		return nil, err
	}
	if err := p.gc.Ping(); err != nil { // the main connection must really be up before the subject starts
		return nil, fmt.Errorf("main connection: %w", err)
	}
	p.hb, p.pb = g.cb, g.sb
	return p, nil
}

func (p *grpcPair) side(s byte) (*plugin.GRPCBroker, string) {
	if s == 'h' {
		return p.hb, "host"
	}
	return p.pb, "plugin"
}

func pingTag(ctx context.Context, cc *grpc.ClientConn) (string, error) {
	r, err := grpctest.NewPingPongClient(cc).Ping(ctx, &grpctest.PingRequest{})
	if err != nil {
		return "", err
	}
	return r.Msg, nil
}
