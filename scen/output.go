package scen

import (
	"bytes"
	"errors"
	"fmt"
	"io"
	"log"
	"os"
	"strconv"
	"strings"
	"sync"
	"sync/atomic"
	"time"

	hclog "github.com/hashicorp/go-hclog"
	plugin "github.com/hashicorp/go-plugin"

	"verif/engine/explore"
	"verif/engine/vs"
)

// recLogger records every log call (level, message, args) of the client's
// plugin-output logger.
type logRec struct {
	level hclog.Level
	msg   string
	args  []interface{}
	name  string
}

type recLogger struct {
	mu   *sync.Mutex
	recs *[]logRec
	name string
	// the level the logger reports through IsTrace..IsError (shared with its named children, changed by SetLevel like
	// hclog's); every call is recorded whatever the level, as an intercepting sink would see it
	lvl *atomic.Int32
}

func newRecLogger() *recLogger {
	l := &recLogger{mu: &sync.Mutex{}, recs: &[]logRec{}, lvl: &atomic.Int32{}}
	l.lvl.Store(int32(hclog.Trace))
	return l
}

func (l *recLogger) Log(level hclog.Level, msg string, args ...interface{}) {
	l.mu.Lock()
	*l.recs = append(*l.recs, logRec{level, msg, args, l.name})
	l.mu.Unlock()
}
func (l *recLogger) Trace(m string, a ...interface{}) { l.Log(hclog.Trace, m, a...) }
func (l *recLogger) Debug(m string, a ...interface{}) { l.Log(hclog.Debug, m, a...) }
func (l *recLogger) Info(m string, a ...interface{})  { l.Log(hclog.Info, m, a...) }
func (l *recLogger) Warn(m string, a ...interface{})  { l.Log(hclog.Warn, m, a...) }
func (l *recLogger) Error(m string, a ...interface{}) { l.Log(hclog.Error, m, a...) }
func (l *recLogger) IsTrace() bool                    { return l.lvl.Load() <= int32(hclog.Trace) }
func (l *recLogger) IsDebug() bool                    { return l.lvl.Load() <= int32(hclog.Debug) }
func (l *recLogger) IsInfo() bool                     { return l.lvl.Load() <= int32(hclog.Info) }
func (l *recLogger) IsWarn() bool                     { return l.lvl.Load() <= int32(hclog.Warn) }
func (l *recLogger) IsError() bool                    { return l.lvl.Load() <= int32(hclog.Error) }
func (l *recLogger) ImpliedArgs() []interface{}       { return nil }
func (l *recLogger) With(...interface{}) hclog.Logger { return l }
func (l *recLogger) Name() string                     { return l.name }
func (l *recLogger) Named(n string) hclog.Logger {
	return &recLogger{mu: l.mu, recs: l.recs, name: l.name + "/" + n, lvl: l.lvl}
}
func (l *recLogger) ResetNamed(n string) hclog.Logger {
	return &recLogger{mu: l.mu, recs: l.recs, name: n, lvl: l.lvl}
}
func (l *recLogger) SetLevel(v hclog.Level) { l.lvl.Store(int32(v)) }
func (l *recLogger) StandardLogger(*hclog.StandardLoggerOptions) *log.Logger {
	return log.New(io.Discard, "", 0)
}
func (l *recLogger) StandardWriter(*hclog.StandardLoggerOptions) io.Writer { return io.Discard }

// pluginRecs returns the records of the plugin-output logger (named after the runner).
func (l *recLogger) pluginRecs() []logRec {
	l.mu.Lock()
	defer l.mu.Unlock()
	var out []logRec
	for _, r := range *l.recs {
		if strings.HasSuffix(r.name, "/scripted-plugin") {
			out = append(out, r)
		}
	}
	return out
}

// ---- stderr line alphabet; index = position in errAlpha. B-relative entries are resolved per buffer size.
var errAlpha = []string{
	"plain text line",
	"[TRACE] t",
	"[DEBUG] d",
	"[INFO] i",
	"[WARN] w",
	"[ERROR] e",
	"panic: boom",
	"goroutine 1 [running]:",
	"",
	`{"@level":"trace","@message":"jt","@timestamp":"2017-07-31T13:03:41.012557-07:00"}`,
	`{"@level":"debug","@message":"jd","k":"v"}`,
	`{"@level":"info","@message":"ji","n":1,"nested":{"a":[1,2]}}`,
	`{"@level":"warn","@message":"jw","@timestamp":"2017-07-31T13:03:41.012557-07:00","k1":"v1","k2":2}`,
	`{"@level":"error","@message":"je"}`,
	`{"@level":"nonsense","@message":"jn"}`,
	`{"@message":"no level"}`,
	`{"@message":1}`,
	`{"@level":2,"@message":"m"}`,
	`{"@message":null,"@level":"info"}`,
	`{"@level":"info","@message":{"o":1}}`,
	`{"@level":"info","@message":"m","@timestamp":12345}`,
	`{"@level":"info","@message":"m","@timestamp":"yesterday"}`,
	`[1,2,3]`,
	`42`,
	`"a json string"`,
	`null`,
	`true`,
	`{"a":1,"a":2,"@level":"info","@message":"dup"}`,
	`{"@level":"info","@message":"trailing"} x`,
	`{"@level":"INFO","@message":"upper"}`, // hclog accepts levels in any case and with surrounding blanks
	`{"@level":"Warn","@message":"mixed","k":"v"}`,
	`{"@level":" debug ","@message":"padded"}`,
	`{"@message":7,"request_id":"abc-123"}`,                // rejected after decoding, with a field that must not leak anywhere
	`  {"@level":"info","@message":"indented","free":"1"}`, // JSON may be preceded by blanks
	"\t" + `{"@level":"warn","@message":"tabbed"}`,
	"LEN:B-3", // a text line of that length
	"LEN:B-1",
	"LEN:B",
	"LEN:B+1",
	"LEN:2B+3",
	"CRLF:[WARN] crlf",
	// a level tag (or "panic:") followed directly by something other than a blank
	"[ERROR]: disk full",
	"[WARN]\tfoo",
	"[INFO]plugin ready",
	"[DEBUG][http] GET /",
	"panic:boom",
	"[TRACE]x",
}

// errAlphaBig: entries used only by the big-buffer instances (index 1000+i): lines a little shorter than a multi-megabyte buffer
var errAlphaBig = []string{"JSONLEN:B-100", "TAGLEN:B-100", "JSONLEN:B/2+7", "LEN:B-3"}

func errTok(i int) string {
	if i >= 1000 {
		return errAlphaBig[i-1000]
	}
	return errAlpha[i]
}

func errLine(tok string, B int) (content string, eol string) {
	eol = "\n"
	if strings.HasPrefix(tok, "JSONLEN:") || strings.HasPrefix(tok, "TAGLEN:") {
		n := B - 100
		if strings.HasSuffix(tok, "B/2+7") {
			n = B/2 + 7
		}
		head, tail := `{"@level":"warn","@message":"big line","k":"v","blob":"`, `"}`
		if strings.HasPrefix(tok, "TAGLEN:") {
			head, tail = "[WARN] ", ""
		}
		b := make([]byte, n-len(head)-len(tail))
		for i := range b {
			b[i] = 'a' + byte(i%26)
		}
		return head + string(b) + tail, eol
	}
	if strings.HasPrefix(tok, "CRLF:") {
		return tok[5:], "\r\n"
	}
	if strings.HasPrefix(tok, "LEN:") {
		n := 0
		switch tok[4:] {
		case "B-3":
			n = B - 3
		case "B-1":
			n = B - 1
		case "B":
			n = B
		case "B+1":
			n = B + 1
		case "2B+3":
			n = 2*B + 3
		}
		b := make([]byte, n)
		for i := range b {
			b[i] = 'a' + byte(i%26)
		}
		return string(b), eol
	}
	return tok, eol
}

type refRec struct {
	any    bool // only "some single record" is required
	either bool // debug or error: the line follows a panic trace interrupted by a line the property does not classify
	level  hclog.Level
	msg    string
	kv     map[string]string // expected key -> fmt("%v") of value, plus "timestamp" presence
	isJSON bool
}

// refStderr is the reference model: forwarded bytes and, for lines shorter
// than the buffer, the expected log record.
func refStderr(toks []string, B int, finalNL bool) (fwd []byte, recs []*refRec) {
	// panic-trace state: off, on, or undetermined (after a JSON object with wrongly typed hclog fields
	// inside a trace: the statement does not say whether such a line ends the trace)
	const (
		off = iota
		on
		undetermined
	)
	panicMode := off
	for _, t := range toks {
		c, _ := errLine(t, B)
		fwd = append(fwd, c...)
		fwd = append(fwd, '\n')
		if len(c)+2 > B {
			recs = append(recs, nil) // long line: byte fidelity only; it does not end a panic trace
			continue
		}
		r := &refRec{}
		lvl, msg, kv, isHclog, weird := refParseJSON(c)
		switch {
		case weird:
			// JSON object whose @message/@level/@timestamp is not a string (or a bad timestamp): the
			// property only demands that the host survives and forwards the line; one record of any shape
			r.any = true
			if panicMode == on {
				panicMode = undetermined
			}
		case isHclog:
			r.level, r.msg, r.kv, r.isJSON = lvl, msg, kv, true
			panicMode = off
		default:
			r.msg = c
			switch {
			case strings.HasPrefix(c, "[TRACE]"):
				r.level, panicMode = hclog.Trace, off
			case strings.HasPrefix(c, "[DEBUG]"):
				r.level, panicMode = hclog.Debug, off
			case strings.HasPrefix(c, "[INFO]"):
				r.level, panicMode = hclog.Info, off
			case strings.HasPrefix(c, "[WARN]"):
				r.level, panicMode = hclog.Warn, off
			case strings.HasPrefix(c, "[ERROR]"):
				r.level, panicMode = hclog.Error, off
			case strings.HasPrefix(c, "panic:"):
				r.level, panicMode = hclog.Error, on
			default:
				r.level = hclog.Debug
				switch panicMode {
				case on:
					r.level = hclog.Error
				case undetermined:
					r.either = true
				}
				if refIsJSONObject(c) {
					// valid JSON object without a usable hclog level: logged verbatim at debug, and it ends a panic trace
					r.level, r.either = hclog.Debug, false
					panicMode = off
				}
			}
		}
		recs = append(recs, r)
	}
	return
}

// plugin_output — C10. params: B (buffer size), err (comma separated indices
// into errAlpha), nl (1 = final newline), out (comma separated stdout line lengths), onl.
func init() {
	explore.Register(&explore.Scenario{
		Name:    "plugin_output",
		Horizon: 40 * time.Second,
		Settle:  2 * time.Second,
		Body: func(x *vs.Exec, p explore.Params) {
			B := atoi(p["B"])
			var toks []string
			if p["err"] != "" {
				for _, f := range strings.Split(p["err"], ",") {
					toks = append(toks, errTok(atoi(f)))
				}
			}
			var errBytes []byte
			for i, t := range toks {
				c, eol := errLine(t, B)
				errBytes = append(errBytes, c...)
				if i < len(toks)-1 || p["nl"] == "1" {
					errBytes = append(errBytes, eol...)
				}
			}
			var outBytes []byte
			if p["out"] != "" {
				fs := strings.Split(p["out"], ",")
				for i, f := range fs {
					outBytes = append(outBytes, bytes.Repeat([]byte{'o'}, atoi(f))...)
					if i < len(fs)-1 || p["onl"] == "1" {
						outBytes = append(outBytes, '\n')
					}
				}
			}
			wrote := make(chan string, 2)
			lg := newRecLogger()
			if p["lvl"] == "late" {
				// the application's logger is at INFO while the client is created and started and is turned up to TRACE
				// (a log-level reload) before the plugin produces any output
				lg.SetLevel(hclog.Info)
			}
			r := newScriptRunner(x, func(r *scriptRunner) {
				fmt.Fprintf(r.stdout, "1|1|tcp|127.0.0.1:1234|netrpc|\n")
				if p["lvl"] == "late" {
					r.x.Pause(50 * time.Millisecond)
					lg.SetLevel(hclog.Trace)
				}
				go func() { r.stderr.Write(errBytes); wrote <- "stderr" }()
				go func() { r.stdout.Write(outBytes); wrote <- "stdout" }()
				r.waitKilled()
			})
			var fwd bytes.Buffer
			wcalls := 0
			var fmu sync.Mutex
			cfg := &plugin.ClientConfig{
				HandshakeConfig: plugin.HandshakeConfig{MagicCookieKey: "VK", MagicCookieValue: "vv", ProtocolVersion: 1},
				Plugins:         plugin.PluginSet{"p": &tagPlugin{tag: "t"}},
				RunnerFunc:      r.runnerFunc,
				StartTimeout:    5 * time.Second,
				Logger:          lg,
				Stderr: writerFunc(func(b []byte) (int, error) {
					fmu.Lock()
					defer fmu.Unlock()
					wcalls++
					if p["werr"] != "" && wcalls == atoi(p["werr"]) {
						// the application's writer fails this one call (a full disk, a broken pipe): legal for an io.Writer
						return 0, errors.New("write failed (injected by the application's writer)")
					}
					return fwd.Write(b)
				}),
				PluginLogBufferSize: B,
				UnixSocketConfig:    &plugin.UnixSocketConfig{TempDir: os.Getenv("TMPDIR")},
			}
			cl := plugin.NewClient(cfg)
			x.Put("r", r)
			x.Put("lg", lg)
			x.Put("toks", toks)
			x.OnCleanup(r.exit)
			if _, err := cl.Start(); err != nil {
				x.Fail("ENGINE", "Start: %v", err)
				return
			}
			// wait for both writers (they finish iff the host keeps consuming) or give up after 20 s
			got := map[string]bool{}
			deadline := time.After(20 * time.Second)
		wait:
			for len(got) < 2 {
				select {
				case w := <-wrote:
					got[w] = true
				case <-deadline:
					break wait
				}
			}
			vs.Point("writers-done")
			x.Put("wrote", got)
			cl.Kill() // EOF on the pipes: the last unterminated line is delivered
			x.Put("exitedAfterKill", cl.Exited())
			fmu.Lock()
			x.Put("fwd", append([]byte(nil), fwd.Bytes()...))
			fmu.Unlock()
			x.Put("completed", true)
		},
		Check: func(x *vs.Exec, p explore.Params) {
			B := atoi(p["B"])
			desc := fmt.Sprintf("B=%s stderr=[%s] nl=%s stdout=[%s] onl=%s", p["B"], descErr(p["err"]), p["nl"], p["out"], p["onl"])
			x.Put("nontrivial", strings.Contains(p["err"], ",") || strings.Contains(p["out"], ",") || p["err"] != "0")
			if x.Data["completed"] != true {
				if len(x.Violations()) == 0 {
					x.Fail("L", "scenario never finished (blocked %v) [%s]", x.EndBlocked, desc)
				}
				return
			}
			got := x.Data["wrote"].(map[string]bool)
			for _, w := range []string{"stderr", "stdout"} {
				if !got[w] {
					x.Fail("L", "the plugin's write to %s never completed: the host stopped consuming it [%s]", w, desc)
				}
			}
			if x.Data["exitedAfterKill"] != true {
				x.Fail("L", "Client.Exited() is false after Kill returned: the goroutine that waits for the process is stuck behind the output readers [%s]", desc)
			}
			toks := x.Data["toks"].([]string)
			if n := len(toks); n > 0 && p["nl"] != "1" {
				if c, _ := errLine(toks[n-1], B); c == "" {
					toks = toks[:n-1] // an empty unterminated tail is not a line
				}
			}
			wantFwd, wantRecs := refStderr(toks, B, p["nl"] == "1")
			fwd := x.Data["fwd"].([]byte)
			if p["nl"] != "1" && len(fwd)+1 == len(wantFwd) && bytes.Equal(fwd, wantFwd[:len(fwd)]) {
				// the final line had no newline: forwarding it with or without one is "unchanged"
				wantFwd = fwd
			}
			if p["werr"] != "" {
				// a write failed: what reached the writer is the application's business; records and liveness are still judged
			} else if !bytes.Equal(fwd, wantFwd) {
				x.Fail("S", "bytes forwarded to Stderr differ from the lines written: got %s want %s [%s]", abbrev(fwd), abbrev(wantFwd), desc)
			}
			recs := x.Data["lg"].(*recLogger).pluginRecs()
			// align records with lines: long lines may produce any number of records
			hasLong := false
			for _, w := range wantRecs {
				if w == nil {
					hasLong = true
				}
			}
			cmp := func(i int, g logRec, w *refRec) {
				if w.any {
					return
				}
				if w.either && (g.level == hclog.Debug || g.level == hclog.Error) {
					// accepted
				} else if g.level != w.level {
					x.Fail("S", "line %d logged at %s, expected %s [%s]", i+1, g.level, w.level, desc)
				}
				if g.msg != w.msg {
					x.Fail("S", "line %d logged with message %q, expected %q [%s]", i+1, g.msg, w.msg, desc)
				}
				if w.isJSON {
					gk := map[string]string{}
					for j := 0; j+1 < len(g.args); j += 2 {
						gk[fmt.Sprint(g.args[j])] = fmt.Sprint(g.args[j+1])
					}
					if _, ok := gk["timestamp"]; !ok {
						x.Fail("S", "line %d: hclog record without timestamp field [%s]", i+1, desc)
					}
					delete(gk, "timestamp")
					if fmt.Sprint(gk) != fmt.Sprint(w.kv) {
						x.Fail("S", "line %d: key/value fields %v, expected %v [%s]", i+1, gk, w.kv, desc)
					}
				}
			}
			if !hasLong {
				if len(recs) != len(wantRecs) {
					x.Fail("S", "%d log records for %d stderr lines [%s]", len(recs), len(wantRecs), desc)
				} else {
					for i, w := range wantRecs {
						cmp(i, recs[i], w)
					}
				}
			} else {
				// over-long lines produce one record per buffer-sized piece (how many is bufio's business): the
				// lines before the first and after the last over-long line are aligned from both ends, and the
				// records in between must carry, piece by piece, exactly the text of the lines in between
				first, last := -1, -1
				for i, w := range wantRecs {
					if w == nil {
						if first < 0 {
							first = i
						}
						last = i
					}
				}
				tail := len(wantRecs) - 1 - last
				if len(recs) < first+tail+1 {
					x.Fail("S", "%d log records for %d stderr lines [%s]", len(recs), len(wantRecs), desc)
				} else {
					for i := 0; i < first; i++ {
						cmp(i, recs[i], wantRecs[i])
					}
					for k := 0; k < tail; k++ {
						cmp(last+1+k, recs[len(recs)-tail+k], wantRecs[last+1+k])
					}
					if first == last {
						var got strings.Builder
						for _, g := range recs[first : len(recs)-tail] {
							got.WriteString(g.msg)
						}
						if c, _ := errLine(toks[first], B); got.String() != c {
							x.Fail("S", "the records of over-long line %d do not add up to the line: got %s [%s]", first+1, abbrev([]byte(got.String())), desc)
						}
					}
				}
			}
			for _, e := range x.EndBlocked {
				x.Fail("L", "blocked forever: %s [%s]", e, desc)
			}
		},
		Instances: func(tier string) []explore.Params {
			var out []explore.Params
			n := len(errAlpha)
			Bs := []string{"16", "64", "65536"}
			add := func(B string, idx []int, nl string) {
				var fs []string
				for _, i := range idx {
					fs = append(fs, strconv.Itoa(i))
				}
				out = append(out, explore.Params{"B": B, "err": strings.Join(fs, ","), "nl": nl, "out": "", "onl": "1"})
			}
			// buffers of several megabytes (PluginLogBufferSize is the application's to choose) with lines a little shorter than
			// the buffer, between ordinary lines: one record each, at the line's own level
			for _, B := range []string{"8388608", "5000000"} {
				for _, big := range []int{1000, 1001, 1002, 1003} {
					add(B, []int{3, big, 12}, "1")
				}
			}
			// a Stderr writer that fails one call (the 1st, 2nd or 3rd): the lines after it are still logged, nothing stalls
			for _, we := range []string{"1", "2", "3"} {
				for a := 0; a < n; a++ {
					out = append(out, explore.Params{"B": "64", "err": strconv.Itoa(a) + ",3," + strconv.Itoa(a), "nl": "1", "out": "", "onl": "1", "werr": we})
				}
				out = append(out, explore.Params{"B": "64", "err": "0,3,0", "nl": "1", "out": "200000", "onl": "1", "werr": we})
			}
			for _, B := range Bs {
				for a := 0; a < n; a++ {
					out = append(out, explore.Params{"B": B, "err": strconv.Itoa(a), "nl": "1", "out": "", "onl": "1", "lvl": "late"})
					if tier == "thorough" {
						for b := 0; b < n; b++ {
							out = append(out, explore.Params{"B": B, "err": strconv.Itoa(a) + "," + strconv.Itoa(b), "nl": "1", "out": "", "onl": "1", "lvl": "late"})
						}
					}
				}
			}
			for _, B := range Bs {
				for a := 0; a < n; a++ {
					add(B, []int{a}, "1")
					add(B, []int{a}, "0")
					for b := 0; b < n; b++ {
						add(B, []int{a, b}, "1")
						if tier == "thorough" {
							for c := 0; c < n; c++ {
								add(B, []int{a, b, c}, "1")
							}
						}
					}
				}
			}
			if tier != "thorough" {
				// quick: the triples that start a panic trace (state carried across lines): panic, any line, then a
				// plain / trace-header / over-long / levelled line
				idx := func(tok string) int {
					for i, t := range errAlpha {
						if t == tok {
							return i
						}
					}
					panic("no such token " + tok)
				}
				for _, B := range Bs {
					for b := 0; b < n; b++ {
						for _, c := range []string{"plain text line", "goroutine 1 [running]:", "LEN:B+1", "[INFO] i"} {
							add(B, []int{idx("panic: boom"), b, idx(c)}, "1")
						}
					}
				}
			}
			// stdout after the handshake
			lens := []string{"0", "1", "65535", "65536", "65537", "200000"}
			for _, a := range lens {
				for _, onl := range []string{"1", "0"} {
					out = append(out, explore.Params{"B": "64", "err": "0", "nl": "1", "out": a, "onl": onl})
					for _, b := range lens {
						out = append(out, explore.Params{"B": "64", "err": "0", "nl": "1", "out": a + "," + b, "onl": onl})
						if tier == "thorough" {
							for _, c := range lens {
								out = append(out, explore.Params{"B": "64", "err": "0", "nl": "1", "out": a + "," + b + "," + c, "onl": onl})
							}
						}
					}
				}
			}
			return out
		},
	})
}

type writerFunc func([]byte) (int, error)

func (f writerFunc) Write(b []byte) (int, error) { return f(b) }

func abbrev(b []byte) string {
	if len(b) > 120 {
		return fmt.Sprintf("%q...(%d bytes)", b[:100], len(b))
	}
	return fmt.Sprintf("%q", b)
}

func descErr(s string) string {
	if s == "" {
		return ""
	}
	var fs []string
	for _, f := range strings.Split(s, ",") {
		t := errTok(atoi(f))
		if len(t) > 60 {
			t = t[:60]
		}
		fs = append(fs, t)
	}
	return strings.Join(fs, " ⏎ ")
}
