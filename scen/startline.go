package scen

import (
	"crypto/ecdsa"
	"crypto/elliptic"
	crand "crypto/rand"
	"crypto/tls"
	"crypto/x509"
	"crypto/x509/pkix"
	"encoding/base64"
	"encoding/pem"
	"fmt"
	"math/big"
	"net"
	"os"
	"strconv"
	"strings"
	"time"

	plugin "github.com/hashicorp/go-plugin"

	"verif/engine/explore"
	"verif/engine/vs"
)

// ---- client configurations (C01/C05): index -> config

type startCfg struct {
	allowed  []plugin.Protocol // nil = default
	versions []int             // offered via VersionedPlugins
	legacy   int               // -1: no legacy Plugins field; else ProtocolVersion for the legacy field
	tls      string            // none | static | auto
	mux      bool
}

func (c startCfg) String() string {
	return fmt.Sprintf("allowed=%v versions=%v legacy=%d tls=%s mux=%v", c.allowed, c.versions, c.legacy, c.tls, c.mux)
}

func allStartCfgs() []startCfg {
	var out []startCfg
	for _, al := range [][]plugin.Protocol{nil, {plugin.ProtocolNetRPC}, {plugin.ProtocolGRPC}, {plugin.ProtocolNetRPC, plugin.ProtocolGRPC}} {
		for _, vs := range []struct {
			v []int
			l int
		}{{nil, 1}, {[]int{1, 2}, -1}, {[]int{2}, 1}} {
			for _, t := range []string{"none", "static", "auto"} {
				for _, m := range []bool{false, true} {
					out = append(out, startCfg{allowed: al, versions: vs.v, legacy: vs.l, tls: t, mux: m})
				}
			}
		}
	}
	return out
}

func (c startCfg) offered() map[int]bool {
	m := map[int]bool{}
	for _, v := range c.versions {
		m[v] = true
	}
	if c.legacy >= 0 {
		m[c.legacy] = true
	}
	return m
}

func (c startCfg) allowedSet() map[string]bool {
	if c.allowed == nil {
		return map[string]bool{"netrpc": true}
	}
	m := map[string]bool{}
	for _, p := range c.allowed {
		m[string(p)] = true
	}
	return m
}

type tagPlugin struct {
	plugin.NetRPCUnsupportedPlugin
	tag string
}

var staticTLS *tls.Config
var staticLeaf *x509.Certificate
var realCertB64, realCert2B64, realCertJunkB64, realCertNoSANB64, realCertIPSANB64 string

func init() {
	// a self-signed certificate generated once per process (contents never influence control flow)
	certPEM, keyPEM, err := plugin.VGenerateCert()
	if err != nil {
		panic(err)
	}
	cert, err := tls.X509KeyPair(certPEM, keyPEM)
	if err != nil {
		panic(err)
	}
	staticTLS = &tls.Config{Certificates: []tls.Certificate{cert}, InsecureSkipVerify: true}
	blk, _ := pem.Decode(certPEM)
	staticLeaf, _ = x509.ParseCertificate(blk.Bytes)
	realCertB64 = base64.RawStdEncoding.EncodeToString(blk.Bytes)
	realCert2B64 = base64.RawStdEncoding.EncodeToString(append(append([]byte(nil), blk.Bytes...), blk.Bytes...))
	realCertJunkB64 = base64.RawStdEncoding.EncodeToString(append(append([]byte(nil), blk.Bytes...), 0, 1))
	// certificates as a plugin that is not go-plugin's Serve may make them: without any subjectAltName, or with an IP address only
	mk := func(ips []net.IP) string {
		key, err := ecdsa.GenerateKey(elliptic.P256(), crand.Reader)
		if err != nil {
			panic(err)
		}
		tmpl := &x509.Certificate{SerialNumber: big.NewInt(11), Subject: pkix.Name{CommonName: "plugin"}, IPAddresses: ips,
			NotBefore: time.Now().Add(-time.Hour), NotAfter: time.Now().Add(100 * 365 * 24 * time.Hour), IsCA: true, BasicConstraintsValid: true,
			KeyUsage: x509.KeyUsageDigitalSignature | x509.KeyUsageCertSign, ExtKeyUsage: []x509.ExtKeyUsage{x509.ExtKeyUsageServerAuth, x509.ExtKeyUsageClientAuth}}
		der, err := x509.CreateCertificate(crand.Reader, tmpl, tmpl, &key.PublicKey, key)
		if err != nil {
			panic(err)
		}
		return base64.RawStdEncoding.EncodeToString(der)
	}
	realCertNoSANB64 = mk(nil)
	realCertIPSANB64 = mk([]net.IP{net.IPv4(127, 0, 0, 1)})
}

func (c startCfg) build(r *scriptRunner, timeout time.Duration) *plugin.ClientConfig {
	cfg := &plugin.ClientConfig{
		HandshakeConfig:     plugin.HandshakeConfig{MagicCookieKey: "VK", MagicCookieValue: "vv"},
		AllowedProtocols:    c.allowed,
		RunnerFunc:          r.runnerFunc,
		StartTimeout:        timeout,
		Logger:              nullLogger(),
		GRPCBrokerMultiplex: c.mux,
		UnixSocketConfig:    &plugin.UnixSocketConfig{TempDir: os.Getenv("TMPDIR")},
	}
	if c.legacy >= 0 {
		cfg.ProtocolVersion = uint(c.legacy)
		cfg.Plugins = plugin.PluginSet{"p": &tagPlugin{tag: fmt.Sprintf("legacy-%d", c.legacy)}}
	}
	if c.versions != nil {
		cfg.VersionedPlugins = map[int]plugin.PluginSet{}
		for _, v := range c.versions {
			cfg.VersionedPlugins[v] = plugin.PluginSet{"p": &tagPlugin{tag: fmt.Sprintf("v%d", v)}}
		}
	}
	switch c.tls {
	case "static":
		cfg.TLSConfig = staticTLS.Clone()
	case "auto":
		cfg.AutoMTLS = true
	}
	return cfg
}

// ---- handshake line alphabet

type lineSpec struct {
	core, ver, network, addr, proto, cert, mux string // "\x00" = field absent (truncation handled by shape)
	shape                                      string
}

var (
	coreAlpha  = []string{"1", "0", "2", "", "x", "01", "+1", "1.0", "99999999999999999999", "1{ff}"}
	verAlpha   = []string{"1", "7", "", "x", "-1", "01", "99999999999999999999", "2", "0", "00", "3", "{ff}1"}
	netAlpha   = []string{"tcp", "unix", "", "udp", "TCP", "tcp4", "unixgram", "t{ff}cp"}
	addrAlpha  = []string{"127.0.0.1:1234", ":1234", "/tmp/s.sock", "", "256.0.0.1:1", "127.0.0.1:99999", "[::1]:80", "127.0.0.1", "127.0.0.1:12{ff}34"}
	protoAlpha = []string{"netrpc", "\x00", "", "grpc", "GRPC", "bogus", "net{ff}rpc", "{fe}grpc"}
	certAlpha  = []string{"\x00", "", "0123456789", strings.Repeat("!", 60), strings.Repeat("QUJD", 15), "REAL", strings.Repeat("\r", 60), "REAL2", "REALJUNK", "REALCR", "REALNOSAN", "REALIPSAN"}
	muxAlpha   = []string{"\x00", "", "true", "false", "1", "yes"}
	shapeAlpha = []string{"LF", "CRLF", "blanks", "extra8", "trunc3", "trunc2", "trunc1", "trunc0", "nonl-eof", "nonl-silence", "emptyfirst", "long70k", "exit-before", "silence", "closed-alive", "nonl-closed-alive", "tail6k", "more2-exit", "more2-stay"}
)

func (l lineSpec) key() string {
	return strings.Join([]string{l.core, l.ver, l.network, l.addr, l.proto, l.cert, l.mux, l.shape}, "\x01")
}

func lineFromKey(k string) lineSpec {
	f := strings.Split(k, "\x01")
	return lineSpec{f[0], f[1], f[2], f[3], f[4], f[5], f[6], f[7]}
}

// fields returns the '|'-separated fields before shaping.
func (l lineSpec) fields() []string {
	fs := []string{l.core, l.ver, l.network, l.addr}
	rest := []string{l.proto, l.cert, l.mux}
	// trailing absent fields are dropped; an absent field before a present one becomes empty
	last := -1
	for i, v := range rest {
		if v != "\x00" {
			last = i
		}
	}
	for i := 0; i <= last; i++ {
		v := rest[i]
		if v == "\x00" {
			v = ""
		}
		switch v {
		case "REAL":
			v = realCertB64
		case "REAL2": // two certificates, concatenated DER
			v = realCert2B64
		case "REALJUNK": // one certificate followed by two stray bytes
			v = realCertJunkB64
		case "REALNOSAN": // a valid certificate without any subjectAltName
			v = realCertNoSANB64
		case "REALIPSAN": // a valid certificate whose only subjectAltName is an IP address
			v = realCertIPSANB64
		case "REALCR": // the valid certificate with carriage returns inside the base64 text (decoders skip them)
			v = realCertB64[:40] + "\r" + realCertB64[40:80] + "\r\r" + realCertB64[80:]
		}
		fs = append(fs, v)
	}
	for i := range fs {
		// "{ff}" / "{fe}" stand for single bytes that are not valid UTF-8 (instance parameters travel as JSON)
		fs[i] = strings.ReplaceAll(strings.ReplaceAll(fs[i], "{ff}", "\xff"), "{fe}", "\xfe")
	}
	return fs
}

// bytes returns what the scripted plugin writes to stdout and what it does afterwards.
func (l lineSpec) render() (out []byte, after string) {
	fs := l.fields()
	after = "stay"
	switch l.shape {
	case "trunc3":
		fs = fs[:3]
	case "trunc2":
		fs = fs[:2]
	case "trunc1":
		fs = fs[:1]
	case "trunc0":
		fs = nil
	case "extra8":
		for len(fs) < 7 {
			fs = append(fs, "")
		}
		fs = append(fs, "extra")
	}
	line := strings.Join(fs, "|")
	switch l.shape {
	case "CRLF":
		return []byte(line + "\r\n"), after
	case "blanks":
		return []byte("  " + line + " \t\n"), after
	case "nonl-eof":
		return []byte(line), "exit"
	case "nonl-silence":
		return []byte(line), "stay"
	case "emptyfirst":
		return []byte("\n" + line + "\n"), after
	case "long70k":
		return []byte(line + "|" + strings.Repeat("z", 70*1024) + "\n"), after
	case "closed-alive": // stdout closed without a byte, the process lives on (a plugin that daemonises)
		return nil, "close-stay"
	case "nonl-closed-alive":
		return []byte(line), "close-stay"
	case "exit-before":
		return nil, "exit"
	case "silence":
		return nil, "stay"
	case "more2-exit", "more2-stay":
		// two more complete lines follow the first one (a usage text, a wrapper script's chatter); then the process
		// exits, or lives on
		return []byte(line + "\nusage: plugin [flags]\n  run me from the host application\n"), strings.TrimPrefix(l.shape, "more2-")
	case "tail6k":
		// the plugin keeps printing right after its handshake line, in the same write: 6000 more bytes without a newline,
		// which begin with text shaped like the line itself but naming another address
		tail := strings.Replace(line, "1234", "2222", 1)
		if tail == line {
			tail = "1|1|tcp|127.0.0.1:2222|netrpc"
		}
		return []byte(line + "\n" + tail + strings.Repeat("x", 6000-len(tail))), "stay"
	}
	return []byte(line + "\n"), after
}

// firstLine is what the client's scanner yields as the first line (reference
// line splitter: up to the first LF, one trailing CR dropped), or ok=false if
// no complete line / EOF-terminated text is ever delivered.
func (l lineSpec) firstLine() (string, bool, bool) {
	out, after := l.render()
	s := string(out)
	if i := strings.IndexByte(s, '\n'); i >= 0 {
		ln := s[:i]
		ln = strings.TrimSuffix(ln, "\r")
		return ln, true, len(ln) > 64*1024
	}
	if after == "exit" || after == "close-stay" {
		// EOF: a non-empty unterminated tail is delivered as a line; an empty one is not
		if s != "" {
			return s, true, false
		}
		return "", false, false
	}
	return "", false, false
}

// refAccept is the reference grammar of C01 (one-directional: Start may
// succeed ONLY IF this returns true). mustFail additionally lists reasons.
func refAccept(c startCfg, l lineSpec) (ok bool, why string) {
	ln, have, tooLong := l.firstLine()
	if !have || tooLong {
		return false, "no line"
	}
	parts := strings.Split(strings.TrimSpace(ln), "|")
	if len(parts) < 4 {
		return false, "fewer than 4 fields"
	}
	if n, err := strconv.Atoi(parts[0]); err != nil || n != 1 {
		return false, "core protocol version"
	}
	v, err := strconv.Atoi(parts[1])
	if err != nil || !c.offered()[v] {
		return false, "application version"
	}
	switch parts[2] {
	case "tcp":
		if _, err := net.ResolveTCPAddr("tcp", parts[3]); err != nil {
			return false, "unresolvable tcp address"
		}
	case "unix":
	default:
		return false, "network"
	}
	proto := "netrpc"
	if len(parts) >= 5 {
		proto = parts[4]
	}
	if !c.allowedSet()[proto] {
		return false, "protocol not allowed"
	}
	if len(parts) >= 6 && len(parts[5]) > 50 {
		der, err := base64.RawStdEncoding.DecodeString(parts[5])
		if err != nil {
			return false, "certificate encoding"
		}
		if _, err := plugin.VParseCert(der); err != nil {
			return false, "certificate"
		}
	}
	if c.mux && proto == "grpc" {
		if len(parts) <= 6 {
			return false, "mux not advertised"
		}
		if b, err := strconv.ParseBool(parts[6]); err != nil || !b {
			return false, "mux flag"
		}
	}
	return true, ""
}

// start_line — C01 and C05. params: cfg = index, line = lineSpec key.
func init() {
	cfgs := allStartCfgs()
	explore.Register(&explore.Scenario{
		Name:    "start_line",
		Horizon: 30 * time.Second,
		Settle:  3 * time.Second,
		Body: func(x *vs.Exec, p explore.Params) {
			c := cfgs[atoi(p["cfg"])]
			l := lineFromKey(p["line"])
			out, after := l.render()
			r := newScriptRunner(x, func(r *scriptRunner) {
				if len(out) > 0 {
					// two pieces, so that a crash or a scheduler switch can land mid-line
					h := len(out) / 2
					r.stdout.Write(out[:h])
					r.stdout.Write(out[h:])
				}
				if after == "exit" {
					return
				}
				if after == "close-stay" {
					r.stdout.Close()
				}
				r.waitKilled()
			})
			x.Put("runner", r)
			cfg := c.build(r, 10*time.Second)
			cl := plugin.NewClient(cfg)
			x.Put("client", cl)
			x.Put("cfgobj", cfg)
			t0 := x.Now()
			func() {
				defer func() {
					if rec := recover(); rec != nil {
						x.Put("panic", fmt.Sprint(rec))
					}
				}()
				addr, err := cl.Start()
				x.Put("started", true)
				x.Put("addr", addr)
				x.Put("err", err)
			}()
			x.Put("dt", x.Now()-t0)
			x.Put("killsAtReturn", r.killCount())
			x.Put("tmpdir", r.tmpDir)
			// C01: a rejected line stays rejected: asking the same client again must not
			// turn the failure into a started client
			if e, _ := x.Data["err"].(error); e != nil && x.Data["panic"] == nil {
				func() {
					defer func() {
						if rec := recover(); rec != nil {
							x.Put("panic", fmt.Sprint(rec))
						}
					}()
					a2, e2 := cl.Start()
					x.Put("again", fmt.Sprintf("Start: addr-nil=%v err-nil=%v; Protocol()=%q; ReattachConfig()-nil=%v", a2 == nil || isNilAddr(a2), e2 == nil, cl.Protocol(), cl.ReattachConfig() == nil))
				}()
			}
			// C05: a later Kill returns promptly and removes the socket dir
			t1 := x.Now()
			func() {
				defer func() {
					if rec := recover(); rec != nil {
						x.Put("killpanic", fmt.Sprint(rec))
					}
				}()
				cl.Kill()
			}()
			x.Put("killdt", x.Now()-t1)
			x.Put("killed", true)
		},
		Check: func(x *vs.Exec, p explore.Params) {
			c := cfgs[atoi(p["cfg"])]
			l := lineFromKey(p["line"])
			desc := fmt.Sprintf("cfg{%s} line=%q shape=%s", c, strings.ReplaceAll(strings.ReplaceAll(strings.ReplaceAll(strings.ReplaceAll(strings.ReplaceAll(strings.Join(l.fields(), "|"), realCert2B64, "<two-certs>"), realCertJunkB64, "<cert+2-bytes>"), realCertB64, "<valid-cert>"), realCertNoSANB64, "<cert-without-SAN>"), realCertIPSANB64, "<cert-with-IP-SAN-only>"), l.shape)
			r := x.Data["runner"].(*scriptRunner)
			x.OnCleanup(r.exit)
			ok, why := refAccept(c, l)
			x.Put("nontrivial", l.key() != lineSpec{"1", "1", "tcp", "127.0.0.1:1234", "netrpc", "\x00", "\x00", "LF"}.key())
			if pv, bad := x.Data["panic"]; bad {
				x.Fail("PANIC", "Start panicked: %v [%s]", pv, desc)
				return
			}
			if x.Data["started"] != true {
				x.Fail("L", "Start never returned [%s]", desc)
				return
			}
			err, _ := x.Data["err"].(error)
			addr, _ := x.Data["addr"].(net.Addr)
			dt := x.Data["dt"].(time.Duration)
			cl := x.Data["client"].(*plugin.Client)
			cfg := x.Data["cfgobj"].(*plugin.ClientConfig)
			x.Obs("accept=%v ref=%v", err == nil, ok)
			if dt > 10*time.Second+time.Second {
				x.Fail("T", "Start took %v with StartTimeout 10s [%s]", dt, desc)
			}
			if err == nil {
				if !ok {
					x.Fail("S", "Start succeeded on a line the property forbids (%s) [%s]", why, desc)
				}
				parts := strings.Split(strings.TrimSpace(firstOf(l)), "|")
				if x.Data["addr"] == nil || isNilAddr(addr) {
					x.Fail("S", "Start returned a nil address and no error [%s]", desc)
				} else if ok {
					wantNet, wantAddr := parts[2], parts[3]
					if wantNet == "tcp" {
						if ta, e := net.ResolveTCPAddr("tcp", parts[3]); e == nil {
							wantAddr = ta.String()
						}
					}
					if addr.Network() != wantNet || addr.String() != wantAddr {
						x.Fail("S", "reported address %s|%s differs from the line's %s|%s [%s]", addr.Network(), addr.String(), wantNet, wantAddr, desc)
					}
				}
				if ok {
					wantProto := "netrpc"
					if len(parts) >= 5 {
						wantProto = parts[4]
					}
					if got := string(cl.Protocol()); got != wantProto {
						x.Fail("S", "Protocol() = %q, line says %q [%s]", got, wantProto, desc)
					}
					wv, _ := strconv.Atoi(parts[1])
					if cl.NegotiatedVersion() != wv {
						x.Fail("S", "NegotiatedVersion() = %d, line says %d [%s]", cl.NegotiatedVersion(), wv, desc)
					}
					wantTag := fmt.Sprintf("v%d", wv)
					if !contains(c.versions, wv) {
						wantTag = fmt.Sprintf("legacy-%d", wv)
					}
					if tp, _ := pluginSetInUse(cl, cfg)["p"].(*tagPlugin); tp == nil || tp.tag != wantTag {
						x.Fail("S", "plugin set in use is not the one registered under version %d [%s]", wv, desc)
					}
				}
			} else {
				if ag, _ := x.Data["again"].(string); ag != `Start: addr-nil=true err-nil=false; Protocol()=""; ReattachConfig()-nil=true` {
					x.Fail("S", "after Start rejected the line (%v) the same client answers as if started: %s [%s]", err, ag, desc)
				}
				// C05: the launched process is terminated by the time the error is returned
				if r.startCount() > 0 && x.Data["killsAtReturn"].(int) == 0 && !r.hasExited() {
					x.Fail("S", "Start returned an error (%v) but the launched process was not killed [%s]", err, desc)
				}
			}
			if pv, bad := x.Data["killpanic"]; bad {
				x.Fail("PANIC", "Kill panicked: %v [%s]", pv, desc)
			}
			if x.Data["killed"] != true {
				x.Fail("L", "Kill after Start never returned [%s]", desc)
			} else {
				if kd := x.Data["killdt"].(time.Duration); kd > 3*time.Second {
					x.Fail("T", "Kill after Start took %v [%s]", kd, desc)
				}
				if !r.hasExited() {
					x.Fail("L", "process still running after Kill returned [%s]", desc)
				}
				if td, _ := x.Data["tmpdir"].(string); td != "" {
					if _, e := os.Stat(td); e == nil {
						x.Fail("L", "temporary socket directory %s still exists after Kill [%s]", "plugin-dir*", desc)
						os.RemoveAll(td)
					}
				}
			}
			// C03: once the launched process is gone (it exited by itself, or the failed start / Kill ended it) the client says so
			if r.startCount() > 0 && r.hasExited() && x.Data["killed"] == true && !cl.Exited() {
				x.Fail("L", "Client.Exited() is still false %v after the launched process was gone [%s]", x.Now()-x.Data["dt"].(time.Duration), desc)
			}
			for _, e := range x.EndBlocked {
				x.Fail("L", "blocked forever: %s [%s]", e, desc)
			}
		},
		Instances: func(tier string) []explore.Params {
			var lines []lineSpec
			switch tier {
			case "quick": // C01 quick: base A to 2 off-canonical coordinates, bases B and C to 1
				lines = append(genLines(2, 0), genLines(1, 1, 2)...)
			case "thorough":
				lines = genLines(3, 0, 1, 2)
			case "fail-quick": // C05: every single-coordinate failure cause and every framing shape
				lines = genLines(1, 0, 1, 2)
			case "fail-thorough":
				lines = genLines(2, 0, 1, 2)
			case "dies", "dies-thorough":
				// C03, crash point "before the handshake is complete": lines (<= 1, thorough <= 2 coordinates off) after which the
				// process exits by itself, with or without more output first
				k := 1
				if tier == "dies-thorough" {
					k = 2
				}
				for _, l := range genLines(k, 0, 1, 2) {
					switch l.shape {
					case "nonl-eof", "exit-before", "more2-exit":
						lines = append(lines, l)
					}
				}
				// (shape is itself a coordinate: one more off-canonical coordinate next to it)
				for _, l := range genLines(k+1, 0, 1, 2) {
					if l.shape == "more2-exit" {
						lines = append(lines, l)
					}
				}
			}
			var out []explore.Params
			for ci := range cfgs {
				for _, l := range lines {
					out = append(out, explore.Params{"cfg": strconv.Itoa(ci), "line": l.key()})
				}
			}
			return out
		},
	})
}

func firstOf(l lineSpec) string { s, _, _ := l.firstLine(); return s }

func contains(a []int, v int) bool {
	for _, x := range a {
		if x == v {
			return true
		}
	}
	return false
}

func isNilAddr(a net.Addr) bool {
	switch v := a.(type) {
	case nil:
		return true
	case *net.TCPAddr:
		return v == nil
	case *net.UnixAddr:
		return v == nil
	}
	return false
}

// genLines enumerates every line with at most k coordinates off their
// canonical (first) value, for three canonical bases (tcp/netrpc, unix/grpc
// with mux flag, grpc with a real certificate).
func genLines(k int, which ...int) []lineSpec {
	alph := [][]string{coreAlpha, verAlpha, netAlpha, addrAlpha, protoAlpha, certAlpha, muxAlpha, shapeAlpha}
	bases := [][]int{
		{0, 0, 0, 0, 0, 0, 0, 0}, // 1|1|tcp|127.0.0.1:1234|netrpc
		{0, 7, 1, 2, 3, 1, 2, 0}, // 1|2|unix|/tmp/s.sock|grpc||true
		{0, 0, 1, 2, 3, 5, 2, 0}, // 1|1|unix|/tmp/s.sock|grpc|<real cert>|true
	}
	seen := map[string]bool{}
	var out []lineSpec
	var rec func(base []int, idx []int, pos, left int)
	rec = func(base []int, idx []int, pos, left int) {
		if pos == len(alph) {
			l := lineSpec{alph[0][idx[0]], alph[1][idx[1]], alph[2][idx[2]], alph[3][idx[3]], alph[4][idx[4]], alph[5][idx[5]], alph[6][idx[6]], alph[7][idx[7]]}
			if !seen[l.key()] {
				seen[l.key()] = true
				out = append(out, l)
			}
			return
		}
		idx[pos] = base[pos]
		rec(base, idx, pos+1, left)
		if left > 0 {
			for v := range alph[pos] {
				if v == base[pos] {
					continue
				}
				idx[pos] = v
				rec(base, idx, pos+1, left-1)
			}
		}
	}
	for _, w := range which {
		rec(bases[w], make([]int, len(alph)), 0, k)
	}
	return out
}

var _ = vs.Point
