package scen

import (
	"bytes"
	"fmt"
	"io"
	"strings"
	"sync"
	"time"

	"verif/engine/explore"
	"verif/engine/vnet"
	"verif/engine/vs"
)

type lockedBuf struct {
	mu sync.Mutex
	b  bytes.Buffer
	pt string // when set, every Write is a scheduling point of that name: the application's writer may take its time
	// okWrites > 0: the writer takes that many writes and fails every later one with io.ErrClosedPipe (an io.PipeWriter whose
	// reader the application closed once it had seen what it was waiting for, a log file that was closed)
	okWrites int
	writes   int
}

func (l *lockedBuf) Write(p []byte) (int, error) {
	if l.pt != "" {
		// the bytes handed over are consumed only after the point: whatever the caller's buffer holds THEN is what
		// a slow writer would see
		vs.Point(l.pt)
	}
	l.mu.Lock()
	defer l.mu.Unlock()
	l.writes++
	if l.okWrites > 0 && l.writes > l.okWrites {
		return 0, io.ErrClosedPipe
	}
	return l.b.Write(p)
}
func (l *lockedBuf) Bytes() []byte {
	l.mu.Lock()
	defer l.mu.Unlock()
	return append([]byte(nil), l.b.Bytes()...)
}
func (l *lockedBuf) Len() int { l.mu.Lock(); defer l.mu.Unlock(); return l.b.Len() }

// sizesOf parses a write sequence; a token "@<ms>" is a pause before the next write and is
// returned as a negative number.
func sizesOf(s string) []int {
	var out []int
	if s == "" {
		return out
	}
	for _, f := range strings.Split(s, ",") {
		if strings.HasPrefix(f, "@") {
			out = append(out, -atoi(f[1:]))
		} else {
			out = append(out, atoi(f))
		}
	}
	return out
}

// streamData: the bytes of write i on a stream, a position-dependent pattern tagged with the stream.
func streamData(tag byte, sizes []int) (writes [][]byte, all []byte) {
	off := 0
	for _, n := range sizes {
		if n < 0 {
			writes = append(writes, nil) // pause marker; its length is in the sizes list
			continue
		}
		b := make([]byte, n)
		for i := range b {
			k := off + i
			b[i] = byte(k*13) ^ tag ^ byte(k>>8)*7
		}
		off += n
		writes = append(writes, b)
		all = append(all, b...)
	}
	return
}

// stdio_sync — C11. params: proto, out, err (comma separated write sizes), attach=before|after.
func init() {
	explore.Register(&explore.Scenario{
		Name:    "stdio_sync",
		Horizon: 60 * time.Second,
		Settle:  2 * time.Second,
		Body: func(x *vs.Exec, p explore.Params) {
			x.Hold()
			outS, errS := sizesOf(p["out"]), sizesOf(p["err"])
			outW, outAll := streamData(0x5a, outS)
			errW, errAll := streamData(0xa5, errS)
			x.Put("outAll", outAll)
			x.Put("errAll", errAll)
			// the pipes that replace os.Stdout / os.Stderr inside a serving plugin (os.Pipe: 64 KiB)
			pd := x.Domain("plugin")
			outR, outPW := vnet.NewPipe(64*1024, pd)
			errR, errPW := vnet.NewPipe(64*1024, pd)
			so, se := &lockedBuf{pt: "SyncStdout.Write"}, &lockedBuf{pt: "SyncStderr.Write"}
			x.Put("so", so)
			x.Put("se", se)
			switch p["closed"] { // that stream's sync writer is closed by the application after its first write
			case "out":
				so.okWrites = 1
			case "err":
				se.okWrites = 1
			}
			lo := liveOpts{proto: p["proto"], pStdout: outR, pStderr: errR, syncOut: so, syncErr: se}
			switch p["only"] { // the host configured just one of the two sync writers
			case "out":
				lo.syncErr = nil
			case "err":
				lo.syncOut = nil
			}
			lc := newLive(x, lo)
			x.Put("lc", lc)
			d := newDone(x)
			x.Put("d", d)
			startWriters := func() {
				x.Go("plugin", func() {
					for i, w := range outW {
						if outS[i] < 0 {
							x.Pause(time.Duration(-outS[i]) * time.Millisecond)
							continue
						}
						outPW.Write(w)
						vs.Point("wrote-stdout")
					}
				})
				x.Go("plugin", func() {
					for i, w := range errW {
						if errS[i] < 0 {
							x.Pause(time.Duration(-errS[i]) * time.Millisecond)
							continue
						}
						errPW.Write(w)
						vs.Point("wrote-stderr")
					}
				})
			}
			if _, err := lc.cl.Start(); err != nil {
				x.Fail("ENGINE", "Start: %v", err)
				return
			}
			if strings.HasPrefix(p["attach"], "before") {
				x.Release()
				startWriters()
				switch p["attach"] { // the host attaches its stdio streams long after the data was written
				case "before6s":
					x.Pause(6 * time.Second)
				case "before4s":
					x.Pause(4 * time.Second)
				}
			}
			obj, err := lc.connect()
			if err != nil {
				if x.TimeDevs == 0 {
					x.Fail("L", "connect failed: %v", err)
				}
				x.Put("skipped", true) // timers were made to fire during the connection set-up: no stdio verdict
				return
			}
			if !strings.HasPrefix(p["attach"], "before") {
				x.Release()
				startWriters()
			}
			rpcDone := make(chan struct{})
			d.goIn("host", "rpc", func() {
				defer close(rpcDone)
				if err := lc.call(obj, false); err != nil {
					x.Put("rpcerr", err)
				}
			})
			// wait (virtual time) until everything expected has arrived, or 10 s
			for i := 0; i < 400 && ((p["only"] != "err" && p["closed"] != "out" && so.Len() < len(outAll)) || (p["only"] != "out" && p["closed"] != "err" && se.Len() < len(errAll))); i++ {
				x.Pause(100 * time.Millisecond)
			}
			<-rpcDone
			vs.Point("rpc-done")
			x.Put("gotOut", so.Bytes())
			x.Put("gotErr", se.Bytes())
			x.Put("completed", true)
			lc.cl.Kill()
		},
		Check: func(x *vs.Exec, p explore.Params) {
			desc := fmt.Sprintf("proto=%s stdout writes=[%s] stderr writes=[%s] attach=%s", p["proto"], p["out"], p["err"], p["attach"])
			if p["only"] != "" {
				desc += " configured=Sync" + map[string]string{"out": "Stdout", "err": "Stderr"}[p["only"]] + "-only"
			}
			x.Put("nontrivial", p["out"] != "" || p["err"] != "")
			if x.Data["completed"] != true {
				if len(x.Violations()) == 0 && x.Data["skipped"] != true {
					x.Fail("L", "session never finished (blocked %v) [%s]", x.EndBlocked, desc)
				}
				return
			}
			if lc, ok := x.Data["lc"].(*liveClient); ok {
				close(lc.block)
			}
			cmp := func(name string, got, want []byte) {
				if bytes.Equal(got, want) {
					return
				}
				n := 0
				for n < len(got) && n < len(want) && got[n] == want[n] {
					n++
				}
				class := "S"
				if x.TimeDevs > 0 && len(got) < len(want) && n == len(got) {
					return // only late (a prefix arrived): timers were made to fire early, no fidelity verdict
				}
				x.Fail(class, "%s: received %d bytes, plugin wrote %d; first difference at offset %d [%s]", name, len(got), len(want), n, desc)
			}
			if p["closed"] != "" {
				desc += " Sync" + map[string]string{"out": "Stdout", "err": "Stderr"}[p["closed"]] + "-writer-closed-after-its-first-write"
			}
			if p["only"] != "err" && p["closed"] != "out" {
				cmp("SyncStdout", x.Data["gotOut"].([]byte), x.Data["outAll"].([]byte))
			}
			if p["only"] != "out" && p["closed"] != "err" {
				cmp("SyncStderr", x.Data["gotErr"].([]byte), x.Data["errAll"].([]byte))
			}
			if e, ok := x.Data["rpcerr"]; ok && x.TimeDevs == 0 {
				x.Fail("L", "RPC concurrent with stdio traffic failed: %v [%s]", e, desc)
			}
			x.Data["d"].(*done).checkAll(x)
			for _, e := range x.EndBlocked {
				x.Fail("L", "blocked forever: %s [%s]", e, desc)
			}
		},
		Conform: func() []explore.Params {
			return []explore.Params{{"proto": "netrpc", "out": "1025,1", "err": "4097", "attach": "after"}, {"proto": "grpc", "out": "10000", "err": "1,1024", "attach": "before"},
				{"proto": "grpcmux", "out": "4096,4096", "err": "", "attach": "after"}}
		},
		Instances: func(tier string) []explore.Params {
			sizes := []string{"0", "1", "1023", "1024", "1025", "4095", "4096", "4097", "10000"}
			var seqs []string
			switch tier {
			case "sched": // few shapes, explored under schedules
				var out []explore.Params
				for _, proto := range []string{"netrpc", "grpc", "grpcmux"} {
					for _, at := range []string{"before", "after"} {
						out = append(out, explore.Params{"proto": proto, "out": "1025,1", "err": "4097", "attach": at})
						out = append(out, explore.Params{"proto": proto, "out": "10000", "err": "1,1024", "attach": at})
					}
					out = append(out, explore.Params{"proto": proto, "out": "1025,1", "err": "4097", "attach": "after", "only": "out"})
					out = append(out, explore.Params{"proto": proto, "out": "1025,1", "err": "4097", "attach": "before", "only": "err"})
				}
				return out
			case "thorough":
				for _, a := range sizes {
					seqs = append(seqs, a)
					for _, b := range sizes {
						seqs = append(seqs, a+","+b)
					}
				}
				seqs = append(seqs, "1024,1024,1024", "1,4096,1", "4097,0,1023", "70000", "70000,70000", "1,@3000,1025", "@6000,4097", "1024,@2500,1,@2500,1", "@31000,1")
			default:
				for _, a := range sizes {
					seqs = append(seqs, a)
				}
				seqs = append(seqs, "1,1", "1024,1", "1023,1025", "4096,4096", "4097,1023", "10000,10000", "0,1", "1025,0,4095", "70000",
					"1,@3000,1025", "@6000,4097", "1024,@2500,1,@2500,1") // output long after the host attached
			}
			var out []explore.Params
			for _, proto := range []string{"netrpc", "grpc", "grpcmux"} {
				for _, at := range []string{"before", "after"} {
					for _, o := range seqs {
						for _, e := range seqs {
							out = append(out, explore.Params{"proto": proto, "out": o, "err": e, "attach": at})
						}
					}
				}
				// only one of the two sync writers configured
				for _, only := range []string{"out", "err"} {
					for _, at := range []string{"before", "after"} {
						for _, oe := range [][2]string{{"1", "1"}, {"1025,1", "4097"}, {"10000", "1,1024"}, {"70000", "70000"}, {"4096", ""}, {"", "4096"}, {"1,@3000,1025", "1,@3000,1025"}} {
							out = append(out, explore.Params{"proto": proto, "out": oe[0], "err": oe[1], "attach": at, "only": only})
						}
					}
				}
				// the application closes one of its sync writers after the first write it received; the other stream goes on
				for _, cl := range []string{"out", "err"} {
					for _, at := range []string{"before", "after"} {
						out = append(out, explore.Params{"proto": proto, "out": "3,@1000,5,@2000,7,@1000,9", "err": "3,@1000,5,@2000,7,@1000,9", "attach": at, "closed": cl})
						out = append(out, explore.Params{"proto": proto, "out": "1025,@500,1,@500,4097", "err": "1,@700,1024,@700,10000", "attach": at, "closed": cl})
					}
				}
				late := []string{"1", "1024", "1025,1", "10000", "0,1", "40"}
				for _, o := range late {
					for _, e := range late {
						// (a multiplexed plugin gives up when no host has connected 5 s after it began to serve —
						// GRPCServerMuxer.session — so there the host can be at most that late)
						at := "before6s"
						if proto == "grpcmux" {
							at = "before4s"
						}
						out = append(out, explore.Params{"proto": proto, "out": o, "err": e, "attach": at})
					}
				}
			}
			return out
		},
	})
}
