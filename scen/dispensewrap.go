package scen

import (
	"fmt"
	"math"
	"net/rpc"
	"reflect"
	"time"
	"unsafe"

	"verif/engine/explore"
	"verif/engine/vs"
)

// dispense_ids — C06: dispenses on a long-lived net/rpc connection whose plugin-side id counter is about to wrap
// (ids are plain uint32 values; NextId's own comment anticipates the wrap). Every dispense reaches the server object
// created for it, whatever number was reserved. The counter is pre-set through reflection (a field of MuxBroker named
// nextId holding a uint32); if there is no such field the instance decides nothing and says so.
// params: at = value of the counter before the dispenses, n = number of dispenses.
func init() {
	explore.Register(&explore.Scenario{
		Name:    "dispense_ids",
		Horizon: 60 * time.Second,
		Settle:  3 * time.Second,
		Body: func(x *vs.Exec, p explore.Params) {
			d := newDone(x)
			x.Put("d", d)
			x.Hold()
			lc := newLive(x, liveOpts{proto: "netrpc"})
			x.Put("lc", lc)
			serial := 0
			lc.rp.mk = func() *tagRPCServer {
				serial++
				return &tagRPCServer{tag: fmt.Sprintf("obj%d", serial), block: lc.block}
			}
			if _, err := lc.cl.Start(); err != nil {
				x.Fail("ENGINE", "start: %v", err)
				return
			}
			cp, err := lc.cl.Client()
			if err != nil {
				x.Fail("ENGINE", "connect: %v", err)
				return
			}
			if _, err := cp.Dispense("p"); err != nil || lc.rp.sb == nil { // (the first dispense hands the plugin-side broker to the harness)
				x.Fail("ENGINE", "first dispense: %v", err)
				return
			}
			f := reflect.ValueOf(lc.rp.sb).Elem().FieldByName("nextId")
			if !f.IsValid() || f.Kind() != reflect.Uint32 || !f.CanAddr() {
				x.Put("skipped", true)
				x.Release()
				return
			}
			var at uint64
			fmt.Sscan(p["at"], &at)
			*(*uint32)(unsafe.Pointer(f.UnsafeAddr())) = uint32(at)
			x.Release()
			n := atoi(p["n"])
			d.goIn("host", "dispenses", func() {
				for i := 0; i < n; i++ {
					obj, err := cp.Dispense("p")
					if err != nil {
						// (like every "succeeds" verdict only without a timer deviation: the transport's own keep-alive timers, fired
						// early, legitimately end the connection)
						failT(x, "dispense %d of %d on a connection whose id counter stood at %d failed: %v", i+1, n, at, err)
						continue
					}
					var tag string
					if err := obj.(*rpc.Client).Call("Plugin.Tag", 0, &tag); err != nil {
						failT(x, "call on the object of dispense %d failed: %v", i+1, err)
					} else if want := fmt.Sprintf("obj%d", i+2); tag != want {
						x.Fail("S", "dispense %d reached server object %q, the object created for it is %q", i+1, tag, want)
					}
					x.Obs("dispense%d tag=%s", i+1, tag)
				}
				lc.cl.Kill()
			})
		},
		Check: func(x *vs.Exec, p explore.Params) {
			if lc, ok := x.Data["lc"].(*liveClient); ok {
				close(lc.block)
			}
			if x.Data["skipped"] == true {
				x.Obs("undecided: MuxBroker has no uint32 field nextId")
				return
			}
			x.Put("nontrivial", true)
			if d, ok := x.Data["d"].(*done); ok {
				d.checkAll(x)
			}
			for _, e := range x.EndBlocked {
				x.Fail("L", "blocked forever: %s", e)
			}
		},
		Instances: func(tier string) []explore.Params {
			var out []explore.Params
			// (the dispense that hands the broker to the harness used id 1: the sequences stop at id 0, an id is not used twice
			// within moments — a real counter comes back to a number after 2^32 reservations)
			for _, c := range [][2]uint64{{math.MaxUint32 - 3, 4}, {math.MaxUint32 - 2, 3}, {math.MaxUint32 - 1, 2}, {math.MaxUint32, 1}, {math.MaxInt32 - 1, 4}, {254, 4}, {65534, 4}} {
				out = append(out, explore.Params{"at": fmt.Sprint(c[0]), "n": fmt.Sprint(c[1])})
			}
			return out
		},
	})
}
