package scen

import (
	"encoding/json"
	"fmt"
	"time"

	hclog "github.com/hashicorp/go-hclog"
)

// refIsJSONObject: the line is a JSON object (or null, which unmarshals into a nil map).
func refIsJSONObject(s string) bool {
	var m map[string]interface{}
	return json.Unmarshal([]byte(s), &m) == nil
}

// refParseJSON is the reference reading of an hclog JSON line.
// isHclog: a JSON object whose @level names an hclog level (then level/msg/kv are defined).
// weird: a JSON object whose @message/@level/@timestamp has the wrong type or an unparseable timestamp
// (the property defines no record shape for these).
func refParseJSON(s string) (lvl hclog.Level, msg string, kv map[string]string, isHclog, weird bool) {
	var m map[string]interface{}
	if err := json.Unmarshal([]byte(s), &m); err != nil {
		return
	}
	for _, k := range []string{"@message", "@level", "@timestamp"} {
		if v, ok := m[k]; ok {
			if _, str := v.(string); !str {
				weird = true
				return
			}
		}
	}
	if ts, ok := m["@timestamp"].(string); ok {
		if _, err := time.Parse("2006-01-02T15:04:05.000000Z07:00", ts); err != nil {
			weird = true
			return
		}
	}
	ls, _ := m["@level"].(string)
	lvl = hclog.LevelFromString(ls)
	if lvl == hclog.NoLevel {
		return
	}
	isHclog = true
	msg, _ = m["@message"].(string)
	kv = map[string]string{}
	for k, v := range m {
		if k == "@message" || k == "@level" || k == "@timestamp" {
			continue
		}
		kv[k] = fmt.Sprint(v)
	}
	return
}
