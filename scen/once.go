package scen

import (
	"context"
	"fmt"
	"net"
	"os"
	"os/exec"
	"strings"
	"time"

	hclog "github.com/hashicorp/go-hclog"
	plugin "github.com/hashicorp/go-plugin"
	"github.com/hashicorp/go-plugin/runner"

	"verif/engine/explore"
	"verif/engine/vs"
)

// onceState is what C19's oracle observes across a history of calls on one Client.
type onceState struct {
	x                 *vs.Exec
	r                 *scriptRunner
	cl                *plugin.Client
	rfCalls           int
	addrs             []net.Addr
	addrStrs          []string
	clients           []plugin.ClientProtocol
	killed            bool
	killedAfterLaunch bool
	failedAfterLaunch bool
	launchAfterKill   bool
	tmpDirs           []string
	rfErr             bool
	protos            []string // results of Protocol(), in call order (sequential scenario only)
	reattach          []string // results of ReattachConfig(), rendered
	// reattach behaviours: the client under test attaches to a plugin that another client launched
	launcher        *plugin.Client
	attachCalls     int
	attachAfterKill bool
	testMode        bool
	xlate           bool // the attached runner translates addresses (and the reattach address is given as the plugin sees it)
}

// onceAttached is the AttachedRunner handed to a reattaching client: it follows the scripted plugin process.
type onceAttached struct {
	st *onceState
}

func (a *onceAttached) Wait(context.Context) error {
	<-a.st.r.exited
	vs.Point("attached.Wait")
	return nil
}
func (a *onceAttached) Kill(context.Context) error { a.st.r.exit(); return nil }
func (a *onceAttached) ID() string                 { return "attached-1" }
func (a *onceAttached) PluginToHost(n, ad string) (string, string, error) {
	if a.st.xlate { // a container-style runner: the plugin's /plugin-view/... is the host's /...
		return n, strings.Replace(ad, "/plugin-view/", "/", 1), nil
	}
	return n, ad, nil
}
func (a *onceAttached) HostToPlugin(n, ad string) (string, string, error) { return n, ad, nil }

func newOnce(x *vs.Exec, behaviour string) *onceState {
	st := &onceState{x: x}
	ps := plugin.PluginSet{"p": &tagPlugin{tag: "t"}}
	var script func(r *scriptRunner)
	// "re-<proto>": the client under test reattaches to a running plugin; "tre-<proto>": in test mode
	// (ReattachConfig.Test, what ServeConfig.Test hands out: Kill must leave the plugin alone)
	attach := ""
	if b, ok := strings.CutPrefix(behaviour, "xre-"); ok {
		// reattach through a runner with a non-identity address translator; the configured address is one that the
		// translator would change (whether such a client can connect is not this property's matter: Start's answers are)
		attach, behaviour, st.xlate = b, b, true
	} else if b, ok := strings.CutPrefix(behaviour, "tre-"); ok {
		attach, behaviour, st.testMode = b, b, true
	} else if b, ok := strings.CutPrefix(behaviour, "re-"); ok {
		attach, behaviour = b, b
	}
	// "wild4-<proto>" / "wild6-<proto>": the plugin announces a wildcard TCP address (0.0.0.0:port, [::]:port)
	tcp := ""
	if b, ok := strings.CutPrefix(behaviour, "wild4-"); ok {
		behaviour, tcp = b, "0.0.0.0:4567"
	} else if b, ok := strings.CutPrefix(behaviour, "wild6-"); ok {
		behaviour, tcp = b, "[::]:4568"
	}
	// "rel-<proto>": the plugin announces a unix socket with a relative path
	relSock := false
	if b, ok := strings.CutPrefix(behaviour, "rel-"); ok {
		behaviour, relSock = b, true
	}
	// "slow-<proto>": the runner's Start succeeds, but only after more time than StartTimeout
	slowLaunch := false
	if b, ok := strings.CutPrefix(behaviour, "slow-"); ok {
		behaviour, slowLaunch = b, true
	}
	// "noid-<behaviour>": the runner has no identifier for its plugin (ID() == "")
	noID := false
	if b, ok := strings.CutPrefix(behaviour, "noid-"); ok {
		behaviour, noID = b, true
	}
	switch behaviour {
	case "netrpc":
		script = servePlugin(serveOpts{proto: "netrpc", plugins: ps, tcpAddr: tcp, relSock: relSock})
	case "grpc":
		script = servePlugin(serveOpts{proto: "grpc", plugins: plugin.PluginSet{"p": &tagGRPCPlugin{tag: "t"}}, tcpAddr: tcp, relSock: relSock})
	case "badline":
		script = func(r *scriptRunner) { fmt.Fprintf(r.stdout, "1|99|tcp|127.0.0.1:1\n"); r.waitKilled() }
	case "badproto": // fails late: the line is well-formed but names a protocol the client does not allow
		script = func(r *scriptRunner) { fmt.Fprintf(r.stdout, "1|1|tcp|127.0.0.1:1|bogus\n"); r.waitKilled() }
	case "muxno": // a gRPC plugin that knows nothing about multiplexing, asked for it (the client is configured with GRPCBrokerMultiplex)
		script = func(r *scriptRunner) { fmt.Fprintf(r.stdout, "1|1|tcp|127.0.0.1:1|grpc|\n"); r.waitKilled() }
	case "silent":
		script = func(r *scriptRunner) { r.waitKilled() }
	case "rferr":
		script = func(r *scriptRunner) { r.waitKilled() }
		st.rfErr = true
	}
	st.r = newScriptRunner(x, script)
	st.r.emptyID = noID
	if slowLaunch {
		st.r.startDelay = 5 * time.Second // longer than the client's StartTimeout (4 s)
	}
	cfg := &plugin.ClientConfig{
		HandshakeConfig:  plugin.HandshakeConfig{MagicCookieKey: "VK", MagicCookieValue: "vv", ProtocolVersion: 1},
		Plugins:          ps,
		AllowedProtocols: []plugin.Protocol{plugin.ProtocolNetRPC, plugin.ProtocolGRPC},
		StartTimeout:     4 * time.Second,
		Logger:           nullLogger(),
		UnixSocketConfig: &plugin.UnixSocketConfig{TempDir: os.Getenv("TMPDIR")},
		RunnerFunc: func(l hclog.Logger, cmd *exec.Cmd, tmp string) (runner.Runner, error) {
			st.rfCalls++
			st.tmpDirs = append(st.tmpDirs, tmp)
			if st.killedAfterLaunch {
				st.launchAfterKill = true
			}
			if st.rfErr {
				return nil, fmt.Errorf("runner unavailable")
			}
			return st.r.runnerFunc(l, cmd, tmp)
		},
	}
	if behaviour == "grpc" {
		cfg.Plugins = plugin.PluginSet{"p": &tagGRPCPlugin{tag: "t"}}
	}
	if behaviour == "muxno" {
		cfg.Plugins = plugin.PluginSet{"p": &tagGRPCPlugin{tag: "t"}}
		cfg.GRPCBrokerMultiplex = true
	}
	if attach != "" {
		// the plugin is launched by another client first (set-up, no decision points)
		x.Hold()
		lcfg := *cfg
		lcfg.RunnerFunc = st.r.runnerFunc
		st.launcher = plugin.NewClient(&lcfg)
		_, err := st.launcher.Start()
		rc := st.launcher.ReattachConfig()
		x.Release()
		if err != nil || rc == nil {
			x.Fail("ENGINE", "reattach set-up: launching the plugin failed: %v", err)
			rc = &plugin.ReattachConfig{}
		}
		cfg.RunnerFunc = nil
		cfg.UnixSocketConfig = nil
		raddr := rc.Addr
		if ua, ok := raddr.(*net.UnixAddr); ok && st.xlate {
			raddr = &net.UnixAddr{Net: "unix", Name: "/plugin-view" + ua.Name}
		}
		cfg.Reattach = &plugin.ReattachConfig{
			Protocol: rc.Protocol, ProtocolVersion: 1, Addr: raddr, Pid: 1 << 22, Test: st.testMode,
			ReattachFunc: func() (runner.AttachedRunner, error) {
				st.attachCalls++
				if st.killedAfterLaunch { // (a Kill before any attach stops nothing, like a Kill before any launch)
					st.attachAfterKill = true
				}
				return &onceAttached{st: st}, nil
			},
		}
	}
	st.cl = plugin.NewClient(cfg)
	x.OnCleanup(func() {
		st.r.exit()
		for _, d := range st.tmpDirs {
			os.RemoveAll(d)
		}
		if st.launcher != nil && st.r.tmpDir != "" {
			os.RemoveAll(st.r.tmpDir)
		}
	})
	return st
}

func (st *onceState) op(name string) {
	x := st.x
	defer func() {
		if rec := recover(); rec != nil {
			x.Fail("PANIC", "%s panicked: %v", name, rec)
		}
	}()
	switch name {
	case "Start":
		a, err := st.cl.Start()
		x.Obs("Start err=%v", err != nil)
		if err == nil {
			st.addrs = append(st.addrs, a)
			st.addrStrs = append(st.addrStrs, a.Network()+"|"+a.String()) // the value at the time of the call
		} else if st.r.startCount() > 0 {
			st.failedAfterLaunch = true
		}
	case "Client":
		c, err := st.cl.Client()
		x.Obs("Client err=%v", err != nil)
		if err == nil {
			st.clients = append(st.clients, c)
		} else if st.r.startCount() > 0 {
			st.failedAfterLaunch = true
		}
	case "Protocol":
		pr := st.cl.Protocol()
		if pr == plugin.ProtocolInvalid && st.r.startCount() > 0 {
			st.failedAfterLaunch = true
		}
		st.protos = append(st.protos, string(pr))
		x.Obs("Protocol=%s", pr)
	case "ReattachConfig":
		rc := st.cl.ReattachConfig()
		if rc != nil {
			st.reattach = append(st.reattach, fmt.Sprintf("%s|%v|%d|test=%v", rc.Protocol, rc.Addr, rc.Pid, rc.Test))
		} else {
			st.reattach = append(st.reattach, "nil")
		}
		x.Obs("Reattach nil=%v", rc == nil)
	case "ID":
		st.cl.ID()
	case "Exited":
		st.cl.Exited()
	case "Kill":
		st.cl.Kill()
		st.killed = true
		if (st.launcher == nil && st.r.startCount() > 0) || st.attachCalls > 0 {
			st.killedAfterLaunch = true
		}
		x.Obs("Kill")
	}
}

func (st *onceState) check(desc string) {
	x := st.x
	circ := "although no start had failed"
	if st.failedAfterLaunch {
		circ = "after a start that failed post-launch"
	}
	if n := st.r.startCount(); n > 1 {
		x.Fail("S", "the plugin was launched %d times (runner.Start calls) %s [%s]", n, circ, desc)
	}
	if st.launchAfterKill {
		x.Fail("S", "a call after Kill launched the plugin again %s [%s]", circ, desc)
	}
	if st.launcher != nil {
		if st.rfCalls > 0 {
			x.Fail("S", "a reattaching client launched a plugin (RunnerFunc called %d times) [%s]", st.rfCalls, desc)
		}
		if st.attachCalls > 1 {
			x.Fail("S", "the client attached to its plugin %d times (ReattachFunc calls) [%s]", st.attachCalls, desc)
		}
		if st.attachAfterKill && !st.testMode {
			x.Fail("S", "a call after Kill attached to the plugin again [%s]", desc)
		}
	}
	for _, a := range st.addrs[min(1, len(st.addrs)):] {
		if a != st.addrs[0] {
			x.Fail("S", "successful Start calls returned different addresses [%s]", desc)
		}
	}
	for i, a := range st.addrStrs {
		// ... also by value: what an earlier call returned must not change under the caller's feet
		if a != st.addrStrs[0] {
			x.Fail("S", "successful Start calls returned different addresses: %s, then %s [%s]", st.addrStrs[0], a, desc)
			break
		}
		if now := st.addrs[i].Network() + "|" + st.addrs[i].String(); now != a {
			x.Fail("S", "the address returned by Start (%s) was changed afterwards to %s [%s]", a, now, desc)
			break
		}
	}
	// accessors are idempotent: the answer to Protocol() never changes once given, except from "not started
	// successfully" ("") ... to nothing else either: a client whose start failed stays failed
	for i := 1; i < len(st.protos); i++ {
		if st.protos[i] != st.protos[i-1] {
			x.Fail("S", "Protocol() answered %q, then %q on the same client [%s]", st.protos[i-1], st.protos[i], desc)
			break
		}
	}
	// ReattachConfig(): nil until the start has succeeded, then always the same
	seen := ""
	for _, r := range st.reattach {
		if r == "nil" {
			if seen != "" {
				x.Fail("S", "ReattachConfig() returned nil after it had returned %s [%s]", seen, desc)
				break
			}
			continue
		}
		if seen != "" && r != seen {
			x.Fail("S", "ReattachConfig() returned %s, then %s [%s]", seen, r, desc)
			break
		}
		seen = r
	}
	for _, c := range st.clients[min(1, len(st.clients)):] {
		if c != st.clients[0] {
			x.Fail("S", "successful Client calls returned different protocol clients [%s]", desc)
		}
	}
}

var onceOps = []string{"Start", "Client", "Protocol", "ReattachConfig", "ID", "Exited", "Kill"}

// once_seq — C19 sequential: params beh, seq (comma separated ops).
// once_conc — C19 concurrent: params beh, g1, g2[, g3]: per-goroutine op lists.
func init() {
	explore.Register(&explore.Scenario{
		Name:    "once_seq",
		Horizon: 60 * time.Second,
		Settle:  3 * time.Second,
		Body: func(x *vs.Exec, p explore.Params) {
			st := newOnce(x, p["beh"])
			x.Put("st", st)
			for _, o := range strings.Split(p["seq"], ",") {
				st.op(o)
			}
			if !st.killed {
				st.cl.Kill()
			}
			x.Put("completed", true)
		},
		Check: func(x *vs.Exec, p explore.Params) {
			st := x.Data["st"].(*onceState)
			desc := fmt.Sprintf("plugin=%s history=%s", p["beh"], p["seq"])
			x.Put("nontrivial", strings.Count(p["seq"], ",") >= 1)
			if x.Data["completed"] != true {
				x.Fail("L", "history never finished (blocked: %v) [%s]", x.EndBlocked, desc)
			}
			st.check(desc)
		},
		Conform: func() []explore.Params {
			return []explore.Params{{"beh": "netrpc", "seq": "Start,Client,Kill"}, {"beh": "grpc", "seq": "Client,Protocol,Kill,Start"}, {"beh": "badline", "seq": "Start,Kill"}}
		},
		Instances: func(tier string) []explore.Params {
			n := 3
			if tier == "thorough" {
				n = 5
			} else if tier == "len4" {
				n = 4
			}
			var out []explore.Params
			var rec func(prefix []string)
			behs := []string{"netrpc", "grpc", "badline", "badproto", "silent", "rferr", "re-netrpc", "re-grpc", "tre-netrpc", "tre-grpc", "wild4-netrpc", "wild6-grpc", "slow-netrpc", "slow-grpc", "rel-netrpc", "rel-grpc", "xre-netrpc", "xre-grpc", "noid-badline", "noid-badproto", "noid-silent", "noid-netrpc", "noid-grpc", "muxno", "noid-muxno"}
			rec = func(prefix []string) {
				if len(prefix) > 0 {
					for _, b := range behs {
						if b == "silent" && len(prefix) > 3 {
							continue // each failing Start costs the full timeout; keep the silent plugin to short histories
						}
						if (strings.Contains(b, "re-") || strings.HasPrefix(b, "wild") || strings.HasPrefix(b, "slow-") || strings.HasPrefix(b, "rel-") || strings.HasPrefix(b, "noid-")) && len(prefix) > 4 {
							continue
						}
						out = append(out, explore.Params{"beh": b, "seq": strings.Join(prefix, ",")})
					}
				}
				if len(prefix) == n {
					return
				}
				for _, o := range onceOps {
					rec(append(append([]string(nil), prefix...), o))
				}
			}
			rec(nil)
			return out
		},
	})
	explore.Register(&explore.Scenario{
		Name:    "once_conc",
		Horizon: 60 * time.Second,
		Settle:  3 * time.Second,
		Body: func(x *vs.Exec, p explore.Params) {
			st := newOnce(x, p["beh"])
			x.Put("st", st)
			d := newDone(x)
			x.Put("d", d)
			for _, g := range []string{"g1", "g2", "g3"} {
				ops, ok := p[g]
				if !ok {
					continue
				}
				d.goIn("host", g, func() {
					for _, o := range strings.Split(ops, ",") {
						st.op(o)
					}
				})
			}
		},
		Check: func(x *vs.Exec, p explore.Params) {
			st := x.Data["st"].(*onceState)
			desc := fmt.Sprintf("plugin=%s g1=%s g2=%s g3=%s", p["beh"], p["g1"], p["g2"], p["g3"])
			x.Data["d"].(*done).checkAll(x)
			st.check(desc)
			for _, e := range x.EndBlocked {
				x.Fail("L", "blocked forever: %s [%s]", e, desc)
			}
			x.GoFree(func() { st.cl.Kill() })
			x.Quiesce(6 * time.Second)
		},
		Instances: func(tier string) []explore.Params {
			var out []explore.Params
			ops := []string{"Start", "Client", "Kill", "Protocol", "ReattachConfig"}
			if tier == "fine" {
				for _, b := range []string{"netrpc", "grpc", "badline", "re-grpc"} {
					for _, pr := range [][2]string{{"Start", "Start"}, {"Start", "Client"}, {"Client", "Client"}, {"Start", "Kill"}, {"Client", "Kill"}, {"Kill", "Kill"}, {"Client", "ReattachConfig"}, {"Start", "Protocol"}} {
						out = append(out, explore.Params{"beh": b, "g1": pr[0], "g2": pr[1], "fine": "1"})
					}
				}
				return out
			}
			behs := []string{"netrpc", "grpc", "badline", "badproto", "re-netrpc", "tre-grpc"}
			if tier == "thorough" {
				behs = append(behs, "re-grpc", "tre-netrpc")
			}
			for _, b := range behs {
				for i, a := range ops {
					for _, c := range ops[i:] {
						out = append(out, explore.Params{"beh": b, "g1": a, "g2": c})
					}
				}
				if tier == "thorough" {
					for _, a := range []string{"Start", "Client", "Kill"} {
						for _, c := range []string{"Start", "Client", "Kill"} {
							for _, e := range []string{"Start", "Client", "Kill"} {
								out = append(out, explore.Params{"beh": b, "g1": a, "g2": c, "g3": e})
							}
							out = append(out, explore.Params{"beh": b, "g1": a + "," + c, "g2": "Kill,Start"})
							out = append(out, explore.Params{"beh": b, "g1": a + "," + c, "g2": "Client,Kill"})
						}
					}
				}
			}
			return out
		},
	})
}
