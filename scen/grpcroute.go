package scen

import (
	"context"
	"crypto/tls"
	"crypto/x509"
	"fmt"
	"strconv"
	"strings"
	"time"

	plugin "github.com/hashicorp/go-plugin"
	grpctest "github.com/hashicorp/go-plugin/test/grpc"
	"google.golang.org/grpc"

	"verif/engine/explore"
	"verif/engine/vs"
)

// routeInstances: "single" = the 12 one-id patterns; "pairs" = ordered pairs
// over gaps {0, 4.9 s} (64); "pairs-all" = all 144 ordered pairs.
func routeInstances(tier string) []explore.Params {
	var out []explore.Params
	one := []string{}
	for _, s := range []string{"h", "p"} {
		for _, o := range []string{"A", "D"} {
			for _, g := range []string{"0", "2000", "4900"} {
				one = append(one, s+o+g)
			}
		}
	}
	if tier == "single" {
		for _, a := range one {
			out = append(out, explore.Params{"pat": a})
		}
		return out
	}
	if tier == "many" { // C06: "any number of concurrently outstanding distinct IDs": 300 of them, both directions, both orders
		// (per broker: 300 accepts waiting on the plugin's, 300 dialled streams parked on the host's)
		var pats []string
		for i := 0; i < 300; i++ {
			pats = append(pats, "hA1000") // all accepts are waiting before the first dial
		}
		for i := 0; i < 300; i++ {
			pats = append(pats, "pD1000") // all dialled streams are parked before the first accept
		}
		return []explore.Params{{"pat": strings.Join(pats, ",")}}
	}
	if tier == "backlog" { // C06: 320 dials at once from go-plugin's own RPCClient to a hand-written plugin on a stock yamux session
		// (accept queue of 256) that starts to accept streams one second later
		var pats []string
		for i := 0; i < 320; i++ {
			pats = append(pats, "hA0")
		}
		return []explore.Params{{"pat": strings.Join(pats, ","), "raw": "p", "hostclient": "1", "slowaccept": "1000", "notime": "1"}}
	}
	if tier == "rawpeer" { // C06: one end is a hand-written peer that sends ids and acknowledgements in two pieces
		for _, raw := range []string{"h", "p"} {
			for _, a := range []string{"hA0", "hD0", "pA0", "pD0", "hA2000", "pD2000"} {
				out = append(out, explore.Params{"pat": a, "raw": raw, "notime": "1"})
				out = append(out, explore.Params{"pat": a, "raw": raw, "ids": "261", "notime": "1"}) // 0x105: more than one non-zero byte
			}
			for _, a := range []string{"hA0", "pA0", "hD0", "pD0", "hA0,pA0"} {
				out = append(out, explore.Params{"pat": a, "raw": raw, "notime": "1", "probe": "1"})
			}
			out = append(out, explore.Params{"pat": "hA0,pA0", "raw": raw, "ids": "5,261", "notime": "1"}, explore.Params{"pat": "hA0,hA0", "raw": raw, "ids": "5,261", "notime": "1"}, explore.Params{"pat": "pD0,pD0", "raw": raw, "ids": "5,261", "notime": "1"})
		}
		return out
	}
	if tier == "fine" { // function-entry preemption points on; two ids dialled at once from one side with one shared option slice
		for _, pp := range []string{"hA0,hA0", "pA0,pA0", "hA0,pA0", "hD0,hD0", "pD0,pD0"} {
			out = append(out, explore.Params{"pat": pp, "opts": "shared", "fine": "1"})
		}
		out = append(out, explore.Params{"pat": "hA0,hA0", "fine": "1"}, explore.Params{"pat": "pA0,pD0", "fine": "1"})
		return out
	}
	if tier == "ids" { // explicit ids: one number outstanding in both directions at once; the edges of uint32
		for _, pp := range [][2]string{{"hA0,pA0", "7,7"}, {"hD0,pD0", "7,7"}, {"hA0,pD1000", "7,7"}, {"hA1000,pA0", "7,7"}, {"hD0,pA2000", "7,7"},
			{"hA0,hA0", "0,4294967295"}, {"pD0,pA0", "0,2147483648"}, {"hA0,pA0", "0,0"}} {
			out = append(out, explore.Params{"pat": pp[0], "ids": pp[1]})
		}
		for _, a := range []string{"hA0", "pA0", "hD2000", "pD0"} {
			out = append(out, explore.Params{"pat": a, "ids": "0"}, explore.Params{"pat": a, "ids": "4294967295"})
		}
		return out
	}
	if tier == "retry" { // a dial that came too early and timed out (5 s), the accept at 6 s, the dial repeated at 7 s
		for _, a := range []string{"hD6000", "pD6000"} {
			out = append(out, explore.Params{"pat": a, "retry": "2000"}, explore.Params{"pat": a + ",hA0", "retry": "2000"})
			for _, v := range []string{"tls", "xlate"} {
				out = append(out, explore.Params{"pat": a, "retry": "2000", "var": v})
			}
		}
		return out
	}
	if tier == "late" { // C06: the connection is used again, with bulk data in both directions, 6 s after it was dialled
		for _, a := range []string{"hA0", "pA0", "hD2000", "pD4900"} {
			out = append(out, explore.Params{"pat": a, "late": "1"})
		}
		out = append(out, explore.Params{"pat": "hA0,pD0", "late": "1"})
		return out
	}
	if tier == "variants" || tier == "variants-thorough" { // TLS on both brokers; a runner that translates addresses
		for _, v := range []string{"tls", "xlate"} {
			for _, a := range one {
				if tier == "variants" && strings.HasSuffix(a, "2000") {
					continue
				}
				out = append(out, explore.Params{"pat": a, "var": v})
			}
			out = append(out, explore.Params{"pat": "hA0,pD0", "var": v}, explore.Params{"pat": "pA4900,hD0", "var": v})
		}
		return out
	}
	// a slow server factory must not delay the announcement of the listener: dial first, accept 3.5 s later, factory 2.5 s
	for _, s := range []string{"h", "p"} {
		out = append(out, explore.Params{"pat": s + "D3500", "factory": "2500"}, explore.Params{"pat": s + "A0", "factory": "2500"})
	}
	// staggered pairs on one dialling side: id B is accepted at 0 and dialled while id A's dial is still
	// waiting for its accept (a dial must not be delayed by another id's pending dial)
	for _, s := range []string{"h", "p"} {
		out = append(out, explore.Params{"pat": s + "A1500," + s + "D4600@1000"}, explore.Params{"pat": s + "A2500," + s + "D4900@500"})
	}
	for _, a := range one {
		for _, b := range one {
			if tier != "pairs-all" && (strings.HasSuffix(a, "2000") || strings.HasSuffix(b, "2000")) {
				continue
			}
			out = append(out, explore.Params{"pat": a + "," + b})
		}
	}
	return out
}

// grpc_route — C07: calls on the connection dialled for id n are answered by
// the server accepted on id n. params: pat as in mux_route; mux=0|1 (C08 uses
// its own sequential driver, this one is for the non-multiplexed broker).
func init() {
	explore.Register(&explore.Scenario{
		Name: "grpc_route",
		Body: func(x *vs.Exec, p explore.Params) {
			x.Hold()
			po := grpcPairOpts{}
			switch p["var"] {
			case "tls":
				tc := symTLS()
				po.hostTLS, po.pluginTLS = tc, tc.Clone()
			case "xlate":
				po.xlate = true
			}
			pr, err := newGRPCPair(x, po)
			if err != nil {
				x.Fail("ENGINE", "pair setup: %v", err)
				return
			}
			x.Release()
			x.Put("pair", pr)
			var conns []*grpc.ClientConn
			closeAll := func() {
				for _, c := range conns {
					c.Close()
				}
			}
			x.Put("close", func() { closeAll(); pr.gc.Close() })
			d := newDone(x)
			x.Put("d", d)
			sharedOpts := append(make([]grpc.DialOption, 0, 8), grpc.WithUserAgent("verif"))
			for i, pat := range strings.Split(p["pat"], ",") {
				slot := uint32(10 + i) // names the pattern in observations and verdict keys
				id := slot
				if l := strings.Split(p["ids"], ","); p["ids"] != "" && i < len(l) {
					// explicit ids: the same number may be outstanding in both directions at once (each side allocates
					// from its own counter), and ids are plain uint32 values
					v, _ := strconv.ParseUint(l[i], 10, 32)
					id = uint32(v)
				}
				ds, order, gap, start := parsePat(pat)
				db, ddom := pr.side(ds)
				ab, adom := pr.side(other(ds))
				tag := fmt.Sprintf("id=%d", id)
				if p["ids"] != "" {
					tag += fmt.Sprintf("/pattern%d", i) // one number may be in use in both directions
				}
				x.Go(adom, func() {
					if start > 0 {
						x.Pause(start)
					}
					if order == 'D' {
						x.Pause(gap)
					}
					ab.AcceptAndServe(id, func(opts []grpc.ServerOption) *grpc.Server {
						if f := ms(p["factory"]); f > 0 { // a server factory that takes its time (it runs on the accepting side)
							x.Pause(f)
						}
						s := grpc.NewServer(opts...)
						grpctest.RegisterPingPongServer(s, &ppServer{tag: tag})
						return s
					})
				})
				d.goIn(ddom, fmt.Sprintf("dial%d", slot), func() {
					if start > 0 {
						x.Pause(start)
					}
					if order == 'A' {
						x.Pause(gap)
					}
					t0 := x.Now()
					var cc *grpc.ClientConn
					var err error
					if p["opts"] == "shared" {
						// the application keeps one option slice (with spare capacity) for all its brokered dials
						cc, err = db.DialWithOptions(id, sharedOpts...)
					} else {
						cc, err = db.Dial(id)
					}
					x.Obs("dial%d err=%v", id, err != nil)
					if r := ms(p["retry"]); err != nil && r > 0 {
						// the caller dialled too early (nobody accepted within the waiting period), got the error, and tries again a
						// while later, by when the other end has accepted: an ordinary dial after an accept
						x.Pause(r)
						t0 = x.Now()
						cc, err = db.Dial(id)
						x.Obs("redial%d err=%v", id, err != nil)
						if err != nil {
							if x.TimeDevs == 0 {
								x.Fail("T", "Dial(%d) repeated %v after an early attempt had timed out, and 1 s after the other end accepted, failed: %v", id, r, err)
							}
							return
						}
					}
					if err != nil {
						x.Put(fmt.Sprintf("derr%d", slot), fmt.Sprintf("Dial: %v after %v", err, x.Now()-t0))
						return
					}
					conns = append(conns, cc)
					x.OnCleanup(func() { cc.Close() })
					ctx, cancel := context.WithTimeout(context.Background(), 20*time.Second)
					defer cancel()
					got, err := pingTag(ctx, cc)
					x.Obs("ping%d err=%v tag=%s", id, err != nil, got)
					if err != nil {
						x.Put(fmt.Sprintf("derr%d", slot), fmt.Sprintf("first RPC: %v after %v", err, x.Now()-t0))
						return
					}
					if got != tag {
						x.Fail("S", "misrouted: connection dialled for id %d was answered by %q", id, got)
					}
				})
			}
		},
		Check: func(x *vs.Exec, p explore.Params) {
			d, _ := x.Data["d"].(*done)
			if d == nil {
				if len(x.Violations()) == 0 {
					x.Fail("L", "setup never finished: %v", x.EndBlocked)
				}
				return
			}
			d.checkAll(x)
			if x.TimeDevs == 0 {
				for i, pat := range strings.Split(p["pat"], ",") {
					id := 10 + i
					if _, _, g, _ := parsePat(pat); g < 5*time.Second {
						if e, ok := x.Data[fmt.Sprintf("derr%d", id)]; ok {
							x.Fail("T", "id %d (gap %sms inside the pending window): %v", id, pat[2:], e)
						}
					}
				}
			}
			for _, e := range x.EndBlocked {
				x.Fail("L", "blocked forever: %s", e)
			}
			x.GoFree(x.Data["close"].(func()))
			x.Quiesce(8 * time.Second)
			checkNoLeak(x, "hashicorp/go-plugin.")
		},
		Conform: func() []explore.Params {
			return []explore.Params{{"pat": "hA0"}, {"pat": "pD0"}, {"pat": "pA0,hD0"}, {"pat": "hA0", "var": "tls"}}
		},
		Instances: routeInstances,
	})
}

// symTLS is a TLS configuration usable in both directions (server certificate + roots). The
// certificate is generated when called, i.e. on the bubble's virtual clock (a certificate made
// at process start, on the real clock, is "not yet valid" in the year 2000).
func symTLS() *tls.Config {
	cp, kp, err := plugin.VGenerateCert()
	if err != nil {
		panic(err)
	}
	cert, err := tls.X509KeyPair(cp, kp)
	if err != nil {
		panic(err)
	}
	pool := x509.NewCertPool()
	pool.AppendCertsFromPEM(cp)
	return &tls.Config{Certificates: []tls.Certificate{cert}, RootCAs: pool, ServerName: "localhost", MinVersion: tls.VersionTLS12}
}
