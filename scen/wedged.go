package scen

import (
	"fmt"
	"time"

	"verif/engine/explore"
	"verif/engine/vs"
)

// wedged_plugin — C03: the plugin stops (SIGSTOP, a debugger, swap) while the host keeps announcing brokered
// listeners, until the broker's control stream has no flow-control window left and one announcement waits inside
// the stream; then the plugin process dies. Every pending and later host call returns, with an error; nothing in
// the host panics. params: proto (grpc), n (announcements attempted).
func init() {
	explore.Register(&explore.Scenario{
		Name:    "wedged_plugin",
		Horizon: 120 * time.Second,
		Settle:  6 * time.Second,
		Body: func(x *vs.Exec, p explore.Params) {
			n := 4000
			fmt.Sscan(p["n"], &n)
			d := newDone(x)
			x.Put("d", d)
			x.Hold()
			lc := newLive(x, liveOpts{proto: p["proto"], timeout: 3 * time.Second})
			x.Put("lc", lc)
			if _, err := lc.cl.Start(); err != nil {
				x.Fail("ENGINE", "start: %v", err)
				return
			}
			cp, err := lc.cl.Client()
			if err != nil {
				x.Fail("ENGINE", "connect: %v", err)
				return
			}
			if _, err := cp.Dispense("p"); err != nil || lc.gp == nil || lc.gp.cb == nil {
				x.Fail("ENGINE", "dispense: %v", err)
				return
			}
			cb := lc.gp.cb
			lc.r.dom.Freeze()
			d.goIn("host", "announcer", func() {
				for i := 0; i < n; i++ {
					x.Put("announced", i)
					ln, err := cb.Accept(uint32(1000 + i))
					if err != nil {
						x.Put("announce-err", fmt.Sprintf("#%d: %v", i, err))
						return
					}
					ln.Close()
				}
				x.Put("announce-all", true)
			})
			x.Pause(2 * time.Second)
			x.Release()
			x.Put("crashAt", x.Now())
			lc.r.exit()
			d.goIn("host", "Ping", func() {
				if err := cp.Ping(); err == nil {
					x.Fail("S", "Ping succeeded after the plugin died")
				}
			})
			d.goIn("host", "Kill", func() {
				x.Pause(3 * time.Second)
				lc.cl.Kill()
			})
		},
		Check: func(x *vs.Exec, p explore.Params) {
			lc, _ := x.Data["lc"].(*liveClient)
			d, _ := x.Data["d"].(*done)
			if lc == nil || d == nil {
				return
			}
			close(lc.block)
			x.Put("nontrivial", true)
			x.Obs("announced=%v blocked-in-stream=%v err=%v", x.Data["announced"], x.Data["announce-all"] != true, x.Data["announce-err"] != nil)
			if x.Data["announce-all"] == true {
				x.Fail("ENGINE", "all %s announcements went through: the stream never filled up", p["n"])
			}
			d.checkAll(x)
			for _, e := range x.EndBlocked {
				x.Fail("L", "blocked forever: %s", e)
			}
			if !lc.cl.Exited() {
				x.Fail("L", "Client.Exited() is false at the end of the session")
			}
		},
		Conform: func() []explore.Params { return []explore.Params{{"proto": "grpc", "n": "4000"}} },
		Instances: func(tier string) []explore.Params {
			return []explore.Params{{"proto": "grpc", "n": "4000"}}
		},
	})
}
