package scen

import (
	"bytes"
	"crypto/tls"
	"fmt"
	"io"
	"net"
	"os"
	"time"

	plugin "github.com/hashicorp/go-plugin"

	"verif/engine/vnet"
	"verif/engine/vs"
)

// serveOpts describes the scripted plugin process that really serves.
type serveOpts struct {
	proto      string // netrpc | grpc
	mux        bool   // advertise + use gRPC broker multiplexing
	version    int
	plugins    plugin.PluginSet
	tls        *tls.Config
	certField  string
	stdout     io.Reader // what the plugin "writes to its process stdout" after serving begins
	stderr     io.Reader
	exitDelay  time.Duration         // time between the shutdown request and process exit
	ignoreQuit bool                  // never exit on a shutdown request
	preLine    func(r *scriptRunner) // before the handshake line (crash points...)
	onExit     func()                // deferred code of the plugin (cleanup marker)
	seventh    string                // seventh field ("" = "true" when mux, absent otherwise)
	realStdout []byte                // written to the real stdout after the handshake line
	tcpAddr    string                // listen on this TCP address (e.g. a wildcard one) instead of a unix socket
	relSock    bool                  // listen on a unix socket with a RELATIVE path (host and plugin share the working directory)
}

// servePlugin is the script of a healthy plugin: what plugin.Serve does after
// the cookie check — listener, server, handshake line, wait for done, exit.
func servePlugin(o serveOpts) func(r *scriptRunner) {
	return func(r *scriptRunner) {
		if o.stdout == nil {
			o.stdout = new(bytes.Buffer)
		}
		if o.stderr == nil {
			o.stderr = new(bytes.Buffer)
		}
		if o.version == 0 {
			o.version = 1
		}
		var addr net.Addr
		var done <-chan struct{}
		switch o.proto {
		case "netrpc":
			ln, err := plugin.VServerListener(plugin.UnixSocketConfig{})
			if o.tcpAddr != "" {
				ln, err = vnet.Listen("tcp", o.tcpAddr)
			}
			if o.relSock {
				ln.Close()
				ln, err = relListener(r)
			}
			if err != nil {
				r.x.Fail("ENGINE", "listener: %v", err)
				return
			}
			var l net.Listener = ln
			if o.tls != nil {
				l = tls.NewListener(ln, o.tls)
			}
			dc := make(chan struct{})
			srv := &plugin.RPCServer{Plugins: o.plugins, Stdout: o.stdout, Stderr: o.stderr, DoneCh: dc}
			go srv.Serve(l)
			addr, done = ln.Addr(), dc
			defer l.Close()
		case "grpc":
			var tl net.Listener
			if o.relSock {
				var err error
				if tl, err = relListener(r); err != nil {
					r.x.Fail("ENGINE", "listener: %v", err)
					return
				}
			}
			if o.tcpAddr != "" {
				var err error
				if tl, err = vnet.Listen("tcp", o.tcpAddr); err != nil {
					r.x.Fail("ENGINE", "listener: %v", err)
					return
				}
			}
			s, ln, err := plugin.VStartGRPCServer(plugin.VGRPCOpts{Plugins: o.plugins, TLS: o.tls, Mux: o.mux, Stdout: o.stdout, Stderr: o.stderr, Logger: nullLogger(), Listener: tl})
			if err != nil {
				r.x.Fail("ENGINE", "grpc server: %v", err)
				return
			}
			addr, done = ln.Addr(), s.VDone()
			defer ln.Close()
		}
		if o.preLine != nil {
			o.preLine(r)
		}
		line := fmt.Sprintf("%d|%d|%s|%s|%s|%s", plugin.CoreProtocolVersion, o.version, addr.Network(), addr.String(), o.proto, o.certField)
		sv := o.seventh
		if sv == "" && o.mux {
			sv = "true"
		}
		if sv != "" {
			line += "|" + sv
		}
		line += "\n"
		h := len(line) / 2
		io.WriteString(r.stdout, line[:h])
		vs.Point("plugin:mid-line")
		io.WriteString(r.stdout, line[h:])
		if len(o.realStdout) > 0 {
			out := o.realStdout
			r.x.Go(r.dom.Name, func() { r.stdout.Write(out) })
		}
		for {
			select {
			case <-done:
				if o.ignoreQuit {
					done = nil
					continue
				}
				vs.Point("plugin:quit-requested")
				if o.exitDelay > 0 {
					r.x.Pause(o.exitDelay)
				}
				if o.onExit != nil && !r.hasExited() {
					o.onExit()
				}
				return
			case <-r.exited:
				return
			}
		}
	}
}

// relListener listens on a unix socket whose path is relative to the (shared) working directory.
func relListener(r *scriptRunner) (net.Listener, error) {
	dir := fmt.Sprintf("verif-rel-%d-%d", os.Getpid(), r.x.ExecID)
	if err := os.MkdirAll(dir, 0o755); err != nil {
		return nil, err
	}
	r.x.OnCleanup(func() { os.RemoveAll(dir) })
	return vnet.Listen("unix", dir+"/plugin.sock")
}
