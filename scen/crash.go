package scen

import (
	"bytes"
	"context"
	"fmt"
	"io"
	"net/rpc"
	"sync/atomic"
	"time"

	plugin "github.com/hashicorp/go-plugin"
	grpctest "github.com/hashicorp/go-plugin/test/grpc"
	"google.golang.org/grpc"

	"verif/engine/explore"
	"verif/engine/vs"
)

// what the plugin of the crash session writes to its REAL stdout after the handshake line (the descriptor the
// host scans line by line): a line longer than the scanner's 64 KiB limit and a short tail
var crashRealStdout = append(bytes.Repeat([]byte{'z'}, 70000), []byte("\ntail\n")...)

type opRec struct {
	name       string
	startSeq   int64
	start, end time.Duration
	done       bool
	err        error
	needPlugin bool
}

// crash_plugin — C03: the plugin process dies at any decision point of a full
// session; every host call returns, with an error when it needed the plugin.
func init() {
	explore.Register(&explore.Scenario{
		Name:    "crash_plugin",
		Horizon: 120 * time.Second,
		Settle:  6 * time.Second,
		Setup: func(x *vs.Exec, p explore.Params) {
			var seq atomic.Int64
			x.Put("seq", &seq)
			x.AddFault(&vs.Fault{
				Name: "crash",
				Enabled: func(x *vs.Exec) bool {
					lc, _ := x.Data["lc"].(*liveClient)
					return lc != nil && lc.r.startCount() > 0 && !lc.r.hasExited()
				},
				Inject: func(x *vs.Exec) {
					lc := x.Data["lc"].(*liveClient)
					x.Put("crashSeq", seq.Add(1))
					x.Put("crashAt", x.Now())
					// it dies the way a Go program does: a panic report on stderr (with its empty line), then exit
					io.WriteString(lc.r.stderr, "panic: runtime error: invalid memory address or nil pointer dereference\n[signal SIGSEGV: segmentation violation code=0x1 addr=0x0 pc=0x4b1e2f]\n\ngoroutine 1 [running]:\nmain.main()\n\t/src/plugin/main.go:42 +0x1f\nexit status 2\n")
					if p["death"] == "silent" {
						lc.r.exitKeepingSockets()
					} else {
						lc.r.exit()
					}
				},
			})
		},
		Body: func(x *vs.Exec, p explore.Params) {
			seq := x.Data["seq"].(*atomic.Int64)
			// the plugin writes to its stdout while the session runs (crash point "during stdio streaming")
			lc := newLive(x, liveOpts{proto: p["proto"], timeout: 3 * time.Second, pStdout: bytes.NewReader(pattern(3, 3000)), syncOut: io.Discard, realStdout: crashRealStdout})
			x.Put("lc", lc)
			var ops []*opRec
			x.Put("ops", &ops)
			run := func(name string, need bool, f func() error) *opRec {
				o := &opRec{name: name, needPlugin: need, startSeq: seq.Add(1), start: x.Now()}
				ops = append(ops, o)
				func() {
					defer func() {
						if rec := recover(); rec != nil {
							x.Fail("PANIC", "%s panicked: %v", name, rec)
						}
					}()
					o.err = f()
				}()
				o.end, o.done = x.Now(), true
				x.Obs("%s err=%v", name, o.err != nil)
				return o
			}
			d := newDone(x)
			x.Put("d", d)
			var cp plugin.ClientProtocol
			var obj interface{}
			var again func()
			run("Start", true, func() error { _, err := lc.cl.Start(); return err })
			run("Client", false, func() error { var err error; cp, err = lc.cl.Client(); return err })
			if cp == nil {
				run("Kill", false, func() error { lc.cl.Kill(); return nil })
				x.Put("completed", true)
				return
			}
			run("Dispense", p["proto"] == "netrpc", func() error { var err error; obj, err = cp.Dispense("p"); return err })
			if obj != nil {
				run("call", true, func() error { return lc.call(obj, false) })
				if cc, ok := obj.(*grpc.ClientConn); ok {
					// a bidirectional stream with two exchanges (crash point "inside a stream")
					run("stream", true, func() error {
						ctx, cancel := context.WithTimeout(context.Background(), 10*time.Second)
						defer cancel()
						st, err := grpctest.NewTestClient(cc).Stream(ctx)
						if err != nil {
							return err
						}
						for i := int32(1); i <= 2; i++ {
							if err := st.Send(&grpctest.TestRequest{Input: i}); err != nil {
								return err
							}
							r, err := st.Recv()
							if err != nil {
								return err
							}
							if r.Output != 2*i {
								return fmt.Errorf("stream answered %d to %d", r.Output, i)
							}
						}
						st.CloseSend()
						if _, err := st.Recv(); err != io.EOF {
							return fmt.Errorf("stream did not end cleanly: %v", err)
						}
						return nil
					})
				}
				// a second host goroutine holds a long call open
				d.goIn("host", "slowcall", func() {
					o := &opRec{name: "slowcall", needPlugin: true, startSeq: seq.Add(1), start: x.Now()}
					ops = append(ops, o)
					o.err = lc.call(obj, true)
					o.end, o.done = x.Now(), true
					x.Obs("slowcall err=%v", o.err != nil)
				})
				// brokered exchange host -> plugin (plugin accepts, host dials)
				if p["proto"] == "netrpc" && lc.rp.sb != nil {
					sb, cb := lc.rp.sb, lc.rp.cb
					h2p := func(name string, id uint32) {
						x.Go(lc.r.dom.Name, func() {
							c, err := sb.Accept(id)
							if err == nil {
								io.Copy(c, c)
							}
						})
						run(name, true, func() error {
							c, err := cb.Dial(id)
							if err != nil {
								return err
							}
							defer c.Close()
							c.SetDeadline(time.Now().Add(10 * time.Second))
							if _, err := c.Write([]byte("x")); err != nil {
								return err
							}
							var b [1]byte
							_, err = io.ReadFull(c, b[:])
							return err
						})
					}
					h2p("broker-dial", 31)
					again = func() { h2p("broker-dial2", 33) }
					// plugin -> host (host accepts, plugin dials)
					x.Go(lc.r.dom.Name, func() {
						c, err := sb.Dial(32)
						if err == nil {
							c.Write([]byte("y"))
						}
					})
					run("broker-accept", true, func() error {
						c, err := cb.Accept(32)
						if err != nil {
							return err
						}
						defer c.Close()
						c.SetDeadline(time.Now().Add(10 * time.Second))
						var b [1]byte
						_, err = io.ReadFull(c, b[:])
						return err
					})
				} else if lc.gp != nil && lc.gp.sb != nil {
					sb, cb := lc.gp.sb, lc.gp.cb
					h2p := func(name string, id uint32) {
						x.Go(lc.r.dom.Name, func() {
							sb.AcceptAndServe(id, func(o []grpc.ServerOption) *grpc.Server {
								s := grpc.NewServer(o...)
								grpctest.RegisterPingPongServer(s, &ppServer{tag: fmt.Sprint(id)})
								return s
							})
						})
						run(name, true, func() error {
							cc, err := cb.Dial(id)
							if err != nil {
								return err
							}
							defer cc.Close()
							x.OnCleanup(func() { cc.Close() })
							ctx, cancel := context.WithTimeout(context.Background(), 8*time.Second)
							defer cancel()
							_, err = pingTag(ctx, cc)
							return err
						})
					}
					h2p("broker-dial", 31)
					again = func() { h2p("broker-dial2", 33) }
					// plugin -> host: the host accepts (tracked: it must return, with an error once the
					// plugin is gone, because announcing the listener needs the broker stream), the plugin dials
					// (with multiplexing Accept only registers a local listener: it does not need the plugin)
					run("broker-accept", p["proto"] == "grpc", func() error {
						ln, err := cb.Accept(32)
						if err != nil {
							return err
						}
						sv := grpc.NewServer()
						grpctest.RegisterPingPongServer(sv, &ppServer{tag: "32"})
						x.Go("host", func() { sv.Serve(ln) })
						x.OnCleanup(func() { sv.Stop(); ln.Close() })
						return nil
					})
					x.Go(lc.r.dom.Name, func() {
						cc, err := sb.Dial(32)
						if err == nil {
							ctx, cancel := context.WithTimeout(context.Background(), 8*time.Second)
							pingTag(ctx, cc)
							cancel()
							cc.Close()
						}
					})
				}
				_ = rpc.DefaultRPCPath
			}
			run("Ping", true, func() error { return cp.Ping() })
			if again != nil {
				// a second brokered exchange: a failed operation must not wedge the next one
				again()
			}
			run("Kill", false, func() error { lc.cl.Kill(); return nil })
			x.Put("completed", true)
		},
		Check: func(x *vs.Exec, p explore.Params) {
			lc, _ := x.Data["lc"].(*liveClient)
			desc := fmt.Sprintf("proto=%s faults=%v", p["proto"], x.Faulted)
			if lc == nil {
				x.Fail("L", "setup never finished [%s]", desc)
				return
			}
			close(lc.block)
			ops := *(x.Data["ops"].(*[]*opRec))
			crashSeq, crashed := x.Data["crashSeq"].(int64)
			crashAt, _ := x.Data["crashAt"].(time.Duration)
			x.Put("nontrivial", crashed)
			if x.Data["completed"] != true {
				x.Fail("L", "host session never finished (blocked: %v) [%s]", x.EndBlocked, desc)
			}
			for _, o := range ops {
				if !o.done {
					x.Fail("L", "%s never returned after the plugin died [%s]", o.name, desc)
					continue
				}
				if !crashed {
					if o.err != nil && x.TimeDevs == 0 && o.name != "slowcall" { // the held call legitimately ends with Kill
						x.Fail("T", "%s failed although the plugin never died: %v [%s]", o.name, o.err, desc)
					}
					continue
				}
				if o.startSeq > crashSeq && o.needPlugin && o.err == nil {
					x.Fail("S", "%s was issued after the plugin died and reported success [%s]", o.name, desc)
				}
				if x.TimeDevs == 0 && o.end > crashAt {
					from := o.start
					if crashAt > from {
						from = crashAt
					}
					bound := 6 * time.Second
					if o.name == "broker-dial" || o.name == "broker-dial2" || o.name == "broker-accept" {
						bound = 14 * time.Second // 5 s broker wait + the exchange's own deadline
					}
					if p["death"] == "silent" {
						bound += 45 * time.Second // nothing tells the host but its own liveness probe (yamux: every 30 s, 10 s to answer)
					}
					if o.end-from > bound {
						x.Fail("T", "%s returned %v after the plugin died (bound %v) [%s]", o.name, o.end-from, bound, desc)
					}
				}
			}
			if x.Data["completed"] == true && lc.r.startCount() > 0 {
				if !lc.cl.Exited() {
					x.Fail("L", "Client.Exited() is false at the end of the session [%s]", desc)
				}
				if lc.gp != nil && lc.gp.ctx != nil {
					select {
					case <-lc.gp.ctx.Done():
					default:
						x.Fail("L", "the context handed to GRPCPlugin.GRPCClient was not cancelled [%s]", desc)
					}
				}
			}
			x.Data["d"].(*done).checkAll(x)
			for _, e := range x.EndBlocked {
				x.Fail("L", "blocked forever: %s [%s]", e, desc)
			}
		},
		Conform: func() []explore.Params {
			return []explore.Params{{"proto": "netrpc"}, {"proto": "grpc"}, {"proto": "grpcmux"}}
		},
		Instances: func(tier string) []explore.Params {
			if tier == "silent" {
				// a death the kernel does not announce on the connections (descriptors inherited by a surviving child):
				// net/rpc only — there the connection's own keep-alive bounds every call
				return []explore.Params{{"proto": "netrpc", "death": "silent"}}
			}
			return []explore.Params{{"proto": "netrpc"}, {"proto": "grpc"}, {"proto": "grpcmux"}}
		},
	})
}
