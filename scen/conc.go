package scen

import (
	"context"
	"fmt"
	"io"
	"net/rpc"
	"sort"
	"strings"
	"sync"
	"time"

	plugin "github.com/hashicorp/go-plugin"
	grpctest "github.com/hashicorp/go-plugin/test/grpc"
	"google.golang.org/grpc"

	"verif/engine/explore"
	"verif/engine/vs"
)

// conc_ops — C20 (panics, double close, duplicate ids, hangs under concurrent use). params: mix.
func init() {
	explore.Register(&explore.Scenario{
		Name:    "conc_ops",
		Horizon: 90 * time.Second,
		Settle:  4 * time.Second,
		Body: func(x *vs.Exec, p explore.Params) {
			mix := p["mix"]
			d := newDone(x)
			x.Put("d", d)
			var mu sync.Mutex
			ids := map[string][]uint32{}
			note := func(k string, v uint32) { mu.Lock(); ids[k] = append(ids[k], v); mu.Unlock() }
			x.Put("ids", ids)
			safe := func(name string, f func()) func() {
				return func() {
					defer func() {
						if rec := recover(); rec != nil {
							x.Fail("PANIC", "%s panicked: %v", name, rec)
						}
					}()
					f()
				}
			}
			switch {
			case mix == "nextid-mux":
				x.Hold()
				m := newMuxPair(x)
				x.OnCleanup(func() { m.hs.Close(); m.ps.Close() })
				x.Release()
				for g := 0; g < 3; g++ {
					d.goIn("host", fmt.Sprintf("h%d", g), func() { note("host", m.hb.NextId()); note("host", m.hb.NextId()) })
				}
				for g := 0; g < 2; g++ {
					d.goIn("plugin", fmt.Sprintf("p%d", g), func() { note("plugin", m.pb.NextId()); note("plugin", m.pb.NextId()) })
				}
			case mix == "nextid-grpc":
				x.Hold()
				pr, err := newGRPCPair(x, grpcPairOpts{})
				if err != nil {
					x.Fail("ENGINE", "setup: %v", err)
					return
				}
				x.Release()
				for g := 0; g < 3; g++ {
					d.goIn("host", fmt.Sprintf("h%d", g), func() { note("host", pr.hb.NextId()); note("host", pr.hb.NextId()) })
				}
				for g := 0; g < 2; g++ {
					d.goIn("plugin", fmt.Sprintf("p%d", g), func() { note("plugin", pr.pb.NextId()); note("plugin", pr.pb.NextId()) })
				}
			default:
				kind, proto, _ := strings.Cut(mix, ":")
				x.Hold()
				lc := newLive(x, liveOpts{proto: proto})
				x.Put("lc", lc)
				n := 0
				if lc.rp != nil {
					lc.rp.mk = func() *tagRPCServer { n++; return &tagRPCServer{tag: fmt.Sprintf("obj%d", n)} }
				}
				cp, err := lc.cl.Client()
				if err != nil {
					x.Fail("ENGINE", "connect: %v", err)
					return
				}
				var first interface{}
				if kind != "dispense3" {
					if first, err = cp.Dispense("p"); err != nil {
						x.Fail("ENGINE", "dispense: %v", err)
						return
					}
				}
				x.Release()
				tags := map[string]int{}
				x.Put("tags", tags)
				dispense := func(name string) func() {
					return safe(name, func() {
						o, err := cp.Dispense("p")
						if err != nil {
							x.Obs("%s err", name)
							return
						}
						if proto == "netrpc" {
							var tag string
							if err := o.(*rpc.Client).Call("Plugin.Tag", 0, &tag); err == nil {
								mu.Lock()
								tags[tag]++
								mu.Unlock()
							}
						} else {
							ctx, cancel := context.WithTimeout(context.Background(), 20*time.Second)
							pingTag(ctx, o.(*grpc.ClientConn))
							cancel()
						}
					})
				}
				kill := safe("Kill", func() { lc.cl.Kill() })
				switch kind {
				case "dispense3":
					for g := 0; g < 3; g++ {
						d.goIn("host", fmt.Sprintf("dispense%d", g), dispense(fmt.Sprintf("dispense%d", g)))
					}
				case "route-dispense":
					// C06: Accept/Dial for two ids, one in each direction, concurrent with Dispense traffic on
					// the same connection; each dialled connection must deliver the token of its own id
					sb, cb := lc.rp.sb, lc.rp.cb
					tok := func(acc, dial *plugin.MuxBroker, adom, ddom string, id uint32) {
						x.Go(adom, safe(fmt.Sprintf("accept%d", id), func() {
							if c, err := acc.Accept(id); err == nil {
								c.Write([]byte{byte(id)})
								c.Close()
							} else if x.TimeDevs == 0 {
								x.Fail("T", "Accept(%d): %v [mix=%s]", id, err, mix)
							}
						}))
						d.goIn("host", fmt.Sprintf("route%d", id), safe(fmt.Sprintf("dial%d", id), func() {
							ch := make(chan struct{})
							x.Go(ddom, func() {
								defer close(ch)
								c, err := dial.Dial(id)
								if err != nil {
									if x.TimeDevs == 0 {
										x.Fail("T", "Dial(%d): %v [mix=%s]", id, err, mix)
									}
									return
								}
								defer c.Close()
								c.SetReadDeadline(time.Now().Add(10 * time.Second))
								var b [1]byte
								if _, err := io.ReadFull(c, b[:]); err != nil {
									if x.TimeDevs == 0 {
										x.Fail("T", "read on the connection dialled for id %d: %v [mix=%s]", id, err, mix)
									}
								} else if uint32(b[0]) != id {
									x.Fail("S", "misrouted: connection dialled for id %d delivered the token of id %d [mix=%s]", id, b[0], mix)
								}
							})
							<-ch
						}))
					}
					tok(sb, cb, lc.r.dom.Name, "host", 41)
					tok(cb, sb, "host", lc.r.dom.Name, 42)
					d.goIn("host", "dispense0", dispense("dispense0"))
					d.goIn("host", "dispense1", dispense("dispense1"))
				case "dispense-fail":
					// C06: a Dispense whose Plugin.Server() fails, overlapping two that succeed: the failing one must
					// not disturb the ids of the others (each dispensed client reaches its own server object)
					d.goIn("host", "dispense-bad", safe("dispense-bad", func() {
						if _, err := cp.Dispense("bad"); err == nil {
							x.Fail("S", "Dispense of a plugin whose Server() fails succeeded [mix=%s]", mix)
						}
					}))
					d.goIn("host", "dispense0", dispense("dispense0"))
					d.goIn("host", "dispense1", dispense("dispense1"))
				case "dispense-kill":
					d.goIn("host", "dispense0", dispense("dispense0"))
					d.goIn("host", "dispense1", dispense("dispense1"))
					d.goIn("host", "Kill", kill)
				case "call-kill":
					d.goIn("host", "call0", safe("call0", func() { lc.call(first, false) }))
					d.goIn("host", "call1", safe("call1", func() { lc.call(first, false) }))
					d.goIn("host", "Kill", kill)
				case "broker-kill":
					if proto == "netrpc" {
						sb, cb := lc.rp.sb, lc.rp.cb
						x.Go(lc.r.dom.Name, safe("accept", func() { // plugin side: dies with the process
							if c, err := sb.Accept(41); err == nil {
								c.Close()
							}
						}))
						d.goIn("host", "dial", safe("dial", func() {
							if c, err := cb.Dial(41); err == nil {
								c.Close()
							}
						}))
					} else {
						sb, cb := lc.gp.sb, lc.gp.cb
						x.Go(lc.r.dom.Name, safe("acceptserve", func() {
							sb.AcceptAndServe(41, func(o []grpc.ServerOption) *grpc.Server {
								s := grpc.NewServer(o...)
								grpctest.RegisterPingPongServer(s, &ppServer{tag: "41"})
								return s
							})
						}))
						d.goIn("host", "dial", safe("dial", func() {
							cc, err := cb.Dial(41)
							if err == nil {
								x.OnCleanup(func() { cc.Close() })
								ctx, cancel := context.WithTimeout(context.Background(), 8*time.Second)
								pingTag(ctx, cc)
								cancel()
								cc.Close()
							}
						}))
					}
					d.goIn("host", "Kill", kill)
				case "accessors-kill":
					d.goIn("host", "accessors", safe("accessors", func() {
						lc.cl.Exited()
						lc.cl.ID()
						lc.cl.ReattachConfig()
						lc.cl.Protocol()
						lc.cl.NegotiatedVersion()
						lc.cl.Exited()
					}))
					d.goIn("host", "Kill", kill)
					d.goIn("host", "Kill2", safe("Kill2", func() { lc.cl.Kill() }))
				}
			}
		},
		Check: func(x *vs.Exec, p explore.Params) {
			desc := "mix=" + p["mix"]
			d, _ := x.Data["d"].(*done)
			if d == nil {
				if len(x.Violations()) == 0 {
					x.Fail("L", "setup never finished: %v [%s]", x.EndBlocked, desc)
				}
				return
			}
			if lc, ok := x.Data["lc"].(*liveClient); ok {
				close(lc.block)
			}
			for _, n := range d.names {
				if x.Data["done:"+n] != true {
					x.Fail("L", "%s never returned [%s]", n, desc)
				}
			}
			if ids, ok := x.Data["ids"].(map[string][]uint32); ok {
				for side, l := range ids {
					sort.Slice(l, func(i, j int) bool { return l[i] < l[j] })
					for i := 1; i < len(l); i++ {
						if l[i] == l[i-1] {
							x.Fail("S", "NextId returned %d twice on the %s broker [%s]", l[i], side, desc)
						}
					}
				}
			}
			if tags, ok := x.Data["tags"].(map[string]int); ok {
				for t, n := range tags {
					if n > 1 {
						x.Fail("S", "%d dispensed clients reached the same server object %q [%s]", n, t, desc)
					}
				}
			}
			for _, e := range x.EndBlocked {
				x.Fail("L", "blocked forever: %s [%s]", e, desc)
			}
			if lc, ok := x.Data["lc"].(*liveClient); ok {
				x.GoFree(func() { lc.cl.Kill() })
				x.Quiesce(6 * time.Second)
			}
		},
		Conform: func() []explore.Params {
			return []explore.Params{{"mix": "nextid-mux"}, {"mix": "nextid-grpc"}, {"mix": "dispense3:netrpc"}, {"mix": "call-kill:grpc"}}
		},
		Instances: func(tier string) []explore.Params {
			if tier == "c06" { // C06: every net/rpc Dispense reaches the server object created for it
				return []explore.Params{{"mix": "dispense3:netrpc"}, {"mix": "nextid-mux"}, {"mix": "route-dispense:netrpc"}, {"mix": "dispense-fail:netrpc"}}
			}
			if tier == "fine" { // the same mixes with a scheduling point at every function entry of go-plugin
				out := []explore.Params{{"mix": "nextid-mux", "fine": "1"}, {"mix": "nextid-grpc", "fine": "1"}}
				for _, proto := range []string{"netrpc", "grpc", "grpcmux"} {
					for _, k := range []string{"dispense3", "dispense-kill", "call-kill", "broker-kill", "accessors-kill"} {
						out = append(out, explore.Params{"mix": k + ":" + proto, "fine": "1"})
					}
				}
				return out
			}
			out := []explore.Params{{"mix": "nextid-mux"}, {"mix": "nextid-grpc"}}
			for _, proto := range []string{"netrpc", "grpc", "grpcmux"} {
				for _, k := range []string{"dispense3", "dispense-kill", "call-kill", "broker-kill", "accessors-kill"} {
					out = append(out, explore.Params{"mix": k + ":" + proto})
				}
			}
			return out
		},
	})
}

var _ = plugin.ProtocolGRPC
