package scen

import (
	"context"
	"fmt"
	"io"
	"net"
	"strings"
	"sync/atomic"
	"time"

	plugin "github.com/hashicorp/go-plugin"
	grpctest "github.com/hashicorp/go-plugin/test/grpc"
	"google.golang.org/grpc"

	"verif/engine/explore"
	"verif/engine/vs"
)

// brokerOps abstracts the three broker kinds for history scenarios.
type brokerOps struct {
	raw    func(side byte, n int) error // mux only: a peer that opens a stream, writes n bytes of the id 7 and closes it
	kind   string
	dial   func(side byte, id uint32) error // dial (+ first RPC for gRPC kinds); closes what it opened
	accept func(side byte, id uint32) error // accept (+ serve one exchange)
	close  func()
	bound  time.Duration // documented bound for an unmatched call
	// gRPC kinds: an acceptor that announces its listener and gives up at once (listener closed, socket removed), and a
	// dial made with the caller's own option grpc.WithBlock()
	acceptGiveUp func(side byte, id uint32) error
	dialBlock    func(side byte, id uint32) error
}

func newBrokerOps(x *vs.Exec, kind string) (*brokerOps, error) {
	switch kind {
	case "mux":
		m := newMuxPair(x)
		x.OnCleanup(func() { m.hs.Close(); m.ps.Close() })
		return &brokerOps{kind: kind, bound: 6 * time.Second,
			dial: func(s byte, id uint32) error {
				b, _ := m.side(s)
				c, err := b.Dial(id)
				if err != nil {
					return err
				}
				defer c.Close()
				if _, err := c.Write([]byte{byte(id)}); err != nil {
					return err
				}
				var r [1]byte
				c.SetReadDeadline(time.Now().Add(10 * time.Second))
				if _, err := io.ReadFull(c, r[:]); err != nil {
					return err
				}
				if r[0] != byte(id) {
					return fmt.Errorf("MISROUTE: echo %d on id %d", r[0], id)
				}
				return nil
			},
			accept: func(s byte, id uint32) error {
				b, _ := m.side(s)
				c, err := b.Accept(id)
				if err != nil {
					return err
				}
				defer c.Close()
				var r [1]byte
				c.SetReadDeadline(time.Now().Add(10 * time.Second))
				if _, err := io.ReadFull(c, r[:]); err != nil {
					return err
				}
				if r[0] != byte(id) {
					return fmt.Errorf("MISROUTE: token %d on id %d", r[0], id)
				}
				_, err = c.Write(r[:])
				return err
			},
			close: func() { m.hs.Close(); m.ps.Close() },
			raw: func(s byte, n int) error {
				sess := m.hs
				if s == 'p' {
					sess = m.ps
				}
				st, err := sess.OpenStream()
				if err != nil {
					return err
				}
				if n > 0 {
					st.Write([]byte{7, 0, 0, 0}[:n])
				}
				return st.Close()
			},
		}, nil
	case "grpc", "grpcmux":
		pr, err := newGRPCPair(x, grpcPairOpts{mux: kind == "grpcmux"})
		if err != nil {
			return nil, err
		}
		return &brokerOps{kind: kind, bound: 14 * time.Second,
			dial: func(s byte, id uint32) error {
				b, _ := pr.side(s)
				cc, err := b.Dial(id)
				if err != nil {
					return err
				}
				x.OnCleanup(func() { cc.Close() })
				defer cc.Close()
				ctx, cancel := context.WithTimeout(context.Background(), 8*time.Second)
				defer cancel()
				tag, err := pingTag(ctx, cc)
				if err != nil {
					return err
				}
				if tag != fmt.Sprintf("id=%d", id) {
					return fmt.Errorf("MISROUTE: id %d answered by %q", id, tag)
				}
				return nil
			},
			accept: func(s byte, id uint32) error {
				b, _ := pr.side(s)
				// blocks until the broker is closed; its end is checked by the leak oracle
				b.AcceptAndServe(id, func(opts []grpc.ServerOption) *grpc.Server {
					sv := grpc.NewServer(opts...)
					grpctest.RegisterPingPongServer(sv, &ppServer{tag: fmt.Sprintf("id=%d", id)})
					return sv
				})
				return nil
			},
			close: func() { pr.gc.Close(); pr.srv.Stop() },
			acceptGiveUp: func(s byte, id uint32) error {
				b, _ := pr.side(s)
				ln, err := b.Accept(id)
				if err != nil {
					return err
				}
				return ln.Close()
			},
			dialBlock: func(s byte, id uint32) error {
				b, _ := pr.side(s)
				cc, err := b.DialWithOptions(id, grpc.WithBlock())
				if err != nil {
					return err
				}
				x.OnCleanup(func() { cc.Close() })
				return cc.Close()
			},
		}, nil
	}
	return nil, fmt.Errorf("unknown broker kind %q", kind)
}

// broker_hist — C09: histories of unmatched / duplicate / late peers, then a
// fresh matched pair, then close. params: kind=mux|grpc|grpcmux, hist=comma
// separated events: D<side><id> dial, A<side><id> accept, +<ms> pause before
// the next event.
func init() {
	explore.Register(&explore.Scenario{
		Name:    "broker_hist",
		Horizon: 60 * time.Second,
		Body: func(x *vs.Exec, p explore.Params) {
			x.Hold()
			ops, err := newBrokerOps(x, p["kind"])
			if err != nil {
				x.Fail("ENGINE", "setup: %v", err)
				return
			}
			x.Release()
			{ // closing is idempotent for the harness (a history may close, the check closes again)
				var started atomic.Bool // (not sync.Once: a second caller must not wait on a real mutex inside the bubble)
				cl := ops.close
				ops.close = func() {
					if started.CompareAndSwap(false, true) {
						cl()
					}
				}
			}
			x.Put("ops", ops)
			d := newDone(x)
			x.Put("d", d)
			closed := false
			dom := func(s byte) string {
				if s == 'h' {
					return "host"
				}
				return "plugin"
			}
			issue := func(name string, ev string, must bool) {
				side, id := ev[1], uint32(atoi(ev[2:]))
				op := ops.dial
				if ev[0] == 'A' {
					op = ops.accept
				}
				if ev[0] == 'G' && ops.acceptGiveUp != nil { // G<side><id>: accept announced, then given up at once
					op = ops.acceptGiveUp
				}
				if ev[0] == 'B' && ops.dialBlock != nil { // B<side><id>: a dial with the caller's own grpc.WithBlock()
					op = ops.dialBlock
				}
				if ev[0] == 'X' { // peer closes mid-negotiation: X<side><bytes of the id written before closing>
					nb := atoi(ev[2:])
					op = func(byte, uint32) error { return ops.raw(side, nb) }
				}
				blocking := !(ev[0] == 'A' && ops.kind != "mux") // gRPC AcceptAndServe serves until close (G and B return by themselves)
				if closed {
					blocking = true // ... and a call issued after or while the connection is closed must return by itself
				}
				run := func() {
					t0 := x.Now()
					err := op(side, id)
					dt := x.Now() - t0
					x.Obs("%s err=%v", name, err != nil)
					x.Put("ret:"+name, dt)
					if err == nil {
						x.Put("ok:"+name, true)
					}
					if err != nil && strings.HasPrefix(err.Error(), "MISROUTE") {
						x.Fail("S", "%s: %v", name, err)
					}
					if must && err != nil {
						x.Put("musterr:"+name, fmt.Sprintf("%v (after %v)", err, dt))
					}
				}
				if blocking {
					d.goIn(dom(side), name, run)
				} else {
					x.Go(dom(side), run)
				}
			}
			n := 0
			for _, ev := range strings.Split(p["hist"], ",") {
				if ev == "" {
					continue
				}
				if ev[0] == '+' {
					x.Pause(ms(ev[1:]))
					continue
				}
				if ev[0] == 'Z' { // the client closes the connection: "Z" racing with what follows, "Zw" completed before it
					closed = true
					if ev == "Zw" {
						fin := make(chan struct{})
						x.Go("host", func() { defer close(fin); ops.close() })
						<-fin
					} else {
						x.Go("host", ops.close)
					}
					continue
				}
				n++
				if cnt, e, ok := strings.Cut(ev, "*"); ok { // "<count>*<event>": the event repeated, one after the other, by one goroutine
					k := atoi(cnt)
					side, id := e[1], uint32(atoi(e[2:]))
					op := ops.dial
					if e[0] == 'A' {
						op = ops.accept
					}
					d.goIn(dom(side), fmt.Sprintf("e%d:%s", n, ev), func() {
						fails := 0
						for i := 0; i < k; i++ {
							if err := op(side, id); err != nil {
								fails++
								if strings.HasPrefix(err.Error(), "MISROUTE") {
									x.Fail("S", "e%d:%s: %v", n, ev, err)
								}
							}
						}
						x.Obs("e%d:%s fails=%d", n, ev, fails)
					})
					continue
				}
				if ev[0] == 'G' && ops.acceptGiveUp != nil {
					// completed before the history goes on: "announced and given up" is the state the next event meets (the other
					// order is the caller's own blocking dial racing with the announcement, see Instances)
					side, id := ev[1], uint32(atoi(ev[2:]))
					fin := make(chan struct{})
					x.Go(dom(side), func() {
						defer close(fin)
						if err := ops.acceptGiveUp(side, id); err != nil {
							x.Put("musterr:e"+fmt.Sprint(n)+":"+ev, err.Error())
						}
					})
					<-fin
					continue
				}
				if strings.HasSuffix(ev, "!") { // "<event>!": this call belongs to a matched pair inside the window and must succeed
					issue(fmt.Sprintf("e%d:%s", n, ev), strings.TrimSuffix(ev, "!"), true)
					continue
				}
				issue(fmt.Sprintf("e%d:%s", n, ev), ev, false)
			}
			// let the history play out, then the fresh matched pair
			x.Pause(12 * time.Second)
			if closed {
				return // nothing can be matched any more; every call of the history must have returned (checked below)
			}
			// two fresh ids at once: an accept nobody dials (it must time out, with nothing delivered to it) ...
			if ops.kind == "mux" {
				issue("fresh:Ap91", "Ap91", false)
				// ... and, after a mass history, a dial nobody accepts (it stays pending while the matched pair below is established)
				if strings.Contains(p["hist"], "*") {
					issue("fresh:Dh92", "Dh92", false)
				}
			}
			// ... and the matched pair
			issue("fresh:Ap90", "Ap90", true)
			issue("fresh:Dh90", "Dh90", true)
		},
		Check: func(x *vs.Exec, p explore.Params) {
			d, _ := x.Data["d"].(*done)
			ops, _ := x.Data["ops"].(*brokerOps)
			if d == nil || ops == nil {
				if len(x.Violations()) == 0 {
					x.Fail("L", "setup never finished: %v", x.EndBlocked)
				}
				return
			}
			if strings.Contains(p["hist"], "Z") && x.TimeDevs > 0 {
				// a close racing with other calls, in an execution where a goroutine was held back for 5 virtual seconds at
				// a select: go-plugin's own give-up timers (GRPCServerMuxer.session() inside Close) then legitimately win
				// and the shutdown is abandoned half-way, so nothing that waits for it ends; like every liveness verdict
				// these need an execution without a timer deviation (DESIGN 2.6)
				x.GoFree(ops.close)
				x.Quiesce(12 * time.Second)
				return
			}
			for _, n := range d.names {
				if x.Data["done:"+n] != true {
					x.Fail("L", "call %s never returned", n)
				} else if dt, ok := x.Data["ret:"+n].(time.Duration); ok && x.TimeDevs == 0 && dt > ops.bound {
					x.Fail("T", "call %s returned after %v (bound %v)", n, dt, ops.bound)
				}
				if n == "fresh:Ap91" && x.Data["ok:"+n] == true {
					x.Fail("S", "Accept(91), which nobody dialled, returned a connection")
				}
				if e, ok := x.Data["musterr:"+n]; ok && x.TimeDevs == 0 {
					x.Fail("L", "matched pair on a fresh id failed after the history: %s: %v", n, e)
				}
			}
			for _, e := range x.EndBlocked {
				x.Fail("L", "blocked forever: %s", e)
			}
			x.GoFree(ops.close)
			x.Quiesce(12 * time.Second)
			checkNoLeak(x, "hashicorp/go-plugin.")
		},
		Conform: func() []explore.Params {
			return []explore.Params{{"kind": "mux", "hist": "Dh7"}, {"kind": "grpc", "hist": "Ap7"}, {"kind": "mux", "hist": "Dh7,Dh7"}}
		},
		ConformWait: 60 * time.Second,
		Instances: func(tier string) []explore.Params {
			var out []explore.Params
			if tier == "blockdial" {
				// the acceptor announced its listener and gave up at once; the dialler then dials with grpc.WithBlock() among its own
				// options: the dial returns (with an error) in bounded time, and the broker still serves a fresh pair
				// (the other order is not asked: a blocking dial whose first attempt reaches the listener just before it is closed
				// gets a temporary error first, and gRPC's WithBlock then waits for a state change that never comes — the caller's
				// own choice of "block until connected" without a deadline, not the broker's doing)
				for _, h := range []string{"Gp7,+500,Bh7", "Gh7,+500,Bp7", "Gp7,+500,Bh7,+500,Dh7", "Gh7,+500,Bp7,+500,Bp7"} {
					out = append(out, explore.Params{"kind": "grpc", "hist": h})
				}
				return out
			}
			evs := []string{"Dh7", "Dp7", "Ah7", "Ap7"}
			gaps := []string{"", "+5000,", "+2000,"}
			for _, kind := range []string{"mux", "grpc"} {

				for _, a := range evs {
					out = append(out, explore.Params{"kind": kind, "hist": a})
				}
				for _, a := range evs {
					for _, b := range evs {
						for gi, g := range gaps {
							if tier == "quick" && gi == 2 {
								continue
							}
							out = append(out, explore.Params{"kind": kind, "hist": a + "," + g + b})
						}
					}
				}
				if kind == "mux" {
					// an aborted dial (the peer wrote 1 or 2 bytes of the id and hung up), then a matched pair on the id whose
					// low bytes those were: the pair is served, the aborted stream is nobody's connection
					for _, xe := range []string{"Xh2", "Xh1", "Xp2"} {
						acc, dial := "Ap7!", "Dh7!"
						if xe[1] == 'p' {
							acc, dial = "Ah7!", "Dp7!"
						}
						out = append(out, explore.Params{"kind": kind, "hist": xe + "," + acc + "," + dial}, explore.Params{"kind": kind, "hist": xe + "," + dial + "," + acc})
					}
					// a peer that opens a stream and closes it after 0, 2 or all 4 bytes of the id
					for _, xe := range []string{"Xh0", "Xh2", "Xp2", "Xh4"} {
						out = append(out, explore.Params{"kind": kind, "hist": xe})
						for _, b := range evs {
							out = append(out, explore.Params{"kind": kind, "hist": xe + "," + b}, explore.Params{"kind": kind, "hist": b + "," + xe})
						}
					}
				}
				// an accept waiting while the same id is dialled twice (the duplicate arrives after the match)
				for _, pair := range [][2]string{{"Ap7", "Dh7"}, {"Ah7", "Dp7"}} {
					for _, g := range []string{"", "+5000,", "+2000,"} {
						out = append(out, explore.Params{"kind": kind, "hist": pair[0] + "," + g + pair[1] + "," + pair[1]})
					}
				}
				if tier == "thorough3" {
					for _, a := range evs {
						for _, b := range evs {
							for _, c := range evs {
								out = append(out, explore.Params{"kind": kind, "hist": a + "," + b + ",+5000," + c})
								out = append(out, explore.Params{"kind": kind, "hist": a + ",+5000," + b + "," + c})
							}
						}
					}
				}
			}
			// very many repeated dials to one pending id (far beyond any per-connection limit one might think of), then the
			// usual fresh pair next to an unmatched accept and an unmatched dial
			if tier == "mass" {
				return []explore.Params{{"kind": "mux", "hist": "Dh7,1300*Dh7"}, {"kind": "mux", "hist": "Dp7,1300*Dp7"}}
			}
			// accepts and dials issued after, or racing with, the close of the connection: each returns by itself
			for _, kind := range []string{"mux", "grpc", "grpcmux"} {
				for _, z := range []string{"Z", "Zw"} {
					for _, a := range evs {
						out = append(out, explore.Params{"kind": kind, "hist": z + "," + a})
						if kind != "grpcmux" {
							out = append(out, explore.Params{"kind": kind, "hist": z + "," + a + "," + a}, explore.Params{"kind": kind, "hist": "Ap7," + z + "," + a})
						}
					}
					if kind != "grpcmux" {
						out = append(out, explore.Params{"kind": kind, "hist": z + ",Ah7,Ap7,Dh8,Dp8"}, explore.Params{"kind": kind, "hist": z + ",Ah7,Ah8,Ah9,Ap7,Ap8,Ap9"})
					}
				}
			}
			// multiplexed gRPC broker: establishments must be sequential, so only
			// single unmatched events (knock without listener / listener without knock)
			for _, a := range evs {
				out = append(out, explore.Params{"kind": "grpcmux", "hist": a})
			}
			return out
		},
	})
}

var _ net.Conn
var _ = plugin.ProtocolGRPC
