module verif

go 1.26

require (
	github.com/hashicorp/go-hclog v0.14.1
	github.com/hashicorp/go-plugin v0.0.0
	github.com/hashicorp/yamux v0.1.1
	google.golang.org/grpc v1.58.3
	google.golang.org/protobuf v1.36.1
)

require (
	github.com/fatih/color v1.7.0 // indirect
	github.com/golang/protobuf v1.5.3 // indirect
	github.com/mattn/go-colorable v0.1.4 // indirect
	github.com/mattn/go-isatty v0.0.17 // indirect
	github.com/oklog/run v1.0.0 // indirect
	golang.org/x/net v0.37.0 // indirect
	golang.org/x/sys v0.31.0 // indirect
	golang.org/x/text v0.23.0 // indirect
	google.golang.org/genproto/googleapis/rpc v0.0.0-20230711160842-782d3b101e98 // indirect
)

replace github.com/hashicorp/go-plugin => /repo
