// Package replays holds plain unit tests (no explorer, no overlay, real time)
// that replay each finding of the model checker against the real code.
package replays

import (
	"net/rpc"
	"testing"

	plugin "github.com/hashicorp/go-plugin"
)

// brokerGrab is a net/rpc plugin whose only purpose is to hand both MuxBrokers to the test.
type brokerGrab struct {
	srv chan *plugin.MuxBroker
	cli chan *plugin.MuxBroker
}

type nopRPC struct{}

func (nopRPC) Nop(_ int, r *int) error { *r = 1; return nil }

func (g *brokerGrab) Server(b *plugin.MuxBroker) (interface{}, error) {
	g.srv <- b
	return &nopRPC{}, nil
}
func (g *brokerGrab) Client(b *plugin.MuxBroker, c *rpc.Client) (interface{}, error) {
	g.cli <- b
	return c, nil
}

func muxBrokers(t *testing.T) (host, plug *plugin.MuxBroker, c *plugin.RPCClient) {
	g := &brokerGrab{srv: make(chan *plugin.MuxBroker, 1), cli: make(chan *plugin.MuxBroker, 1)}
	client, _ := plugin.TestPluginRPCConn(t, map[string]plugin.Plugin{"g": g}, nil)
	if _, err := client.Dispense("g"); err != nil {
		t.Fatal(err)
	}
	return <-g.cli, <-g.srv, client
}
