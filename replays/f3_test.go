package replays

import (
	"testing"
	"time"
)

// F3 (C09): history D(h,77) D(h,77), 5 s pass, then a matched pair on a fresh
// id. On the defective tree MuxBroker.timeoutWait of the second (dropped)
// stream receives from the empty slot channel while holding the broker lock,
// and every later Accept/Run on that broker hangs.
func TestF3_TwoUnacceptedDialsWedgeBroker(t *testing.T) {
	host, plug, c := muxBrokers(t)
	defer c.Close()
	for i := 0; i < 2; i++ {
		go host.Dial(77) // nobody accepts; each blocks for its ack
	}
	time.Sleep(5500 * time.Millisecond)
	done := make(chan error, 2)
	go func() {
		conn, err := plug.Accept(78)
		if err == nil {
			conn.Close()
		}
		done <- err
	}()
	go func() {
		conn, err := host.Dial(78)
		if err == nil {
			conn.Close()
		}
		done <- err
	}()
	for i := 0; i < 2; i++ {
		select {
		case err := <-done:
			if err != nil {
				t.Fatalf("fresh pair failed: %v", err)
			}
		case <-time.After(15 * time.Second):
			t.Fatal("fresh Accept/Dial pair still blocked 15 s after two unaccepted dials expired: broker wedged")
		}
	}
}
