package replays

import (
	"testing"
	"time"
)

// Candidate found by C09 thorough (history A(p,7) +5s D(h,7) D(h,7)): an accept is
// waiting, two dials for the same id arrive together; the second dialler must get an
// error in bounded time.
func TestF13_SecondDialWhileAcceptWaiting(t *testing.T) {
	host, plug, c := muxBrokers(t)
	defer c.Close()
	go func() {
		if conn, err := plug.Accept(77); err == nil {
			defer conn.Close()
			time.Sleep(8 * time.Second)
		}
	}()
	time.Sleep(100 * time.Millisecond)
	errs := make(chan error, 2)
	for i := 0; i < 2; i++ {
		go func() {
			conn, err := host.Dial(77)
			if err == nil {
				defer conn.Close()
				time.Sleep(8 * time.Second)
			}
			errs <- err
		}()
	}
	ok, failed := 0, 0
	for i := 0; i < 2; i++ {
		select {
		case err := <-errs:
			if err == nil {
				ok++
			} else {
				failed++
			}
		case <-time.After(20 * time.Second):
			t.Fatalf("a Dial is still blocked after 20 s (ok=%d failed=%d)", ok, failed)
		}
	}
	t.Logf("ok=%d failed=%d", ok, failed)
}
