package replays

import (
	"os/exec"
	"strings"
	"testing"
	"time"

	plugin "github.com/hashicorp/go-plugin"
)

func lineClient(line string) *plugin.Client {
	return plugin.NewClient(&plugin.ClientConfig{
		HandshakeConfig: plugin.HandshakeConfig{MagicCookieKey: "K", MagicCookieValue: "v", ProtocolVersion: 1},
		Plugins:         map[string]plugin.Plugin{},
		Cmd:             exec.Command("sh", "-c", "echo '"+line+"'; exec sleep 20"),
		StartTimeout:    5 * time.Second,
	})
}

// F1 (C01): a handshake line with an unknown network (or an unresolvable
// address) makes Start return no error and no address, and the process is kept.
func TestF1_UnknownNetworkReturnsNilNil(t *testing.T) {
	for _, line := range []string{"1|1|udp|127.0.0.1:1234", "1|1|tcp|127.0.0.1:99999"} {
		c := lineClient(line)
		addr, err := c.Start()
		killed := c.Exited()
		c.Kill()
		if err == nil {
			t.Errorf("line %q: Start returned addr=%v err=nil (plugin still running: %v)", line, addr, !killed)
		}
	}
}

// F2 (C01): a certificate field (> 50 chars, valid DER) offered to a client
// without any TLS configuration dereferences nil inside Start.
func TestF2_CertFieldWithoutTLSConfigPanics(t *testing.T) {
	certPEM := realCert(t)
	c := lineClient("1|1|tcp|127.0.0.1:1234|netrpc|" + certPEM)
	defer c.Kill()
	defer func() {
		if r := recover(); r != nil {
			t.Fatalf("Start panicked: %v", r)
		}
	}()
	_, err := c.Start()
	if err == nil {
		// accepting is allowed by the property; panicking is not
		t.Log("Start accepted the certificate")
	} else if !strings.Contains(err.Error(), "cert") && !strings.Contains(err.Error(), "TLS") {
		t.Logf("Start failed with: %v", err)
	}
}
