package replays

import (
	"os"
	"os/exec"
	"strings"
	"testing"
	"time"

	plugin "github.com/hashicorp/go-plugin"
)

// F6 (C10): a stderr line that is a JSON object whose @message (or @level,
// @timestamp) is not a string makes the host's log goroutine panic on an
// unchecked type assertion; the panic kills the host process, so the client
// runs in a child process here.
func TestF6_NonStringHclogFieldPanicsHost(t *testing.T) {
	if os.Getenv("F6_HELPER") == "1" {
		c := plugin.NewClient(&plugin.ClientConfig{
			HandshakeConfig: plugin.HandshakeConfig{MagicCookieKey: "K", MagicCookieValue: "v", ProtocolVersion: 1},
			Plugins:         map[string]plugin.Plugin{},
			Cmd:             exec.Command("sh", "-c", `echo '1|1|tcp|127.0.0.1:1234'; echo '{"@message":1}' >&2; exec sleep 3`),
			StartTimeout:    5 * time.Second,
		})
		if _, err := c.Start(); err != nil {
			t.Fatal(err)
		}
		time.Sleep(time.Second)
		c.Kill()
		return
	}
	cmd := exec.Command(os.Args[0], "-test.run", "^TestF6_NonStringHclogFieldPanicsHost$")
	cmd.Env = append(os.Environ(), "F6_HELPER=1")
	out, err := cmd.CombinedOutput()
	if err != nil && strings.Contains(string(out), "panic:") {
		i := strings.Index(string(out), "panic:")
		t.Fatalf("host process crashed: %s", strings.SplitN(string(out)[i:], "\n", 2)[0])
	}
}

// F7 (C10): a stdout line longer than bufio.Scanner's 64 KiB token limit after
// the handshake stops the scanner for good; nobody reads stdout any more and the
// plugin blocks as soon as the pipe is full.
func TestF7_LongStdoutLineStallsPlugin(t *testing.T) {
	dir := t.TempDir()
	marker := dir + "/done"
	script := `import sys,time
sys.stdout.write("1|1|tcp|127.0.0.1:1234\n"); sys.stdout.flush()
sys.stdout.write("x"*300000+"\n"+"y"*300000+"\n"); sys.stdout.flush()
open(sys.argv[1],"w").close()
time.sleep(5)`
	c := plugin.NewClient(&plugin.ClientConfig{
		HandshakeConfig: plugin.HandshakeConfig{MagicCookieKey: "K", MagicCookieValue: "v", ProtocolVersion: 1},
		Plugins:         map[string]plugin.Plugin{},
		Cmd:             exec.Command("python3", "-c", script, marker),
		StartTimeout:    5 * time.Second,
	})
	defer c.Kill()
	if _, err := c.Start(); err != nil {
		t.Fatal(err)
	}
	for i := 0; i < 40; i++ {
		if _, err := os.Stat(marker); err == nil {
			return
		}
		time.Sleep(100 * time.Millisecond)
	}
	t.Fatal("plugin still blocked writing to stdout after 4 s: the host stopped draining it")
}
