package replays

import (
	"crypto/ecdsa"
	"crypto/elliptic"
	"crypto/rand"
	"crypto/x509"
	"crypto/x509/pkix"
	"encoding/base64"
	"math/big"
	"testing"
	"time"
)

// realCert returns a self-signed certificate as unpadded base64 DER (the form of the handshake line's sixth field).
func realCert(t *testing.T) string {
	key, err := ecdsa.GenerateKey(elliptic.P256(), rand.Reader)
	if err != nil {
		t.Fatal(err)
	}
	tmpl := &x509.Certificate{SerialNumber: big.NewInt(1), Subject: pkix.Name{CommonName: "localhost"},
		NotBefore: time.Now().Add(-time.Hour), NotAfter: time.Now().Add(time.Hour), IsCA: true, BasicConstraintsValid: true}
	der, err := x509.CreateCertificate(rand.Reader, tmpl, tmpl, &key.PublicKey, key)
	if err != nil {
		t.Fatal(err)
	}
	return base64.RawStdEncoding.EncodeToString(der)
}
