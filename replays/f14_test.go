package replays

import (
	"context"
	"io"
	"os/exec"
	"runtime"
	"strings"
	"testing"
	"time"

	hclog "github.com/hashicorp/go-hclog"
	plugin "github.com/hashicorp/go-plugin"
	"github.com/hashicorp/go-plugin/runner"
)

// F14, found by C19 (once_conc beh=badline, two deviations): Client.Start counts the
// stdout reader on pipesWaitGroup only after it has started the goroutine that Waits on
// that group. When stderr reaches EOF in between, the counter drops to zero (releasing
// the waiter) and is incremented again before the waiter has returned: sync.WaitGroup
// panics with "WaitGroup is reused before previous Wait has returned" in a goroutine
// nobody can recover, i.e. the host process dies. The explorer finds the schedule
// deterministically; against the real runtime only a stress loop can hit the window, with
// a runner whose stderr is empty from the start (a container runner without a stderr
// stream, say). Pre-fix this test kills the test binary within a few thousand rounds.
type emptyStderrRunner struct {
	outR *io.PipeReader
	outW *io.PipeWriter
	done chan struct{}
}

func (r *emptyStderrRunner) Start(context.Context) error {
	go func() { r.outW.Write([]byte("not-a-handshake\n")) }()
	return nil
}
func (r *emptyStderrRunner) Diagnose(context.Context) string { return "" }
func (r *emptyStderrRunner) Stdout() io.ReadCloser           { return r.outR }
func (r *emptyStderrRunner) Stderr() io.ReadCloser           { return io.NopCloser(strings.NewReader("")) }
func (r *emptyStderrRunner) Name() string                    { return "f14" }
func (r *emptyStderrRunner) Wait(context.Context) error      { <-r.done; return nil }
func (r *emptyStderrRunner) Kill(context.Context) error {
	select {
	case <-r.done:
	default:
		close(r.done)
		r.outW.Close()
	}
	return nil
}
func (r *emptyStderrRunner) ID() string                                       { return "f14" }
func (r *emptyStderrRunner) PluginToHost(n, a string) (string, string, error) { return n, a, nil }
func (r *emptyStderrRunner) HostToPlugin(n, a string) (string, string, error) { return n, a, nil }

func TestF14_StderrEOFBeforeStdoutCounted(t *testing.T) {
	stop := make(chan struct{})
	defer close(stop)
	for i := 0; i < runtime.GOMAXPROCS(0); i++ { // keep the scheduler busy so that wake-ups are delayed
		go func() {
			for {
				select {
				case <-stop:
					return
				default:
					runtime.Gosched()
				}
			}
		}()
	}
	deadline := time.Now().Add(20 * time.Second)
	n := 0
	for time.Now().Before(deadline) {
		n++
		c := plugin.NewClient(&plugin.ClientConfig{
			HandshakeConfig: plugin.HandshakeConfig{ProtocolVersion: 1, MagicCookieKey: "k", MagicCookieValue: "v"},
			Plugins:         map[string]plugin.Plugin{},
			Logger:          hclog.NewNullLogger(),
			StartTimeout:    2 * time.Second,
			RunnerFunc: func(_ hclog.Logger, _ *exec.Cmd, _ string) (runner.Runner, error) {
				pr, pw := io.Pipe()
				return &emptyStderrRunner{outR: pr, outW: pw, done: make(chan struct{})}, nil
			},
		})
		if _, err := c.Start(); err == nil {
			t.Fatal("Start succeeded on a bad handshake line")
		}
		c.Kill()
	}
	t.Logf("%d failed starts, no WaitGroup panic", n)
}

// F11 (C19, fixed by f9c8f26): histories Start,Start / Start,Client / Start,Kill,Start on a
// RunnerFunc plugin whose first start fails after launch must launch exactly once.
func TestF11_NoRelaunchAfterFailedStart(t *testing.T) {
	for _, hist := range [][]string{{"Start", "Start"}, {"Start", "Client", "Protocol"}, {"Start", "Kill", "Start"}, {"Client", "Kill", "Client"}} {
		launches := 0
		c := plugin.NewClient(&plugin.ClientConfig{
			HandshakeConfig: plugin.HandshakeConfig{ProtocolVersion: 1, MagicCookieKey: "k", MagicCookieValue: "v"},
			Plugins:         map[string]plugin.Plugin{},
			Logger:          hclog.NewNullLogger(),
			StartTimeout:    2 * time.Second,
			RunnerFunc: func(_ hclog.Logger, _ *exec.Cmd, _ string) (runner.Runner, error) {
				launches++
				pr, pw := io.Pipe()
				return &emptyStderrRunner{outR: pr, outW: pw, done: make(chan struct{})}, nil
			},
		})
		for _, op := range hist {
			switch op {
			case "Start":
				if _, err := c.Start(); err == nil {
					t.Errorf("%v: Start succeeded", hist)
				}
			case "Client":
				if _, err := c.Client(); err == nil {
					t.Errorf("%v: Client succeeded", hist)
				}
			case "Protocol":
				c.Protocol()
			case "Kill":
				c.Kill()
			}
		}
		c.Kill()
		if launches != 1 {
			t.Errorf("history %v launched the plugin %d times", hist, launches)
		}
	}
}
