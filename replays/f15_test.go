package replays

import (
	"context"
	"errors"
	"io"
	"os/exec"
	"sort"
	"strings"
	"sync"
	"testing"
	"time"

	hclog "github.com/hashicorp/go-hclog"
	plugin "github.com/hashicorp/go-plugin"
	"github.com/hashicorp/go-plugin/runner"
)

// F15 (C17/C02, fixed by b0c8618): a ClientConfig with VersionedPlugins {1,2} and no legacy Plugins is used for a
// client whose start succeeds (version 2 is negotiated), then for a second client. Before the fix the first Start
// wrote the negotiated set into config.Plugins, and the second client merged it into VersionedPlugins under the
// legacy ProtocolVersion (0): it offered "0,1,2".
func TestF15_SharedConfigOffersOnlyConfiguredVersions(t *testing.T) {
	cfg := &plugin.ClientConfig{
		HandshakeConfig:  plugin.HandshakeConfig{MagicCookieKey: "k", MagicCookieValue: "v"},
		VersionedPlugins: map[int]plugin.PluginSet{1: {}, 2: {}},
		Logger:           hclog.NewNullLogger(),
		StartTimeout:     2 * time.Second,
	}
	offered := func() []string {
		var got []string
		cfg.RunnerFunc = func(_ hclog.Logger, cmd *exec.Cmd, _ string) (runner.Runner, error) {
			for _, e := range cmd.Env {
				if v, ok := strings.CutPrefix(e, "PLUGIN_PROTOCOL_VERSIONS="); ok {
					got = strings.Split(v, ",")
				}
			}
			return nil, errors.New("capture only")
		}
		c := plugin.NewClient(cfg)
		c.Start()
		c.Kill()
		sort.Strings(got)
		return got
	}
	if got := offered(); strings.Join(got, ",") != "1,2" {
		t.Fatalf("fresh config offers %v", got)
	}
	// a start that succeeds: a "plugin" that announces version 2 on a dead address
	cfg.RunnerFunc = func(_ hclog.Logger, _ *exec.Cmd, _ string) (runner.Runner, error) {
		return &lineRunner{line: "1|2|tcp|127.0.0.1:1|netrpc\n", done: make(chan struct{})}, nil
	}
	c := plugin.NewClient(cfg)
	if _, err := c.Start(); err != nil {
		t.Fatalf("start: %v", err)
	}
	if c.NegotiatedVersion() != 2 {
		t.Fatalf("negotiated %d", c.NegotiatedVersion())
	}
	c.Kill()
	if got := offered(); strings.Join(got, ",") != "1,2" {
		t.Fatalf("after one successful start the same config offers %v, configured are 1 and 2", got)
	}
}

// lineRunner is a runner whose "process" prints one line on stdout and then lives until killed.
type lineRunner struct {
	line string
	done chan struct{}
	once sync.Once
}

func (r *lineRunner) Start(context.Context) error     { return nil }
func (r *lineRunner) Diagnose(context.Context) string { return "" }
func (r *lineRunner) Stdout() io.ReadCloser {
	pr, pw := io.Pipe()
	go func() { pw.Write([]byte(r.line)); <-r.done; pw.Close() }()
	return pr
}
func (r *lineRunner) Stderr() io.ReadCloser {
	pr, pw := io.Pipe()
	go func() { <-r.done; pw.Close() }()
	return pr
}
func (r *lineRunner) Name() string                                     { return "line" }
func (r *lineRunner) Wait(context.Context) error                       { <-r.done; return nil }
func (r *lineRunner) Kill(context.Context) error                       { r.once.Do(func() { close(r.done) }); return nil }
func (r *lineRunner) ID() string                                       { return "line" }
func (r *lineRunner) PluginToHost(n, a string) (string, string, error) { return n, a, nil }
func (r *lineRunner) HostToPlugin(n, a string) (string, string, error) { return n, a, nil }
