package replays

import (
	"testing"
	"time"
)

// F4 (C09): history D(h,77) D(h,77): the second stream for a pending id is
// dropped by MuxBroker.Run without being closed, so its dialler waits for an
// ack until the whole session ends instead of getting an error in bounded time.
func TestF4_SecondDialToPendingIDNeverReturns(t *testing.T) {
	host, _, c := muxBrokers(t)
	defer c.Close()
	errs := make(chan error, 2)
	for i := 0; i < 2; i++ {
		go func() {
			conn, err := host.Dial(77)
			if err == nil {
				conn.Close()
			}
			errs <- err
		}()
	}
	for i := 0; i < 2; i++ {
		select {
		case err := <-errs:
			if err == nil {
				t.Fatalf("unmatched dial succeeded")
			}
		case <-time.After(12 * time.Second):
			t.Fatalf("an unmatched Dial (the %d. to return) is still blocked after 12 s", i+1)
		}
	}
}
