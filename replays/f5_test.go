package replays

import (
	"context"
	"runtime"
	"testing"
	"time"

	plugin "github.com/hashicorp/go-plugin"
	grpctest "github.com/hashicorp/go-plugin/test/grpc"
	"google.golang.org/grpc"
)

type grabGRPC struct {
	plugin.NetRPCUnsupportedPlugin
	sb, cb chan *plugin.GRPCBroker
}

func (g *grabGRPC) GRPCServer(b *plugin.GRPCBroker, s *grpc.Server) error { g.sb <- b; return nil }
func (g *grabGRPC) GRPCClient(_ context.Context, b *plugin.GRPCBroker, c *grpc.ClientConn) (interface{}, error) {
	g.cb <- b
	return c, nil
}

type pp struct {
	grpctest.UnimplementedPingPongServer
	tag string
}

func (p *pp) Ping(context.Context, *grpctest.PingRequest) (*grpctest.PongResponse, error) {
	return &grpctest.PongResponse{Msg: p.tag}, nil
}

// F5 (C08): dial-first establishment over the multiplexed broker. On the
// defective tree GRPCBroker.Accept starts the knock listener before the muxer
// knows the ID's listener; if the knock is acknowledged in that window the
// muxer refuses it (host) or the main listener's Accept fails (plugin). The
// window is a few instructions wide, so without a scheduler hook this test can
// only hammer it: it reports how many of N dial-first establishments failed.
// The explorer reproduces it deterministically with one deviation
// (./run C08 replay <artefact>).
func TestF5_DialFirstMuxEstablishment(t *testing.T) {
	old := runtime.GOMAXPROCS(2)
	defer runtime.GOMAXPROCS(old)
	failed := 0
	const N = 150
	for i := 0; i < N; i++ {
		g := &grabGRPC{sb: make(chan *plugin.GRPCBroker, 1), cb: make(chan *plugin.GRPCBroker, 1)}
		c, s := plugin.TestPluginGRPCConn(t, true, map[string]plugin.Plugin{"g": g})
		if _, err := c.Dispense("g"); err != nil {
			t.Fatal(err)
		}
		hb, pb := <-g.cb, <-g.sb
		done := make(chan error, 1)
		go func() {
			cc, err := pb.Dial(7)
			if err != nil {
				done <- err
				return
			}
			defer cc.Close()
			ctx, cancel := context.WithTimeout(context.Background(), 8*time.Second)
			defer cancel()
			_, err = grpctest.NewPingPongClient(cc).Ping(ctx, &grpctest.PingRequest{})
			done <- err
		}()
		time.Sleep(2 * time.Millisecond) // the knock is now pending
		go hb.AcceptAndServe(7, func(o []grpc.ServerOption) *grpc.Server {
			sv := grpc.NewServer(o...)
			grpctest.RegisterPingPongServer(sv, &pp{tag: "7"})
			return sv
		})
		if err := <-done; err != nil {
			failed++
			t.Logf("iteration %d: dial-first establishment failed: %v", i, err)
		}
		c.Close()
		s.Stop()
	}
	if failed > 0 {
		t.Fatalf("%d of %d dial-first establishments failed", failed, N)
	}
}
