#!/usr/bin/env python3
"""Generates MANIFEST.json from the table below (kept next to the check registry in cmd/verif/checks.go)."""
import json
props = [json.loads(l) for l in open('/verif/properties.jsonl')]
claimed = {
 # id: (level, technique, text, note, design_ref)
 "C01": ("exploration",
         "exhaustive bounded enumeration of handshake lines x client configurations through the real Client.Start under virtual time, against a reference grammar",
         "All lines with <= k of 8 coordinates off-canonical (k=2/1 quick, 3 thorough; alphabets include empty, garbage, out-of-range, extra/missing fields, CRLF, blanks, EOF/silence/oversize shapes) x 72 client configurations; each case is one deterministic execution of the real Start with a scripted runner; oracle: success only if the reference grammar accepts, reported address/protocol/version/plugin set equal the line's, no panic, Start within StartTimeout, runner killed on error.",
         "Trusts: the reference grammar (60 lines of Go, one-directional); scripted runner instead of a real process (Cmd path covered by C05/C14 E3 parts); DNS names outside the alphabet.",
         "DESIGN.md §3 C01"),
 "C02": ("exploration",
         "exhaustive enumeration of (host version config, plugin version config) pairs: real Client.Start joined to the real protocolVersion, against max(H∩P)",
         "Every pair of version configurations over a universe of 3 (quick) / 4 (thorough) versions including legacy fields on either side, GRPCServer nil/set, per-version protocols, and missing / junk / duplicated version lists; oracle: announced = highest common version else plugin's lowest, both sides use the set registered under it, protocol is that set's, incompatible => Start fails with the incompatible-version error and the plugin is killed. Multi-candidate pairs repeated for map-order variation.",
         "Trusts: reference max(H∩P); the harness's one-line replica of Serve's Printf (bound to a real Serve by C16); map iteration order is sampled by repetition, not controlled.",
         "DESIGN.md §3 C02"),
 "C03": ("fault_enumeration",
         "crash-point enumeration by the explorer: 'plugin process dies now' offered as an alternative at every decision point of every explored schedule of a full host session on the real code",
         "Full session (Start, Client, Dispense, call, held call in a second goroutine, brokered exchange in both directions, Ping, Kill) on net/rpc, gRPC, gRPC+mux; crash at every quiescent state of the canonical schedule plus one further scheduling/timer/select deviation (quick, d=2), two (thorough, d=3); oracle: no panic, every call returns, calls issued after the crash that need the plugin return an error, in-flight calls return within 6 s (14 s brokered), Exited() true and the gRPC client context cancelled.",
         "Trusts: failure-domain model of a process crash (all its descriptors closed, goroutines stopped); scripted runner; bounded-latency verdicts only without TIME deviation.",
         "DESIGN.md §3 C03"),
 "C11": ("model_checking",
         "exhaustive enumeration of write-size sequences x deviation-bounded schedule exploration of the real stdio sync paths (copyStream / copyChan / StreamStdio / stdio client) under a controlled scheduler",
         "Write-size sequences around the 1 KiB chunk, 4 KiB bufio and 64 KiB pipe boundaries on both streams with position-dependent binary patterns, x {net/rpc, gRPC, gRPC+mux} x attach before/after, one RPC in flight (1944 cases quick, 48k thorough, default schedule), plus chosen shapes under every schedule with <= 2/3 deviations; oracle: bytes received by SyncStdout / SyncStderr equal the bytes written on that stream, in order, nothing crossed.",
         "Trusts: pipe model in place of Serve's os.Pipe swap; vnet; library internals not enumerated.",
         "DESIGN.md §3 C11"),
 "C04": ("model_checking",
         "stateless deviation-bounded exploration of Kill / CleanupClients on the real Client against a scripted plugin process (failure-domain model) under a controlled scheduler and virtual clock",
         "9 plugin shutdown behaviours (exit at once / 1 s / 1.9 s, ignore, frozen, crashed, no handshake, busy, busy+ignore) x {net/rpc, gRPC, gRPC+mux} x {Kill, Kill;Kill, 2 (thorough 3) concurrent Kills, CleanupClients over 3 managed clients in mixed states} under every schedule / timer order / select choice with <= 2 (thorough 3) deviations; oracle: every call returns, the process is gone and Exited() is true afterwards, latency within the grace bound, exits-within-grace plugins are never killed while alive and run their deferred cleanup, ignoring plugins are force-killed, no panic.",
         "Trusts: the failure-domain process model (exit closes descriptors, freeze stops goroutines and reads); real-process cells (zombie/pid, SIGSTOP) are not yet covered here; latency/graceful verdicts only without TIME deviation.",
         "DESIGN.md §3 C04"),
 "C05": ("fault_enumeration",
         "exhaustive enumeration of start-failure causes through the real Client.Start with a scripted runner under virtual time",
         "Every single-coordinate (thorough: pair) failure of the handshake line plus silence-until-timeout, partial line, exit before output, EOF without newline and oversize line, x 72 client configurations; oracle: whenever Start returns an error after launch the runner's Kill had been invoked by then, a following Kill returns within 3 s and removes the plugin-dir* directory, nothing stays blocked.",
         "Trusts: scripted runner (RunnerFunc) models process exit / kill; real-process (Cmd) liveness is the E3 part's subject.",
         "DESIGN.md §3 C05"),
 "C10": ("exploration",
         "exhaustive bounded enumeration of plugin stderr/stdout byte sequences through the real Client under virtual time, against a reference line splitter and level mapper",
         "All stderr sequences of <= 2 (thorough 3) lines over a 35-entry alphabet x 3 buffer sizes x final newline present/absent, and all stdout sequences of <= 2 (thorough 3) lines over 6 lengths around the 64 KiB scanner limit, fed through 64 KiB pipe models to the real logStderr / stdout scanner; oracle: bytes forwarded to ClientConfig.Stderr equal the lines in order, exactly one record per short line with the reference level/message/key-values, both writers complete (no back-pressure stall), host does not panic.",
         "Trusts: the reference model (refStderr/refParseJSON); the pipe model; a host panic is observed as worker death and confirmed in a fresh worker.",
         "DESIGN.md §3 C10"),
 "C19": ("model_checking",
         "exhaustive enumeration of call sequences against a reference model + deviation-bounded schedule exploration of concurrent calls on one real Client",
         "Sequential: all call sequences of length <= 3 (quick) / 5 (thorough) over 7 operations x 5 plugin behaviours, compared with a reference (launch count, address identity, client identity, no launch after Kill). Concurrent: all pairs (thorough: triples, 2x2) of operations under every schedule with <= 2/3 deviations. Two known findings (relaunch after a failed start) are keyed on 'after a start that failed post-launch'.",
         "Trusts: scripted runner; reference model; RunnerFunc launch only.",
         "DESIGN.md §3 C19"),
 "C07": ("model_checking",
         "stateless deviation-bounded exploration of the real GRPCBroker + real gRPC under a controlled scheduler and virtual clock",
         "Every schedule, timer order and select choice with at most d deviations (1-id patterns d=2/3, 2-id patterns d=1/2) of the real host GRPCClient/GRPCBroker and plugin GRPCServer/GRPCBroker over real gRPC on virtual sockets, for every pattern of dial side x issue order x gap; oracle: the PingPong tag answered on the dialled connection is the id's, first call succeeds inside the window, no deadlock, no leaked go-plugin goroutine after Close.",
         "Trusts: Go runtime + testing/synctest; vnet stream model; gRPC internals run to quiescence between go-plugin's synchronisation points (not enumerated); TLS and address-translator variants are covered by the C12/C14 checks, not here.",
         "DESIGN.md §3 C07"),
 "C08": ("model_checking",
         "stateless deviation-bounded exploration of the real multiplexed GRPCBroker (yamux muxers + gRPC) under a controlled scheduler and virtual clock",
         "All sequences of 1 and 2 (thorough: 3) sequentially established brokered connections over accept side x accept-first/dial-first x gap, each followed by pings on the main and all earlier connections, under every schedule / timer order / select choice with <= d deviations (singles d=2/3, pairs d=1/2); oracle: tag routing, main listener keeps serving, first call succeeds inside the window, no deadlock/leak.",
         "Trusts: Go runtime + testing/synctest; vnet stream model; grpc's root package has its sync import replaced by a channel-based (durably blocking) equivalent so that a lock held around a Listener.Close callback cannot stall the bubble; one known finding (stale knock after a knock timeout) is listed in findings/known-findings.jsonl.",
         "DESIGN.md §3 C08"),
 "C09": ("model_checking",
         "stateless deviation-bounded exploration of broker histories on the real MuxBroker / GRPCBroker under a controlled scheduler and virtual clock",
         "Every history of <= 2 (thorough <= 3) unmatched / duplicate / late dial and accept events with gaps {0, 2 s, 5 s}, followed by a matched pair on a fresh id and Close, on MuxBroker and GRPCBroker (single events on the multiplexed broker), under every schedule / timer order / select choice with <= 2 (thorough 3) deviations; oracle: every call returns (within the documented bound when no timer deviation was taken), the fresh pair succeeds, nothing is blocked for ever, no go-plugin goroutine survives Close.",
         "Trusts: Go runtime + testing/synctest virtual clock (5 s timers cost nothing); vnet stream model; library internals not enumerated.",
         "DESIGN.md §3 C09"),
 "C06": ("model_checking",
         "stateless deviation-bounded exploration of the real MuxBroker/yamux code under a controlled scheduler and virtual clock",
         "Every schedule, timer order and select choice with at most d deviations from a canonical scheduler (d=2 quick, 3 thorough) of the real MuxBroker pair over real yamux, for every 1- and 2-ID pattern of dial side x issue order x gap; routing token, byte fidelity, in-window success, deadlock and goroutine-leak oracles on every execution.",
         "Trusts: Go runtime + testing/synctest virtual clock; the in-memory stream model (vnet); interleavings inside yamux are not enumerated; bounds as stated in evidence.",
         "DESIGN.md §3 C06"),
}
na_reason = "check not built yet in this round (planned, see DESIGN.md §3)"
m = {
 "version": 1,
 "setup_cmd": "./setup.sh",
 "hooks": {
   "guard": "none (build overlay generated at check time from /repo's working tree; nothing is committed to /repo)",
   "enable": "tools/rewrite instruments the non-test sources of /repo into a scratch overlay; go1.26 test -c -overlay <overlay.json> builds the worker against it",
   "baseline_off_cmd": "cd /repo && go test -vet=off -count=1 -timeout 25m ./...",
   "source_commits": [],
   "add_only": True,
 },
 "engines": [
   {"name": "E1 bubble explorer", "path": "engine/vs engine/explore engine/vsync engine/vnet engine/vatomic tools/rewrite cmd/verif",
    "serves_properties": sorted(k for k in claimed),
    "kind_free_text": "hand-written stateless model checker for Go: quiescence-stepped controlled scheduler inside one testing/synctest bubble (virtual time), delay-bounded DFS over decision lists, sharded over 16 worker processes"},
 ],
 "checks": [],
 "not_applicable": [],
 "notes": "See DESIGN.md. Exit codes of ./run: 0 held / only listed findings, 1 violation, 2 build error, 3 engine error (nondeterminism, stall).",
}
for p in props:
    i = p["id"]
    if i in claimed:
        lvl, tech, text, note, ref = claimed[i]
        m["checks"].append({
          "property_id": i,
          "quick_cmd": f"./run {i} quick",
          "thorough_cmd": f"./run {i} thorough",
          "evidence_file": f"/verif/evidence/{i}.json",
          "replay_cmd_template": f"./run {i} replay {{path}}",
          "engine": "E1 bubble explorer",
          "level_claimed": {"category": lvl, "text": text, "design_ref": ref},
          "level_note": note,
          "technique": tech,
        })
    else:
        m["not_applicable"].append({"property_id": i, "reason": na_reason})
json.dump(m, open('/verif/MANIFEST.json', 'w'), indent=1)
print("claimed", len(m["checks"]), "not_applicable", len(m["not_applicable"]))
