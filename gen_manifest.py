#!/usr/bin/env python3
"""Generates MANIFEST.json from the table below (kept next to the check registry in cmd/verif/checks.go)."""
import json
props = [json.loads(l) for l in open('/verif/properties.jsonl')]
claimed = {
 # id: (level, technique, text, note, design_ref)
 "C06": ("model_checking",
         "stateless deviation-bounded exploration of the real MuxBroker/yamux code under a controlled scheduler and virtual clock",
         "Every schedule, timer order and select choice with at most d deviations from a canonical scheduler (d=2 quick, 3 thorough) of the real MuxBroker pair over real yamux, for every 1- and 2-ID pattern of dial side x issue order x gap; routing token, byte fidelity, in-window success, deadlock and goroutine-leak oracles on every execution.",
         "Trusts: Go runtime + testing/synctest virtual clock; the in-memory stream model (vnet); interleavings inside yamux are not enumerated; bounds as stated in evidence.",
         "DESIGN.md §3 C06"),
}
na_reason = "check not built yet in this round (planned, see DESIGN.md §3)"
m = {
 "version": 1,
 "setup_cmd": "./setup.sh",
 "hooks": {
   "guard": "none (build overlay generated at check time from /repo's working tree; nothing is committed to /repo)",
   "enable": "tools/rewrite instruments the non-test sources of /repo into a scratch overlay; go1.26 test -c -overlay <overlay.json> builds the worker against it",
   "baseline_off_cmd": "cd /repo && go test -vet=off -count=1 -timeout 25m ./...",
   "source_commits": [],
   "add_only": True,
 },
 "engines": [
   {"name": "E1 bubble explorer", "path": "engine/vs engine/explore engine/vsync engine/vnet engine/vatomic tools/rewrite cmd/verif",
    "serves_properties": sorted(k for k in claimed),
    "kind_free_text": "hand-written stateless model checker for Go: quiescence-stepped controlled scheduler inside one testing/synctest bubble (virtual time), delay-bounded DFS over decision lists, sharded over 16 worker processes"},
 ],
 "checks": [],
 "not_applicable": [],
 "notes": "See DESIGN.md. Exit codes of ./run: 0 held / only listed findings, 1 violation, 2 build error, 3 engine error (nondeterminism, stall).",
}
for p in props:
    i = p["id"]
    if i in claimed:
        lvl, tech, text, note, ref = claimed[i]
        m["checks"].append({
          "property_id": i,
          "quick_cmd": f"./run {i} quick",
          "thorough_cmd": f"./run {i} thorough",
          "evidence_file": f"/verif/evidence/{i}.json",
          "replay_cmd_template": f"./run {i} replay {{path}}",
          "engine": "E1 bubble explorer",
          "level_claimed": {"category": lvl, "text": text, "design_ref": ref},
          "level_note": note,
          "technique": tech,
        })
    else:
        m["not_applicable"].append({"property_id": i, "reason": na_reason})
json.dump(m, open('/verif/MANIFEST.json', 'w'), indent=1)
print("claimed", len(m["checks"]), "not_applicable", len(m["not_applicable"]))
