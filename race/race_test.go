// Package race holds the free-running bodies of the race pass (DESIGN §2.5):
// pairs and small groups of public operations run concurrently against real
// go-plugin objects under the Go race detector. The cooperative explorer cannot
// see data races (its hand-offs are happens-before edges), so this pass is
// separate; it is exhaustive over operation pairs, not over schedules.
package race

import (
	"context"
	"crypto/ecdsa"
	"crypto/elliptic"
	crand "crypto/rand"
	"crypto/tls"
	"crypto/x509"
	"crypto/x509/pkix"
	"encoding/json"
	"encoding/pem"
	"fmt"
	"io"
	"math/big"
	"math/rand"
	"net/rpc"
	"os"
	"os/exec"
	"os/user"
	"strconv"
	"strings"
	"sync"
	"syscall"
	"testing"
	"time"

	hclog "github.com/hashicorp/go-hclog"
	plugin "github.com/hashicorp/go-plugin"
	"github.com/hashicorp/go-plugin/runner"
	grpctest "github.com/hashicorp/go-plugin/test/grpc"
	"google.golang.org/grpc"

	"verif/e3/kv"
)

func seed() int64 {
	v, _ := strconv.ParseInt(os.Getenv("VERIF_SEED"), 10, 64)
	return v + 1
}

func jitter(r *rand.Rand, mu *sync.Mutex) {
	mu.Lock()
	n := r.Intn(4)
	mu.Unlock()
	if n == 0 {
		time.Sleep(time.Duration(50) * time.Microsecond)
	}
}

type grabRPC struct {
	mu     sync.Mutex
	sb, cb []*plugin.MuxBroker
	n      int
}

type tagSrv struct{ tag string }

func (t *tagSrv) Tag(_ int, out *string) error { *out = t.tag; return nil }

func (g *grabRPC) Server(b *plugin.MuxBroker) (interface{}, error) {
	g.mu.Lock()
	defer g.mu.Unlock()
	g.sb = append(g.sb, b)
	g.n++
	return &tagSrv{tag: fmt.Sprint(g.n)}, nil
}
func (g *grabRPC) Client(b *plugin.MuxBroker, c *rpc.Client) (interface{}, error) {
	g.mu.Lock()
	defer g.mu.Unlock()
	g.cb = append(g.cb, b)
	return c, nil
}

func TestRace_MuxBroker(t *testing.T) {
	r := rand.New(rand.NewSource(seed()))
	var rmu sync.Mutex
	for iter := 0; iter < 6; iter++ {
		g := &grabRPC{}
		c, _ := plugin.TestPluginRPCConn(t, map[string]plugin.Plugin{"g": g}, nil)
		if _, err := c.Dispense("g"); err != nil {
			t.Fatal(err)
		}
		hb, pb := g.cb[0], g.sb[0]
		var wg sync.WaitGroup
		run := func(f func()) { wg.Add(1); go func() { defer wg.Done(); jitter(r, &rmu); f() }() }
		for i := 0; i < 4; i++ {
			run(func() {
				for k := 0; k < 50; k++ {
					hb.NextId()
					pb.NextId()
				}
			})
			run(func() {
				if o, err := c.Dispense("g"); err == nil {
					var s string
					o.(*rpc.Client).Call("Plugin.Tag", 0, &s)
				}
			})
		}
		for i := 0; i < 6; i++ {
			id := uint32(1000 + i)
			ab, db := hb, pb
			if i%2 == 0 {
				ab, db = pb, hb
			}
			run(func() {
				if conn, err := ab.Accept(id); err == nil {
					conn.Write([]byte("x"))
					conn.Close()
				}
			})
			run(func() {
				if conn, err := db.Dial(id); err == nil {
					b := make([]byte, 1)
					conn.Read(b)
					conn.Close()
				}
			})
		}
		if iter%2 == 1 {
			run(func() { c.Close() }) // shutdown racing with in-flight operations
		}
		wg.Wait()
		c.Close()
	}
}

// TestRace_MuxBrokerUnmatched: accepts that nobody dials (a dispense the host never connected, a callback id that was
// never used) expire, all at about the same time, while matched pairs on other ids and dispenses go on.
func TestRace_MuxBrokerUnmatched(t *testing.T) {
	r := rand.New(rand.NewSource(seed()))
	var rmu sync.Mutex
	g := &grabRPC{}
	c, _ := plugin.TestPluginRPCConn(t, map[string]plugin.Plugin{"g": g}, nil)
	if _, err := c.Dispense("g"); err != nil {
		t.Fatal(err)
	}
	defer c.Close()
	hb, pb := g.cb[0], g.sb[0]
	var wg sync.WaitGroup
	for i := 0; i < 60; i++ {
		id := uint32(5000 + i)
		b := hb
		if i%2 == 0 {
			b = pb
		}
		wg.Add(1)
		go func() { defer wg.Done(); jitter(r, &rmu); b.Accept(id) }() // returns with the timeout error after 5 s
	}
	stop := time.Now().Add(5600 * time.Millisecond)
	for w := 0; w < 4; w++ {
		w := w
		wg.Add(1)
		go func() {
			defer wg.Done()
			for k := 0; time.Now().Before(stop); k++ {
				id := uint32(100000 + w*100000 + k)
				ab, db := hb, pb
				if k%2 == 0 {
					ab, db = pb, hb
				}
				done := make(chan struct{})
				go func() {
					defer close(done)
					if conn, err := ab.Accept(id); err == nil {
						conn.Write([]byte("x"))
						conn.Close()
					}
				}()
				if conn, err := db.Dial(id); err == nil {
					b := make([]byte, 1)
					conn.Read(b)
					conn.Close()
				}
				<-done
				if k%16 == 0 {
					c.Dispense("g")
				}
				time.Sleep(2 * time.Millisecond)
			}
		}()
	}
	wg.Wait()
}

type grabG struct {
	plugin.NetRPCUnsupportedPlugin
	mu     sync.Mutex
	sb, cb *plugin.GRPCBroker
}

func (g *grabG) GRPCServer(b *plugin.GRPCBroker, s *grpc.Server) error {
	g.mu.Lock()
	g.sb = b
	g.mu.Unlock()
	return nil
}
func (g *grabG) GRPCClient(_ context.Context, b *plugin.GRPCBroker, c *grpc.ClientConn) (interface{}, error) {
	g.mu.Lock()
	g.cb = b
	g.mu.Unlock()
	return c, nil
}

type pp struct {
	grpctest.UnimplementedPingPongServer
}

func (pp) Ping(context.Context, *grpctest.PingRequest) (*grpctest.PongResponse, error) {
	return &grpctest.PongResponse{Msg: "pong"}, nil
}

func TestRace_GRPCBroker(t *testing.T) {
	r := rand.New(rand.NewSource(seed()))
	var rmu sync.Mutex
	for _, mux := range []bool{false, true} {
		for iter := 0; iter < 4; iter++ {
			g := &grabG{}
			c, s := plugin.TestPluginGRPCConn(t, mux, map[string]plugin.Plugin{"g": g})
			if _, err := c.Dispense("g"); err != nil {
				t.Fatal(err)
			}
			hb, pb := g.cb, g.sb
			var wg sync.WaitGroup
			run := func(f func()) { wg.Add(1); go func() { defer wg.Done(); jitter(r, &rmu); f() }() }
			for i := 0; i < 4; i++ {
				run(func() {
					for k := 0; k < 50; k++ {
						hb.NextId()
						pb.NextId()
					}
				})
				run(func() { c.Dispense("g"); c.Ping() })
			}
			sharedOpts := append(make([]grpc.DialOption, 0, 8), grpc.WithUserAgent("race-pass"))
			pair := func(i int) {
				id := uint32(2000 + i)
				ab, db := hb, pb
				if i%2 == 0 {
					ab, db = pb, hb
				}
				go ab.AcceptAndServe(id, func(o []grpc.ServerOption) *grpc.Server {
					sv := grpc.NewServer(o...)
					grpctest.RegisterPingPongServer(sv, pp{})
					return sv
				})
				// a slice of options shared by all diallers, with spare capacity (what append-built "common options" look like)
				if cc, err := db.DialWithOptions(id, sharedOpts...); err == nil {
					ctx, cancel := context.WithTimeout(context.Background(), 5*time.Second)
					grpctest.NewPingPongClient(cc).Ping(ctx, &grpctest.PingRequest{})
					cancel()
					cc.Close()
				}
			}
			if mux {
				first, seqDone := make(chan struct{}), make(chan struct{})
				run(func() { // multiplexed establishments are sequential by contract
					defer close(seqDone)
					for i := 0; i < 5; i++ {
						pair(i)
						if i == 0 {
							close(first)
						}
					}
				})
				// ... but a connection to an id that is already being served may be re-dialled at any time (gRPC
				// does so by itself when it reconnects): id 2000 is accepted on the plugin side
				run(func() {
					<-first
					for k := 0; k < 200; k++ {
						select {
						case <-seqDone:
							return
						default:
						}
						if cc, err := hb.Dial(2000); err == nil {
							ctx, cancel := context.WithTimeout(context.Background(), 2*time.Second)
							grpctest.NewPingPongClient(cc).Ping(ctx, &grpctest.PingRequest{})
							cancel()
							cc.Close()
						}
					}
				})
			} else {
				for i := 0; i < 4; i++ {
					i := i
					run(func() { pair(i) })
				}
			}
			if iter%2 == 1 {
				run(func() { c.Close() })
			}
			wg.Wait()
			c.Close()
			s.Stop()
		}
	}
}

func vplugin(t *testing.T, proto string) *exec.Cmd {
	vp := os.Getenv("VERIF_VPLUGIN")
	if vp == "" {
		t.Skip("needs VERIF_VPLUGIN")
	}
	cmd := exec.Command(vp)
	cmd.Env = []string{`VP_CONF={"cookie_key":"RC","cookie_value":"rv","legacy":1,"legacy_proto":"` + proto + `","grpc_server":true}`}
	return cmd
}

// tlsPair makes a self-signed certificate for a plugin that serves over TLS (TLSProvider) and the host-side tls.Config that
// goes with it: certificates, RootCAs and ServerName, no ClientCAs (the usual shape of a client-side configuration).
func tlsPair(t *testing.T) (certPEM, keyPEM string, host *tls.Config) {
	key, _ := ecdsa.GenerateKey(elliptic.P256(), crand.Reader)
	tmpl := &x509.Certificate{SerialNumber: big.NewInt(7), Subject: pkix.Name{CommonName: "localhost"}, DNSNames: []string{"localhost"},
		NotBefore: time.Now().Add(-time.Hour), NotAfter: time.Now().Add(24 * time.Hour), IsCA: true, BasicConstraintsValid: true,
		KeyUsage: x509.KeyUsageDigitalSignature | x509.KeyUsageCertSign, ExtKeyUsage: []x509.ExtKeyUsage{x509.ExtKeyUsageServerAuth, x509.ExtKeyUsageClientAuth}}
	der, err := x509.CreateCertificate(crand.Reader, tmpl, tmpl, &key.PublicKey, key)
	if err != nil {
		t.Fatal(err)
	}
	kb, _ := x509.MarshalECPrivateKey(key)
	cp := pem.EncodeToMemory(&pem.Block{Type: "CERTIFICATE", Bytes: der})
	kp := pem.EncodeToMemory(&pem.Block{Type: "EC PRIVATE KEY", Bytes: kb})
	c, _ := tls.X509KeyPair(cp, kp)
	pool := x509.NewCertPool()
	pool.AppendCertsFromPEM(cp)
	return string(cp), string(kp), &tls.Config{Certificates: []tls.Certificate{c}, RootCAs: pool, ServerName: "localhost"}
}

// usc returns a UnixSocketConfig naming the process's primary group (nil when it has no resolvable name).
func usc(on bool) *plugin.UnixSocketConfig {
	if !on {
		return nil
	}
	g, err := user.LookupGroupId(strconv.Itoa(os.Getgid()))
	if err != nil || g.Name == "" {
		return nil
	}
	return &plugin.UnixSocketConfig{Group: g.Name}
}

func TestRace_Client(t *testing.T) {
	r := rand.New(rand.NewSource(seed()))
	var rmu sync.Mutex
	for _, proto := range []string{"netrpc", "grpc", "grpc-tls"} {
		for iter := 0; iter < 6; iter++ {
			ps := plugin.PluginSet{"kv": &kv.Plugin{}}
			if proto != "netrpc" {
				ps = plugin.PluginSet{"kv": &kv.GPlugin{}}
			}
			pcmd := vplugin(t, strings.TrimSuffix(proto, "-tls"))
			var hostTLS *tls.Config
			if proto == "grpc-tls" { // static TLS: the plugin has a TLSProvider, the host a configuration without ClientCAs
				if iter >= 3 {
					continue
				}
				cp, kp, h := tlsPair(t)
				hostTLS = h
				conf, _ := json.Marshal(map[string]any{"cookie_key": "RC", "cookie_value": "rv", "legacy": 1, "legacy_proto": "grpc", "grpc_server": true, "tls": "provider", "cert_pem": cp, "key_pem": kp})
				pcmd.Env = []string{"VP_CONF=" + string(conf)}
			}
			cl := plugin.NewClient(&plugin.ClientConfig{
				TLSConfig:        hostTLS,
				HandshakeConfig:  plugin.HandshakeConfig{MagicCookieKey: "RC", MagicCookieValue: "rv", ProtocolVersion: 1},
				Plugins:          ps,
				Cmd:              pcmd,
				AllowedProtocols: []plugin.Protocol{plugin.ProtocolNetRPC, plugin.ProtocolGRPC},
				Logger:           hclog.NewNullLogger(),
				Managed:          iter%3 == 2,
				// sockets of brokered listeners are made group-writable for a group given by name (every second iteration)
				UnixSocketConfig: usc(iter%2 == 0),
			})
			var wg sync.WaitGroup
			run := func(f func()) { wg.Add(1); go func() { defer wg.Done(); jitter(r, &rmu); f() }() }
			ops := []func(){
				func() { cl.Start() },
				func() {
					if p, err := cl.Client(); err == nil {
						if raw, err := p.Dispense("kv"); err == nil {
							raw.(kv.Store).Set(3)
							var cw sync.WaitGroup
							for k := 0; k < 3; k++ { // brokered listeners opened by the host concurrently (distinct ids)
								cw.Add(1)
								go func() { defer cw.Done(); raw.(kv.Store).Callback() }()
							}
							cw.Wait()
						}
						p.Ping()
					}
				},
				func() { cl.Protocol() },
				func() { cl.ReattachConfig() },
				func() { cl.Exited(); cl.ID() },
			}
			for _, o := range ops {
				run(o)
				run(o)
			}
			wg.Wait()
			// NegotiatedVersion is documented as valid only after Start has been called
			for _, o := range append(ops, func() { cl.NegotiatedVersion() }) {
				run(o)
			}
			wg.Wait()
			if iter%3 == 1 {
				// the plugin process dies (SIGKILL) while goroutines keep using the protocol client and objects they
				// already hold (over gRPC that makes the connection redial from gRPC's own goroutines) and read the accessors
				if p, err := cl.Client(); err == nil {
					raw, _ := p.Dispense("kv")
					stop := make(chan struct{})
					for g := 0; g < 4; g++ {
						run(func() {
							for {
								select {
								case <-stop:
									return
								default:
								}
								p.Ping()
								if st, ok := raw.(kv.Store); ok {
									st.Get()
								}
								p.Dispense("kv")
								// (no Client method here: its lock would order this goroutine, and through it gRPC's, after the exit watcher)
								time.Sleep(time.Millisecond)
							}
						})
					}
					time.Sleep(20 * time.Millisecond)
					if rc := cl.ReattachConfig(); rc != nil && rc.Pid > 1 {
						syscall.Kill(rc.Pid, syscall.SIGKILL)
					}
					for i := 0; i < 300 && !cl.Exited(); i++ {
						time.Sleep(10 * time.Millisecond)
					}
					time.Sleep(1500 * time.Millisecond) // (gRPC's first redial comes after its 1 s back-off)
					close(stop)
					wg.Wait()
				}
			}
			// shutdown racing with accessors and a second Kill
			run(func() { cl.Kill() })
			run(func() { cl.Kill() })
			run(func() {
				for i := 0; i < 300; i++ { // keep reading while the process exits and Kill finishes
					cl.Exited()
					cl.ID()
					cl.ReattachConfig()
					if i%20 == 0 {
						time.Sleep(200 * time.Microsecond)
					}
				}
			})
			if iter%3 == 2 {
				run(func() { plugin.CleanupClients() })
			}
			wg.Wait()
		}
	}
}

// deadRunner is a custom runner whose "plugin" prints a handshake line naming a unix socket nobody listens on (a
// plugin that died, or removed its socket, right after the handshake) and agrees to broker multiplexing.
type deadRunner struct {
	outR, errR *io.PipeReader
	outW, errW *io.PipeWriter
	done       chan struct{}
	once       sync.Once
	addr       string
	proto      string
}

func newDeadRunner(addr, proto string) *deadRunner {
	d := &deadRunner{done: make(chan struct{}), addr: addr, proto: proto}
	d.outR, d.outW = io.Pipe()
	d.errR, d.errW = io.Pipe()
	return d
}
func (d *deadRunner) Start(context.Context) error {
	if d.proto == "netrpc" {
		go fmt.Fprintf(d.outW, "1|1|unix|%s|netrpc\n", d.addr)
		return nil
	}
	go fmt.Fprintf(d.outW, "1|1|unix|%s|grpc||true\n", d.addr)
	return nil
}
func (d *deadRunner) Diagnose(context.Context) string { return "" }
func (d *deadRunner) Stdout() io.ReadCloser           { return d.outR }
func (d *deadRunner) Stderr() io.ReadCloser           { return d.errR }
func (d *deadRunner) Name() string                    { return "dead" }
func (d *deadRunner) Wait(context.Context) error      { <-d.done; return nil }
func (d *deadRunner) Kill(context.Context) error {
	d.once.Do(func() { close(d.done); d.outW.Close(); d.errW.Close() })
	return nil
}
func (d *deadRunner) ID() string                                       { return "dead" }
func (d *deadRunner) PluginToHost(n, a string) (string, string, error) { return n, a, nil }
func (d *deadRunner) HostToPlugin(n, a string) (string, string, error) { return n, a, nil }

// TestRace_ClientDeadMux: with broker multiplexing agreed, the plugin's socket refuses the host's first connection;
// several goroutines retry Client() (each attempt leaves gRPC dialling from its own goroutines), read the
// accessors and finally Kill.
func TestRace_ClientDeadMux(t *testing.T) {
	r := rand.New(rand.NewSource(seed()))
	var rmu sync.Mutex
	for iter := 0; iter < 6; iter++ {
		dir := t.TempDir()
		// iterations 0-3: gRPC with multiplexing; 4: gRPC without; 5: net/rpc
		proto, mux := "grpc", iter < 4
		if iter == 5 {
			proto = "netrpc"
		}
		ps := plugin.PluginSet{"kv": &kv.GPlugin{}}
		if proto == "netrpc" {
			ps = plugin.PluginSet{"kv": &kv.Plugin{}}
		}
		cl := plugin.NewClient(&plugin.ClientConfig{
			HandshakeConfig: plugin.HandshakeConfig{MagicCookieKey: "RC", MagicCookieValue: "rv", ProtocolVersion: 1},
			Plugins:         ps,
			RunnerFunc: func(hclog.Logger, *exec.Cmd, string) (runner.Runner, error) {
				return newDeadRunner(dir+"/nobody", proto), nil
			},
			AllowedProtocols:    []plugin.Protocol{plugin.ProtocolGRPC, plugin.ProtocolNetRPC},
			Logger:              hclog.NewNullLogger(),
			GRPCBrokerMultiplex: mux,
			SkipHostEnv:         true,
		})
		if _, err := cl.Start(); err != nil {
			t.Fatalf("start: %v", err)
		}
		var wg sync.WaitGroup
		for g := 0; g < 4; g++ {
			wg.Add(1)
			go func() {
				defer wg.Done()
				for k := 0; k < 25; k++ {
					jitter(r, &rmu)
					if p, err := cl.Client(); err == nil {
						// (a protocol client handed out without an error is used)
						p.Ping()
						p.Dispense("kv")
						return
					}
					cl.Protocol()
					cl.Exited()
				}
			}()
		}
		wg.Wait()
		time.Sleep(1200 * time.Millisecond) // (gRPC's redials of the abandoned connections come after its 1 s back-off)
		for g := 0; g < 2; g++ {
			wg.Add(1)
			go func() { defer wg.Done(); cl.Client(); cl.Kill() }()
		}
		wg.Wait()
	}
}
