module vmirror

go 1.26.0
