// pidspawn <pid> <program> [args...]: starts the program as a process with exactly that pid (clone3 set_tid, Linux >= 5.5,
// needs CAP_SYS_ADMIN / CAP_CHECKPOINT_RESTORE over the pid namespace) and exits at once, leaving the program running
// on its own with the inherited environment and descriptors. Exit 3: the kernel refused (pid in use, no privilege).
// Used by C15's recycled-pid histories: a later plugin that got the pid an earlier, reattached plugin had.
#define _GNU_SOURCE
#include <errno.h>
#include <linux/sched.h>
#include <signal.h>
#include <stdio.h>
#include <stdlib.h>
#include <string.h>
#include <sys/syscall.h>
#include <unistd.h>

int main(int argc, char **argv) {
  if (argc < 3) return 2;
  pid_t tid = atoi(argv[1]);
  struct clone_args a;
  memset(&a, 0, sizeof a);
  a.exit_signal = SIGCHLD;
  a.set_tid = (unsigned long long)(unsigned long)&tid;
  a.set_tid_size = 1;
  long r = syscall(SYS_clone3, &a, sizeof a);
  if (r < 0) {
    fprintf(stderr, "pidspawn: clone3(set_tid=%d): %s\n", tid, strerror(errno));
    return 3;
  }
  if (r == 0) {
    setsid();
    execv(argv[2], argv + 2);
    _exit(127);
  }
  return 0;
}
