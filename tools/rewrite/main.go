// Command vrewrite instruments the go-plugin sources of a working tree into a
// build overlay (DESIGN §2.1). It never writes into the repository.
//
//	vrewrite -repo /repo -out <scratch dir> [-export <file added to package plugin>]...
//
// Output: <out>/overlay.json mapping each original file under /repo (the
// module path the harness builds against) to its instrumented copy in <out>.
// Exit status 2 on any construct it cannot handle.
package main

import (
	"bytes"
	"encoding/json"
	"flag"
	"fmt"
	"go/ast"
	"go/build"
	"go/format"
	"go/importer"
	"go/parser"
	"go/token"
	"go/types"
	"io"
	"os"
	"os/exec"
	"path/filepath"
	"regexp"
	"sort"
	"strconv"
	"strings"

	"golang.org/x/tools/go/ast/astutil"
)

const (
	vsPath     = "verif/engine/vs"
	vsyncPath  = "verif/engine/vsync"
	vatomPath  = "verif/engine/vatomic"
	vnetPath   = "verif/engine/vnet"
	modulePath = "github.com/hashicorp/go-plugin"
)

type multi []string

func (m *multi) String() string     { return strings.Join(*m, ",") }
func (m *multi) Set(s string) error { *m = append(*m, s); return nil }

// unsupported is panicked by a rewrite step that meets a construct it cannot express; see (*rw).try.
type unsupported string

func (r *rw) warn(n ast.Node, what string) {
	fmt.Fprintf(os.Stderr, "vrewrite: %s:%d: %s left uninstrumented\n", r.file, r.fset.Position(n.Pos()).Line, what)
	r.counts["uninstrumented"]++
}

func (r *rw) try(n ast.Node, f func() ast.Stmt) (st ast.Stmt, ok bool) {
	defer func() {
		if e := recover(); e != nil {
			u, is := e.(unsupported)
			if !is {
				panic(e)
			}
			r.warn(n, string(u))
			st, ok = nil, false
		}
	}()
	return f(), true
}

func fatalf(f string, a ...any) {
	fmt.Fprintf(os.Stderr, "vrewrite: "+f+"\n", a...)
	os.Exit(2)
}

func main() {
	repo := flag.String("repo", "/repo", "working tree to instrument")
	mount := flag.String("mount", "/repo", "path the harness module's replace directive points at")
	out := flag.String("out", "", "scratch output directory")
	var exports multi
	flag.Var(&exports, "export", "dir=file: extra source file added to the package in dir (relative to repo root)")
	var replaces multi
	flag.Var(&replaces, "replace", "path=file: plain overlay replacement")
	var durable multi
	flag.Var(&durable, "durable", "directory of a dependency package whose sync import is replaced by the durable, uncontrolled vsyncd")
	plain := flag.String("plain", "", "also write a plain overlay (mount path -> repo path for every non-test .go file) to this file, for uninstrumented builds against another working tree")
	stats := flag.Bool("stats", false, "print rewrite statistics")
	flag.Parse()
	if *out == "" {
		fatalf("-out required")
	}
	if err := os.MkdirAll(*out, 0o755); err != nil {
		fatalf("%v", err)
	}
	dirs := []string{".", "internal/grpcmux", "internal/cmdrunner"}
	exp := exportMap(*repo)
	overlay := map[string]string{}
	counts := map[string]int{}
	for _, d := range dirs {
		rewriteDir(*repo, *mount, d, *out, exp, overlay, counts)
	}
	// every other non-test source file of the working tree (unchanged by the rewriter) must also come
	// from -repo when it is not the mounted tree
	plainMap := map[string]string{}
	filepath.Walk(*repo, func(pth string, info os.FileInfo, err error) error {
		if err != nil {
			return nil
		}
		if info.IsDir() {
			if n := info.Name(); n == ".git" || n == "examples" || n == "docs" {
				return filepath.SkipDir
			}
			return nil
		}
		if !strings.HasSuffix(pth, ".go") || strings.HasSuffix(pth, "_test.go") {
			return nil
		}
		rel, _ := filepath.Rel(*repo, pth)
		mp := filepath.Join(*mount, rel)
		plainMap[mp] = pth
		if _, ok := overlay[mp]; !ok && *repo != *mount {
			overlay[mp] = pth
		}
		return nil
	})
	if *plain != "" {
		pb, _ := json.MarshalIndent(map[string]any{"Replace": plainMap}, "", " ")
		if err := os.WriteFile(*plain, pb, 0o644); err != nil {
			fatalf("%v", err)
		}
	}
	for _, e := range replaces {
		path, file, ok := strings.Cut(e, "=")
		if !ok {
			fatalf("bad -replace %q", e)
		}
		overlay[path] = file
	}
	for _, d := range durable {
		durableDir(d, *out, overlay, counts)
	}
	for _, e := range exports {
		dir, file, ok := strings.Cut(e, "=")
		if !ok {
			fatalf("bad -export %q", e)
		}
		overlay[filepath.Join(*mount, dir, "zz_verif_"+strings.TrimSuffix(filepath.Base(file), ".src"))] = file
	}
	b, _ := json.MarshalIndent(map[string]any{"Replace": overlay}, "", " ")
	if err := os.WriteFile(filepath.Join(*out, "overlay.json"), b, 0o644); err != nil {
		fatalf("%v", err)
	}
	if *stats {
		var ks []string
		for k := range counts {
			ks = append(ks, k)
		}
		sort.Strings(ks)
		for _, k := range ks {
			fmt.Printf("%-12s %d\n", k, counts[k])
		}
	}
}

// exportMap asks the go command for compiler export data of every dependency.
func exportMap(repo string) map[string]string {
	cmd := exec.Command("go1.26", "list", "-export", "-deps", "-json=ImportPath,Export", "./...")
	cmd.Dir = repo
	cmd.Stderr = os.Stderr
	outb, err := cmd.Output()
	if err != nil {
		fatalf("go list -export: %v", err)
	}
	m := map[string]string{}
	dec := json.NewDecoder(bytes.NewReader(outb))
	for {
		var p struct{ ImportPath, Export string }
		if err := dec.Decode(&p); err == io.EOF {
			break
		} else if err != nil {
			fatalf("go list json: %v", err)
		}
		if p.Export != "" {
			m[p.ImportPath] = p.Export
		}
	}
	return m
}

var grpcRoot = regexp.MustCompile(`(^|/)grpc(@v[^/]+)?/?$`)

// durableDir rewrites only the sync import of every buildable non-test file of dir.
func durableDir(dir, out string, overlay map[string]string, counts map[string]int) {
	ents, err := os.ReadDir(dir)
	if err != nil {
		fatalf("%v", err)
	}
	ctx := build.Default
	ctx.GOOS, ctx.GOARCH = "linux", "amd64"
	for _, e := range ents {
		n := e.Name()
		if e.IsDir() || !strings.HasSuffix(n, ".go") || strings.HasSuffix(n, "_test.go") {
			continue
		}
		if ok, err := ctx.MatchFile(dir, n); err != nil || !ok {
			continue
		}
		fset := token.NewFileSet()
		f, err := parser.ParseFile(fset, filepath.Join(dir, n), nil, parser.ParseComments)
		if err != nil {
			fatalf("parse: %v", err)
		}
		changed := false
		for _, im := range f.Imports {
			if im.Path.Value == `"sync"` {
				if im.Name != nil && im.Name.Name != "sync" {
					fatalf("%s: renamed sync import", n)
				}
				im.Path.Value = strconv.Quote("verif/engine/vsyncd")
				im.Name = ast.NewIdent("sync")
				changed = true
			}
		}
		if changed && grpcRoot.MatchString(dir) {
			// library entry points that consume caller-owned arguments (option slices): a fine-grained scheduling point
			added := false
			for _, d := range f.Decls {
				fd, ok := d.(*ast.FuncDecl)
				if !ok || fd.Body == nil || fd.Recv != nil {
					continue
				}
				switch fd.Name.Name {
				case "Dial", "DialContext", "NewClient", "NewServer":
					st := &ast.ExprStmt{X: &ast.CallExpr{Fun: &ast.SelectorExpr{X: ast.NewIdent("vs"), Sel: ast.NewIdent("FinePoint")}, Args: []ast.Expr{
						&ast.BasicLit{Kind: token.STRING, Value: strconv.Quote("fn:grpc." + fd.Name.Name)}}}}
					fd.Body.List = append([]ast.Stmt{st}, fd.Body.List...)
					added = true
					counts["finepoint-lib"]++
				}
			}
			if added {
				astutil.AddNamedImport(fset, f, "vs", vsPath)
			}
		}
		if !changed {
			continue
		}
		counts["durable"]++
		var buf bytes.Buffer
		if err := format.Node(&buf, fset, f); err != nil {
			fatalf("format %s: %v", n, err)
		}
		dst := filepath.Join(out, "dep__"+strings.ReplaceAll(strings.TrimPrefix(dir, "/"), "/", "__")+"__"+n+".src")
		if err := os.WriteFile(dst, buf.Bytes(), 0o644); err != nil {
			fatalf("%v", err)
		}
		overlay[filepath.Join(dir, n)] = dst
	}
}

type rw struct {
	fset   *token.FileSet
	info   *types.Info
	file   string
	usedVS bool
	counts map[string]int
	tmp    int
}

func rewriteDir(repo, mount, rel, out string, exp map[string]string, overlay map[string]string, counts map[string]int) {
	dir := filepath.Join(repo, rel)
	ents, err := os.ReadDir(dir)
	if err != nil {
		fatalf("%v", err)
	}
	fset := token.NewFileSet()
	var files []*ast.File
	var names []string
	ctx := build.Default
	ctx.GOOS, ctx.GOARCH = "linux", "amd64"
	for _, e := range ents {
		n := e.Name()
		if e.IsDir() || !strings.HasSuffix(n, ".go") || strings.HasSuffix(n, "_test.go") {
			continue
		}
		if ok, err := ctx.MatchFile(dir, n); err != nil || !ok {
			continue
		}
		f, err := parser.ParseFile(fset, filepath.Join(dir, n), nil, parser.ParseComments)
		if err != nil {
			fatalf("parse: %v", err)
		}
		files = append(files, f)
		names = append(names, n)
	}
	imp := importer.ForCompiler(fset, "gc", func(path string) (io.ReadCloser, error) {
		p, ok := exp[path]
		if !ok {
			return nil, fmt.Errorf("no export data for %q", path)
		}
		return os.Open(p)
	})
	info := &types.Info{Types: map[ast.Expr]types.TypeAndValue{}, Uses: map[*ast.Ident]types.Object{}, Selections: map[*ast.SelectorExpr]*types.Selection{}}
	conf := types.Config{Importer: imp, Error: func(err error) { fatalf("typecheck: %v", err) }}
	pkgPath := modulePath
	if rel != "." {
		pkgPath += "/" + rel
	}
	if _, err := conf.Check(pkgPath, fset, files, info); err != nil {
		fatalf("typecheck %s: %v", rel, err)
	}
	for i, f := range files {
		r := &rw{fset: fset, info: info, file: names[i], counts: counts}
		changed := r.rewriteFile(f)
		if !changed {
			continue
		}
		var buf bytes.Buffer
		if err := format.Node(&buf, fset, f); err != nil {
			fatalf("format %s: %v", names[i], err)
		}
		dst := filepath.Join(out, strings.ReplaceAll(filepath.Join(rel, names[i]), "/", "__")+".src")
		// re-parse as a sanity check of the generated text
		if _, err := parser.ParseFile(token.NewFileSet(), dst, buf.Bytes(), 0); err != nil {
			fatalf("generated %s does not parse: %v", names[i], err)
		}
		if err := os.WriteFile(dst, buf.Bytes(), 0o644); err != nil {
			fatalf("%v", err)
		}
		overlay[filepath.Join(mount, rel, names[i])] = dst
	}
}

func (r *rw) site(n ast.Node) *ast.BasicLit {
	p := r.fset.Position(n.Pos())
	return &ast.BasicLit{Kind: token.STRING, Value: strconv.Quote(r.file + ":" + strconv.Itoa(p.Line))}
}

func (r *rw) vs(name string) ast.Expr {
	r.usedVS = true
	return &ast.SelectorExpr{X: ast.NewIdent("vs"), Sel: ast.NewIdent(name)}
}

func (r *rw) pointStmt(n ast.Node) ast.Stmt {
	r.counts["point"]++
	return &ast.ExprStmt{X: &ast.CallExpr{Fun: r.vs("Point"), Args: []ast.Expr{r.site(n)}}}
}

// isPkgCall reports whether call is pkg.name(...) for an imported package.
func (r *rw) isPkgSel(e ast.Expr, pkg, name string) bool {
	s, ok := e.(*ast.SelectorExpr)
	if !ok || s.Sel.Name != name {
		return false
	}
	id, ok := s.X.(*ast.Ident)
	if !ok {
		return false
	}
	pn, ok := r.info.Uses[id].(*types.PkgName)
	return ok && pn.Imported().Path() == pkg
}

func recvTypeName(o types.Object) string {
	f, ok := o.(*types.Func)
	if !ok {
		return ""
	}
	sig := f.Type().(*types.Signature)
	if sig.Recv() == nil {
		return ""
	}
	t := sig.Recv().Type()
	if p, ok := t.(*types.Pointer); ok {
		t = p.Elem()
	}
	if n, ok := t.(*types.Named); ok {
		return n.Obj().Name()
	}
	return ""
}

func (r *rw) isBuiltin(e ast.Expr, name string) bool {
	id, ok := e.(*ast.Ident)
	if !ok || id.Name != name {
		return false
	}
	_, ok = r.info.Uses[id].(*types.Builtin)
	return ok
}

// directRecv reports whether the expressions of n (not nested statements,
// not function literals) contain a channel receive.
func directRecv(n ast.Node) bool {
	found := false
	ast.Inspect(n, func(m ast.Node) bool {
		if found {
			return false
		}
		switch v := m.(type) {
		case *ast.FuncLit:
			return false
		case *ast.BlockStmt:
			return m == n
		case *ast.UnaryExpr:
			if v.Op == token.ARROW {
				found = true
				return false
			}
		}
		return true
	})
	return found
}

func headerHasRecv(s ast.Stmt) bool {
	chk := func(ns ...ast.Node) bool {
		for _, n := range ns {
			if n == nil {
				continue
			}
			switch v := n.(type) {
			case ast.Expr:
				if v == nil {
					continue
				}
			case ast.Stmt:
				if v == nil {
					continue
				}
			}
			if directRecv(n) {
				return true
			}
		}
		return false
	}
	switch v := s.(type) {
	case *ast.IfStmt:
		var ns []ast.Node
		if v.Init != nil {
			ns = append(ns, v.Init)
		}
		if v.Cond != nil {
			ns = append(ns, v.Cond)
		}
		return chk(ns...)
	case *ast.SwitchStmt:
		var ns []ast.Node
		if v.Init != nil {
			ns = append(ns, v.Init)
		}
		if v.Tag != nil {
			ns = append(ns, v.Tag)
		}
		return chk(ns...)
	case *ast.TypeSwitchStmt:
		var ns []ast.Node
		if v.Init != nil {
			ns = append(ns, v.Init)
		}
		ns = append(ns, v.Assign)
		return chk(ns...)
	}
	return false
}

func inList(c *astutil.Cursor) bool {
	if c.Index() < 0 {
		return false
	}
	switch c.Parent().(type) {
	case *ast.BlockStmt, *ast.CaseClause, *ast.CommClause:
		return true
	}
	return false
}

func (r *rw) rewriteFile(f *ast.File) bool {
	changed := false
	f.Comments = nil
	// imports
	for _, im := range f.Imports {
		p, _ := strconv.Unquote(im.Path.Value)
		var np, name string
		switch p {
		case "sync":
			np, name = vsyncPath, "sync"
		case "sync/atomic":
			np, name = vatomPath, "atomic"
		case "net":
			np, name = vnetPath, "net"
		default:
			continue
		}
		im.Path.Value = strconv.Quote(np)
		if im.Name == nil { // (a renamed import keeps its name: the replacement package is a drop-in for the original)
			im.Name = ast.NewIdent(name)
		}
		changed = true
		r.counts["import"]++
	}
	usesTime := false
	for _, im := range f.Imports {
		if im.Path.Value == `"time"` && im.Name == nil {
			usesTime = true
		}
	}

	astutil.Apply(f, nil, func(c *astutil.Cursor) bool {
		switch n := c.Node().(type) {
		case *ast.CallExpr:
			for _, fn := range []string{"After", "Sleep", "NewTimer", "NewTicker", "AfterFunc"} {
				if r.isPkgSel(n.Fun, "time", fn) {
					st := r.site(n)
					n.Fun = r.vs(fn)
					n.Args = append([]ast.Expr{st}, n.Args...)
					r.counts["time."+fn]++
				}
			}
			if r.isPkgSel(n.Fun, "time", "Tick") {
				// left as it is: it works on the virtual clock, but its deadlines are unknown to the explorer
				fmt.Fprintf(os.Stderr, "vrewrite: %s: time.Tick is not instrumented\n", r.file)
			}
			// methods of sync.Mutex / RWMutex / Once / WaitGroup get the original call site
			if sel, ok := n.Fun.(*ast.SelectorExpr); ok {
				if sl := r.info.Selections[sel]; sl != nil && sl.Obj().Pkg() != nil && sl.Obj().Pkg().Path() == "sync" {
					switch sel.Sel.Name {
					case "Lock", "RLock", "Do", "Wait":
						if named := recvTypeName(sl.Obj()); named == "Mutex" || named == "RWMutex" || named == "Once" || named == "WaitGroup" {
							st := r.site(n)
							sel.Sel = ast.NewIdent(sel.Sel.Name + "At")
							n.Args = append([]ast.Expr{st}, n.Args...)
							r.counts["sync."+named+"."+sel.Sel.Name]++
						}
					}
				}
			}
			if r.isBuiltin(n.Fun, "close") {
				st := r.site(n)
				n.Fun = r.vs("Close")
				n.Args = append([]ast.Expr{st}, n.Args...)
				r.counts["close"]++
			}
		case *ast.SelectStmt:
			// Constructs the rewriter cannot express are left as they are (with a warning): they run natively on
			// the virtual clock, only their choices are not the explorer's. Failing the build instead would turn
			// every future change that uses one into a broken check.
			if _, ok := c.Parent().(*ast.LabeledStmt); ok {
				r.warn(n, "labeled select")
			} else if st, ok := r.try(n, func() ast.Stmt { return r.rewriteSelect(n) }); ok {
				c.Replace(st)
			}
		case *ast.RangeStmt:
			if tv, ok := r.info.Types[n.X]; ok {
				if _, isChan := tv.Type.Underlying().(*types.Chan); isChan {
					if st, ok := r.try(n, func() ast.Stmt { return r.rewriteRange(n) }); ok {
						c.Replace(st)
					}
				}
			}
		case *ast.ForStmt:
			if (n.Cond != nil && directRecv(n.Cond)) || (n.Post != nil && directRecv(n.Post)) || (n.Init != nil && directRecv(n.Init)) {
				r.warn(n, "channel receive in a for header")
			}
		}
		// statement-level points
		if s, ok := c.Node().(ast.Stmt); ok && inList(c) {
			need := false
			switch v := s.(type) {
			case *ast.SendStmt, *ast.GoStmt:
				need = true
			case *ast.ExprStmt, *ast.AssignStmt, *ast.ReturnStmt, *ast.DeclStmt, *ast.IncDecStmt, *ast.DeferStmt:
				need = directRecv(v)
			case *ast.IfStmt, *ast.SwitchStmt, *ast.TypeSwitchStmt:
				need = headerHasRecv(v)
			case *ast.LabeledStmt:
				switch v.Stmt.(type) {
				case *ast.SendStmt, *ast.GoStmt:
					need = true
				}
			}
			if need {
				c.InsertBefore(r.pointStmt(s))
			}
		}
		return true
	})
	// fine-grained preemption: every function of the code under test begins with a (normally inert) scheduling point
	if !strings.HasSuffix(r.file, ".pb.go") {
		for _, d := range f.Decls {
			fd, ok := d.(*ast.FuncDecl)
			if !ok || fd.Body == nil || fd.Name.Name == "init" {
				continue
			}
			st := &ast.ExprStmt{X: &ast.CallExpr{Fun: r.vs("FinePoint"), Args: []ast.Expr{
				&ast.BasicLit{Kind: token.STRING, Value: strconv.Quote("fn:" + r.file + ":" + fd.Name.Name)}}}}
			fd.Body.List = append([]ast.Stmt{st}, fd.Body.List...)
			r.counts["finepoint"]++
		}
	}
	if r.usedVS {
		changed = true
		astutil.AddNamedImport(r.fset, f, "vs", vsPath)
		if usesTime {
			// keep the time import used even if every use was rewritten
			f.Decls = append(f.Decls, &ast.GenDecl{Tok: token.VAR, Specs: []ast.Spec{&ast.ValueSpec{
				Names: []*ast.Ident{ast.NewIdent("_")},
				Type:  &ast.SelectorExpr{X: ast.NewIdent("time"), Sel: ast.NewIdent("Duration")},
			}}})
		}
	}
	return changed
}

func (r *rw) tmpName(p string) *ast.Ident {
	r.tmp++
	return ast.NewIdent("_vs" + p + strconv.Itoa(r.tmp))
}

func recvOf(e ast.Expr) (ast.Expr, bool) {
	for {
		if p, ok := e.(*ast.ParenExpr); ok {
			e = p.X
			continue
		}
		break
	}
	u, ok := e.(*ast.UnaryExpr)
	if !ok || u.Op != token.ARROW {
		return nil, false
	}
	return u.X, true
}

// rewriteSelect turns a select statement into operand hoisting + vs.Select +
// switch (bodies are not duplicated).
func (r *rw) rewriteSelect(s *ast.SelectStmt) ast.Stmt {
	r.counts["select"]++
	var pre []ast.Stmt
	var args []ast.Expr
	var clauses []ast.Stmt
	hasDefault := false
	idx := 0
	for _, cl := range s.Body.List {
		cc := cl.(*ast.CommClause)
		if cc.Comm == nil {
			hasDefault = true
			clauses = append(clauses, &ast.CaseClause{
				List: []ast.Expr{&ast.UnaryExpr{Op: token.SUB, X: &ast.BasicLit{Kind: token.INT, Value: "1"}}},
				Body: cc.Body,
			})
			continue
		}
		caseVar := r.tmpName("c")
		var body []ast.Stmt
		switch cm := cc.Comm.(type) {
		case *ast.SendStmt:
			chv, vv := r.tmpName("ch"), r.tmpName("v")
			pre = append(pre,
				&ast.AssignStmt{Lhs: []ast.Expr{chv}, Tok: token.DEFINE, Rhs: []ast.Expr{cm.Chan}},
				&ast.AssignStmt{Lhs: []ast.Expr{vv}, Tok: token.DEFINE, Rhs: []ast.Expr{cm.Value}},
				&ast.AssignStmt{Lhs: []ast.Expr{caseVar}, Tok: token.DEFINE, Rhs: []ast.Expr{
					&ast.CallExpr{Fun: &ast.SelectorExpr{X: &ast.CallExpr{Fun: r.vs("S"), Args: []ast.Expr{chv}}, Sel: ast.NewIdent("With")}, Args: []ast.Expr{vv}},
				}},
			)
		case *ast.ExprStmt:
			ch, ok := recvOf(cm.X)
			if !ok {
				panic(unsupported("select clause that is not a plain send or receive"))
			}
			pre = append(pre, &ast.AssignStmt{Lhs: []ast.Expr{caseVar}, Tok: token.DEFINE, Rhs: []ast.Expr{
				&ast.CallExpr{Fun: r.vs("R"), Args: []ast.Expr{ch}},
			}})
		case *ast.AssignStmt:
			if len(cm.Rhs) != 1 {
				panic(unsupported("select clause that is not a plain send or receive"))
			}
			ch, ok := recvOf(cm.Rhs[0])
			if !ok {
				panic(unsupported("select clause that is not a plain send or receive"))
			}
			pre = append(pre, &ast.AssignStmt{Lhs: []ast.Expr{caseVar}, Tok: token.DEFINE, Rhs: []ast.Expr{
				&ast.CallExpr{Fun: r.vs("R"), Args: []ast.Expr{ch}},
			}})
			getter := "V"
			if len(cm.Lhs) == 2 {
				getter = "V2"
			}
			body = append(body, &ast.AssignStmt{Lhs: cm.Lhs, Tok: cm.Tok, Rhs: []ast.Expr{
				&ast.CallExpr{Fun: &ast.SelectorExpr{X: caseVar, Sel: ast.NewIdent(getter)}},
			}})
			if cm.Tok == token.DEFINE {
				// keep "declared and not used" semantics identical: the original
				// required the variables to be used, nothing to add
			}
		default:
			panic(unsupported(fmt.Sprintf("select clause %T", cm)))
		}
		args = append(args, caseVar)
		clauses = append(clauses, &ast.CaseClause{
			List: []ast.Expr{&ast.BasicLit{Kind: token.INT, Value: strconv.Itoa(idx)}},
			Body: append(body, cc.Body...),
		})
		idx++
	}
	hd := "false"
	if hasDefault {
		hd = "true"
	}
	call := &ast.CallExpr{Fun: r.vs("Select"), Args: append([]ast.Expr{r.site(s), ast.NewIdent(hd)}, args...)}
	clauses = append(clauses, &ast.CaseClause{Body: []ast.Stmt{&ast.ExprStmt{X: &ast.CallExpr{
		Fun: ast.NewIdent("panic"), Args: []ast.Expr{&ast.BasicLit{Kind: token.STRING, Value: `"vs: select index out of range"`}}}}}})
	sw := &ast.SwitchStmt{Tag: call, Body: &ast.BlockStmt{List: clauses}}
	return &ast.BlockStmt{List: append(pre, sw)}
}

// rewriteRange turns `for k := range ch { body }` into an explicit receive
// loop with a scheduling point per iteration.
func (r *rw) rewriteRange(s *ast.RangeStmt) ast.Stmt {
	r.counts["rangechan"]++
	switch s.X.(type) {
	case *ast.Ident, *ast.SelectorExpr:
	default:
		panic(unsupported("range over a channel expression that is not a plain operand"))
	}
	okv := r.tmpName("ok")
	var lhs []ast.Expr
	tok := token.DEFINE
	if s.Key != nil {
		lhs = []ast.Expr{s.Key, okv}
		if s.Tok == token.ASSIGN {
			// k already declared: declare ok separately
			tok = token.ASSIGN
		}
	} else {
		lhs = []ast.Expr{ast.NewIdent("_"), okv}
	}
	var body []ast.Stmt
	body = append(body, r.pointStmt(s))
	if tok == token.ASSIGN {
		body = append(body, &ast.DeclStmt{Decl: &ast.GenDecl{Tok: token.VAR, Specs: []ast.Spec{&ast.ValueSpec{Names: []*ast.Ident{okv}, Type: ast.NewIdent("bool")}}}})
	}
	body = append(body,
		&ast.AssignStmt{Lhs: lhs, Tok: tok, Rhs: []ast.Expr{&ast.UnaryExpr{Op: token.ARROW, X: s.X}}},
		&ast.IfStmt{Cond: &ast.UnaryExpr{Op: token.NOT, X: okv}, Body: &ast.BlockStmt{List: []ast.Stmt{&ast.BranchStmt{Tok: token.BREAK}}}},
	)
	body = append(body, s.Body.List...)
	return &ast.ForStmt{Body: &ast.BlockStmt{List: body}}
}
