#!/bin/bash
# build.sh <outdir>: instrument $VERIF_REPO (default /repo) into a fresh overlay and build the worker there.
set -e
export GOFLAGS=-mod=mod GOPROXY=off GOTOOLCHAIN=local
cd "$(dirname "$(readlink -f "$0")")"
ROOT="$PWD"
OUT=$1
REPO=${VERIF_REPO:-/repo}
mkdir -p "$OUT/ov" $ROOT/.cache
[ -x bin/vrewrite ] && [ ! tools/rewrite/main.go -nt bin/vrewrite ] || (cd tools/rewrite && go1.26 build -o $ROOT/bin/vrewrite .)
# A copy of the grpc module outside GOMODCACHE (files beneath GOMODCACHE cannot be
# overlaid): only its root package gets its sync import replaced (engine/vsyncd).
GRPCVER=$(cd "$REPO" && go1.26 list -m -f '{{.Version}}' google.golang.org/grpc)
GRPCSRC=$(cd "$REPO" && go1.26 list -m -f '{{.Dir}}' google.golang.org/grpc)
GRPCDIR=$ROOT/.cache/grpc@$GRPCVER
if [ ! -f "$GRPCDIR/.complete" ]; then
  rm -rf "$GRPCDIR"; mkdir -p "$GRPCDIR"
  rsync -a --chmod=u+w --exclude='*_test.go' --exclude='/interop' --exclude='/test' --exclude='/benchmark' --exclude='/examples' \
        --exclude='/stress' --exclude='/testdata' --exclude='/Documentation' --include='*/' --include='*.go' --include='go.mod' --include='go.sum' --exclude='*' \
        "$GRPCSRC/" "$GRPCDIR/"
  touch "$GRPCDIR/.complete"
fi
cp go.mod "$OUT/go.mod"; cp go.sum "$OUT/go.sum"
echo "replace google.golang.org/grpc => $GRPCDIR" >> "$OUT/go.mod"
bin/vrewrite -repo "$REPO" -out "$OUT/ov" -export .=$ROOT/overlay/plugin_export.go.src -durable "$GRPCDIR" -replace "$GRPCDIR/internal/grpcrand/grpcrand.go=$ROOT/overlay/grpcrand.go.src" -plain "$OUT/ov/plain.json"
go1.26 test -c -vet=off -modfile="$OUT/go.mod" -overlay "$OUT/ov/overlay.json" -o "$OUT/worker.test" ./scen/
# E3: real-process cells run uninstrumented against the working tree
PLAIN=()
if [ "$REPO" != /repo ]; then PLAIN=(-overlay "$OUT/ov/plain.json"); fi
go1.26 build "${PLAIN[@]}" -o "$OUT/vplugin" ./cmd/vplugin
go1.26 test "${PLAIN[@]}" -c -vet=off -o "$OUT/e3.test" ./e3/
# helper of C15's recycled-pid histories (optional: without a C compiler those histories report "undecided")
( cc -O1 -o "$OUT/pidspawn" tools/pidspawn/pidspawn.c || clang -O1 -o "$OUT/pidspawn" tools/pidspawn/pidspawn.c ) 2>/dev/null || echo "build.sh: no pidspawn helper (no C compiler)" >&2
# E3 once more with the toolchain that the repository's own go.mod selects (its suite and its users build with that one):
# standard-library behaviour differs between toolchains (crypto/tls session resumption, for one)
REPOGO=$(cd "$REPO" && env -u GOTOOLCHAIN go env GOVERSION 2>/dev/null || true)
if [ -n "$REPOGO" ] && [ "$REPOGO" != "$(go1.26 env GOVERSION)" ]; then
  mkdir -p "$OUT/old"
  sed "s/^go 1\.26.*/go ${REPOGO#go}/; /^toolchain/d" go.mod > "$OUT/old/go.mod"; cp go.sum "$OUT/old/go.sum"
  ( GOTOOLCHAIN=$REPOGO go build "${PLAIN[@]}" -modfile="$OUT/old/go.mod" -o "$OUT/old/vplugin" ./cmd/vplugin &&
    GOTOOLCHAIN=$REPOGO go test "${PLAIN[@]}" -c -vet=off -modfile="$OUT/old/go.mod" -o "$OUT/old/e3.test" ./e3/ ) || { echo "build.sh: E3 build with $REPOGO failed" >&2; exit 1; }
fi
# R: the race pass (free-running bodies under the race detector, uninstrumented)
go1.26 test "${PLAIN[@]}" -race -c -vet=off -o "$OUT/race.test" ./race/
