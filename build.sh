#!/bin/bash
# build.sh <outdir>: instrument $VERIF_REPO (default /repo) into a fresh overlay and build the worker there.
set -e
export GOFLAGS=-mod=mod GOPROXY=off GOTOOLCHAIN=local
cd "$(dirname "$(readlink -f "$0")")"
ROOT="$PWD"
OUT=$1
REPO=${VERIF_REPO:-/repo}
mkdir -p "$OUT/ov" $ROOT/.cache
[ -x bin/vrewrite ] && [ ! tools/rewrite/main.go -nt bin/vrewrite ] || (cd tools/rewrite && go1.26 build -o $ROOT/bin/vrewrite .)
# A copy of the grpc module outside GOMODCACHE (files beneath GOMODCACHE cannot be
# overlaid): only its root package gets its sync import replaced (engine/vsyncd).
GRPCVER=$(cd "$REPO" && go1.26 list -m -f '{{.Version}}' google.golang.org/grpc)
GRPCSRC=$(cd "$REPO" && go1.26 list -m -f '{{.Dir}}' google.golang.org/grpc)
GRPCDIR=$ROOT/.cache/grpc@$GRPCVER
if [ ! -f "$GRPCDIR/.complete" ]; then
  rm -rf "$GRPCDIR"; mkdir -p "$GRPCDIR"
  rsync -a --chmod=u+w --exclude='*_test.go' --exclude='/interop' --exclude='/test' --exclude='/benchmark' --exclude='/examples' \
        --exclude='/stress' --exclude='/testdata' --exclude='/Documentation' --include='*/' --include='*.go' --include='go.mod' --include='go.sum' --exclude='*' \
        "$GRPCSRC/" "$GRPCDIR/"
  touch "$GRPCDIR/.complete"
fi
cp go.mod "$OUT/go.mod"; cp go.sum "$OUT/go.sum"
echo "replace google.golang.org/grpc => $GRPCDIR" >> "$OUT/go.mod"
bin/vrewrite -repo "$REPO" -out "$OUT/ov" -export .=$ROOT/overlay/plugin_export.go.src -durable "$GRPCDIR" -replace "$GRPCDIR/internal/grpcrand/grpcrand.go=$ROOT/overlay/grpcrand.go.src" -plain "$OUT/ov/plain.json"
go1.26 test -c -vet=off -modfile="$OUT/go.mod" -overlay "$OUT/ov/overlay.json" -o "$OUT/worker.test" ./scen/
# E3: real-process cells run uninstrumented against the working tree
PLAIN=()
if [ "$REPO" != /repo ]; then PLAIN=(-overlay "$OUT/ov/plain.json"); fi
go1.26 build "${PLAIN[@]}" -o "$OUT/vplugin" ./cmd/vplugin
go1.26 test "${PLAIN[@]}" -c -vet=off -o "$OUT/e3.test" ./e3/
# R: the race pass (free-running bodies under the race detector, uninstrumented)
go1.26 test "${PLAIN[@]}" -race -c -vet=off -o "$OUT/race.test" ./race/
