#!/bin/bash
# build.sh <outdir>: instrument $VERIF_REPO (default /repo) into a fresh overlay and build the worker there.
set -e
export GOFLAGS=-mod=mod GOPROXY=off GOTOOLCHAIN=local
cd /verif
OUT=$1
REPO=${VERIF_REPO:-/repo}
mkdir -p "$OUT/ov"
[ -x bin/vrewrite ] || (cd tools/rewrite && go1.26 build -o /verif/bin/vrewrite .)
bin/vrewrite -repo "$REPO" -out "$OUT/ov" -export .=/verif/overlay/plugin_export.go.src
go1.26 test -c -vet=off -overlay "$OUT/ov/overlay.json" -o "$OUT/worker.test" ./scen/
