#!/bin/bash
# seedtest.sh <Cxx> <patch.diff> [check ids...]: verify a seeded change in a scratch worktree
# (compiles, suite passes) and run the given checks (default: the property's own) against it
# through VERIF_REPO, never touching /repo.
set -u
ID=$1; PATCH=$2; shift 2
CHECKS=${*:-$ID}
WT=$(mktemp -d /tmp/sv_${ID}_XXXX); rmdir "$WT"
git -C /repo worktree add -q --detach "$WT" HEAD || exit 9
trap 'git -C /repo worktree remove --force "$WT" 2>/dev/null; rm -rf "$WT"' EXIT
if ! git -C "$WT" apply "$PATCH"; then echo "PATCH-DOES-NOT-APPLY"; exit 8; fi
(cd "$WT" && go build ./... ) || { echo "DOES-NOT-COMPILE"; exit 7; }
ok=0
[ -n "${SKIP_SUITE:-}" ] && ok=2
for i in 1 2 3; do
  [ $ok = 2 ] && break
  if (cd "$WT" && go test -vet=off -count=1 -timeout 25m ./... > "$WT/suite.out" 2>&1); then ok=1; break; fi
done
if [ $ok = 2 ]; then echo "SUITE: skipped"; elif [ $ok = 1 ]; then echo "SUITE: pass (attempt $i)"; else echo "SUITE: FAIL"; grep -E "^(--- FAIL|FAIL)" "$WT/suite.out" | head -5; fi
for c in $CHECKS; do
  VERIF_REPO="$WT" /verif/run $c quick > "$WT/check.$c.out" 2>&1; rc=$?
  echo "CHECK $c quick: exit $rc"
  grep -a -A1 "^VIOLATION" "$WT/check.$c.out" | grep "^\s" | head -4 | cut -c1-260
  grep -a -A3 "engine error" "$WT/check.$c.out" | cut -c1-300 | head -8
  tail -1 "$WT/check.$c.out" | cut -c1-200
done
