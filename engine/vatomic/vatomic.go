// Package vatomic replaces sync/atomic in instrumented go-plugin code: each
// operation is preceded by a scheduling point, then performed for real.
package vatomic

import (
	"sync/atomic"

	"verif/engine/vs"
)

type Bool = atomic.Bool
type Int32 = atomic.Int32
type Int64 = atomic.Int64
type Uint32 = atomic.Uint32
type Uint64 = atomic.Uint64
type Value = atomic.Value

func AddUint32(p *uint32, d uint32) uint32 {
	vs.Point("atomic.AddUint32")
	return atomic.AddUint32(p, d)
}
func AddInt32(p *int32, d int32) int32 { vs.Point("atomic.AddInt32"); return atomic.AddInt32(p, d) }
func AddUint64(p *uint64, d uint64) uint64 {
	vs.Point("atomic.AddUint64")
	return atomic.AddUint64(p, d)
}
func AddInt64(p *int64, d int64) int64 { vs.Point("atomic.AddInt64"); return atomic.AddInt64(p, d) }
func LoadUint32(p *uint32) uint32      { vs.Point("atomic.LoadUint32"); return atomic.LoadUint32(p) }
func LoadInt32(p *int32) int32         { vs.Point("atomic.LoadInt32"); return atomic.LoadInt32(p) }
func LoadUint64(p *uint64) uint64      { vs.Point("atomic.LoadUint64"); return atomic.LoadUint64(p) }
func LoadInt64(p *int64) int64         { vs.Point("atomic.LoadInt64"); return atomic.LoadInt64(p) }
func StoreUint32(p *uint32, v uint32)  { vs.Point("atomic.StoreUint32"); atomic.StoreUint32(p, v) }
func StoreInt32(p *int32, v int32)     { vs.Point("atomic.StoreInt32"); atomic.StoreInt32(p, v) }
func StoreUint64(p *uint64, v uint64)  { vs.Point("atomic.StoreUint64"); atomic.StoreUint64(p, v) }
func StoreInt64(p *int64, v int64)     { vs.Point("atomic.StoreInt64"); atomic.StoreInt64(p, v) }
func CompareAndSwapUint32(p *uint32, o, n uint32) bool {
	vs.Point("atomic.CASUint32")
	return atomic.CompareAndSwapUint32(p, o, n)
}
func CompareAndSwapInt32(p *int32, o, n int32) bool {
	vs.Point("atomic.CASInt32")
	return atomic.CompareAndSwapInt32(p, o, n)
}
func SwapUint32(p *uint32, n uint32) uint32 {
	vs.Point("atomic.SwapUint32")
	return atomic.SwapUint32(p, n)
}
func SwapInt32(p *int32, n int32) int32 { vs.Point("atomic.SwapInt32"); return atomic.SwapInt32(p, n) }
