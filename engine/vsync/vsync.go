// Package vsync replaces package sync in instrumented go-plugin code.
//
// Inside a synctest bubble Mutex/RWMutex/Once are built on a channel
// semaphore, so that a goroutine waiting for a lock is *durably* blocked (a
// goroutine blocked on a real sync.Mutex is not, and would stall
// synctest.Wait and the virtual clock for ever if the holder never releases).
// Inside a controlled execution a goroutine additionally parks before
// acquiring and the explorer only releases it when the lock is free. Outside a
// bubble (the free-running race pass) they are the real primitives.
package vsync

import (
	"sync"
	"sync/atomic"

	"verif/engine/vs"
)

type Locker = sync.Locker
type Pool = sync.Pool
type Map = sync.Map
type Cond = sync.Cond

func NewCond(l Locker) *Cond { return sync.NewCond(l) }

type Mutex struct {
	real sync.Mutex
	ls   vs.LockState
	sem  atomic.Pointer[chan struct{}]
}

func (m *Mutex) ch() chan struct{} {
	if p := m.sem.Load(); p != nil {
		return *p
	}
	c := make(chan struct{}, 1)
	if m.sem.CompareAndSwap(nil, &c) {
		return c
	}
	return *m.sem.Load()
}

func (m *Mutex) Lock() { m.LockAt("") }

// LockAt is Lock with the original call site (supplied by the rewriter).
func (m *Mutex) LockAt(site string) {
	if !vs.InBubble() {
		m.real.Lock()
		return
	}
	if x := vs.Cur(); x != nil && x.Controlled() {
		if site == "" {
			site = vs.CallerSite(3)
		}
		vs.PointLock("L:"+site, &m.ls, false)
	}
	m.ch() <- struct{}{}
	m.ls.Held.Store(1)
}

func (m *Mutex) TryLock() bool {
	if !vs.InBubble() {
		return m.real.TryLock()
	}
	select {
	case m.ch() <- struct{}{}:
		m.ls.Held.Store(1)
		return true
	default:
		return false
	}
}

func (m *Mutex) Unlock() {
	if !vs.InBubble() {
		m.real.Unlock()
		return
	}
	m.ls.Held.Store(0)
	select {
	case <-m.ch():
	default:
		panic("vsync: unlock of unlocked mutex")
	}
}

// RWMutex is modelled as an exclusive lock (go-plugin does not use RWMutex;
// the rewriter still maps it so that new code compiles).
type RWMutex struct{ m Mutex }

func (m *RWMutex) Lock()               { m.m.LockAt("") }
func (m *RWMutex) LockAt(site string)  { m.m.LockAt(site) }
func (m *RWMutex) Unlock()             { m.m.Unlock() }
func (m *RWMutex) RLock()              { m.m.LockAt("") }
func (m *RWMutex) RLockAt(site string) { m.m.LockAt(site) }
func (m *RWMutex) RUnlock()            { m.m.Unlock() }

type Once struct {
	m    Mutex
	done atomic.Bool
}

func (o *Once) Do(f func()) { o.DoAt("", f) }

func (o *Once) DoAt(site string, f func()) {
	if o.done.Load() {
		return
	}
	o.m.LockAt(site)
	defer o.m.Unlock()
	if !o.done.Load() {
		defer o.done.Store(true)
		f()
	}
}

// WaitGroup is a model of sync.WaitGroup whose one scheduling-dependent
// behaviour is explicit: a waiter released by the counter reaching zero is
// runnable but has not yet returned, and if the group is used again (counter or
// waiters non-zero) before it runs, the real implementation panics with "sync:
// WaitGroup is reused before previous Wait has returned". The real one decides
// that by the Go scheduler (which the explorer does not control: the same
// decision list crashed or not); here the released waiter parks at a second
// Point, so the explorer decides, and the panic is raised exactly when the real
// re-check (state != 0 after wake-up) would fail.
type WaitGroup struct {
	mu      sync.Mutex
	n       int
	waiting int
	ch      chan struct{}
}

func (w *WaitGroup) Add(d int) {
	w.mu.Lock()
	w.n += d
	if w.n < 0 {
		w.mu.Unlock()
		panic("sync: negative WaitGroup counter")
	}
	if w.n == 0 && w.waiting > 0 {
		close(w.ch)
		w.ch, w.waiting = nil, 0
	}
	w.mu.Unlock()
}
func (w *WaitGroup) Done() { w.Add(-1) }
func (w *WaitGroup) Wait() { w.WaitAt("") }

func (w *WaitGroup) WaitAt(site string) {
	if site == "" {
		site = vs.CallerSite(3)
	}
	vs.Point("W:" + site)
	w.mu.Lock()
	if w.n == 0 {
		w.mu.Unlock()
		return
	}
	if w.ch == nil {
		w.ch = make(chan struct{})
	}
	ch := w.ch
	w.waiting++
	w.mu.Unlock()
	<-ch
	vs.Point("Wr:" + site)
	w.mu.Lock()
	reused := w.n != 0 || w.waiting != 0
	w.mu.Unlock()
	if reused {
		panic("sync: WaitGroup is reused before previous Wait has returned")
	}
}
func (w *WaitGroup) Go(f func()) {
	w.Add(1)
	go func() {
		defer w.Done()
		f()
	}()
}

// OnceFunc, OnceValue and OnceValues mirror the standard library's helpers on top of the modelled Once (a panic in f
// is not re-raised on later calls as the standard library does: the first call's panic propagates, later calls return
// zero values).
func OnceFunc(f func()) func() {
	var o Once
	return func() { o.Do(f) }
}

func OnceValue[T any](f func() T) func() T {
	var o Once
	var v T
	return func() T {
		o.Do(func() { v = f() })
		return v
	}
}

func OnceValues[T1, T2 any](f func() (T1, T2)) func() (T1, T2) {
	var o Once
	var v1 T1
	var v2 T2
	return func() (T1, T2) {
		o.Do(func() { v1, v2 = f() })
		return v1, v2
	}
}
