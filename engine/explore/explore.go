// Package explore is the stateless, deviation-bounded search over controlled
// executions (DESIGN §2.2) plus the worker side of the driver protocol.
package explore

import (
	"bufio"
	"crypto/sha1"
	"encoding/binary"
	"encoding/hex"
	"encoding/json"
	"fmt"
	"os"
	"regexp"
	"runtime"
	"sort"
	"strings"
	"sync/atomic"
	"time"

	"verif/engine/vnet"
	"verif/engine/vs"
)

// Params selects one instance of a scenario family.
type Params map[string]string

func (p Params) Key() string {
	ks := make([]string, 0, len(p))
	for k := range p {
		ks = append(ks, k)
	}
	sort.Strings(ks)
	var sb strings.Builder
	for i, k := range ks {
		if i > 0 {
			sb.WriteByte(',')
		}
		sb.WriteString(k + "=" + p[k])
	}
	return sb.String()
}

// Scenario is a closed driver for the explorer.
type Scenario struct {
	Name    string
	Setup   func(x *vs.Exec, p Params) // before the body starts: domains, faults
	Body    func(x *vs.Exec, p Params) // runs in domain "host"
	Check   func(x *vs.Exec, p Params) // after the end of the execution: oracles
	Horizon time.Duration
	Settle  time.Duration
	// Instances enumerates the parameter space for a tier ("quick"/"thorough").
	Instances func(tier string) []Params
	// Conform lists instances whose default schedule is also run free (real time, real
	// sockets) and compared observation by observation (environment-model conformance).
	Conform func() []Params
	// ConformWait bounds a free run (default 40 s).
	ConformWait time.Duration
}

// ObsRec is the outcome of one instance, for conformance comparison.
type ObsRec struct {
	Scen   string         `json:"scen"`
	Params Params         `json:"params"`
	Obs    []string       `json:"obs"`
	Viol   []vs.Violation `json:"viol,omitempty"`
}

// RunFreeOne runs one instance of s outside any bubble.
func RunFreeOne(s *Scenario, p Params) *ObsRec {
	w := s.ConformWait
	if w == 0 {
		w = 40 * time.Second
	}
	x := vs.RunFree(vs.Options{Horizon: s.Horizon, Settle: s.Settle, AtEnd: func(x *vs.Exec) {
		if s.Check != nil {
			s.Check(x, p)
		}
	}}, func(x *vs.Exec) {
		if s.Setup != nil {
			s.Setup(x, p)
		}
	}, func(x *vs.Exec) { x.SetFine(p["fine"] == "1"); x.SetNoTime(p["notime"] == "1"); s.Body(x, p) }, w)
	obs := x.Observations()
	sort.Strings(obs)
	return &ObsRec{Scen: s.Name, Params: p, Obs: obs, Viol: x.Violations()}
}

var registry = map[string]*Scenario{}

// Register adds a scenario.
func Register(s *Scenario) { registry[s.Name] = s }

// Get returns a scenario by name.
func Get(name string) *Scenario { return registry[name] }

// Names lists the registered scenarios.
func Names() []string {
	var n []string
	for k := range registry {
		n = append(n, k)
	}
	sort.Strings(n)
	return n
}

// Task is one unit of work sent to a worker.
type Task struct {
	ID     int    `json:"id"`
	Scen   string `json:"scen"`
	Params Params `json:"params"`
	Prefix []int  `json:"prefix"`
	Hash   uint64 `json:"hash"`
	// Depth: deviations the subtree below Prefix may still take. With
	// Expand the worker runs only the node and returns its children.
	Depth  int  `json:"depth"`
	Expand bool `json:"expand"`
	Trace  bool `json:"trace"`
	// Batch: run each of these parameter instances once (depth 0) instead of Params
	Batch []Params `json:"batch,omitempty"`
	// WantObs: return the sorted observation list of every execution (conformance)
	WantObs bool `json:"wantobs,omitempty"`
	// Instances: ask for the parameter instances of a tier instead of running
	Instances string `json:"instances,omitempty"`
	// Known: matchers of known findings applicable to this scenario instance;
	// executions all of whose violations match are counted, not stored.
	Known []Known `json:"known,omitempty"`
}

// Known is a structural matcher for a listed finding.
type Known struct {
	Idx   int    `json:"idx"`
	Class string `json:"class"`
	Msg   string `json:"msg"`
	re    *regexp.Regexp
}

func (k *Known) match(v vs.Violation) bool {
	if k.Class != "" && k.Class != v.Class {
		return false
	}
	if k.Msg == "" {
		return true
	}
	if k.re == nil {
		k.re = regexp.MustCompile(k.Msg)
	}
	return k.re.MatchString(v.Msg)
}

// Child is a not-yet-explored node.
type Child struct {
	Prefix []int  `json:"prefix"`
	Hash   uint64 `json:"hash"`
}

// Found is a violating execution.
type Found struct {
	Scen    string         `json:"scen"`
	Params  Params         `json:"params"`
	Choices []int          `json:"choices"`
	Viol    []vs.Violation `json:"violations"`
	Steps   []vs.Step      `json:"steps,omitempty"`
	Obs     []string       `json:"obs,omitempty"`
	Blocked []string       `json:"blocked,omitempty"`
	Faults  []string       `json:"faults,omitempty"`
	Devs    int            `json:"devs"`
}

// Result is a worker's answer to a task.
type Result struct {
	ID          int            `json:"id"`
	Execs       int            `json:"execs"`
	Steps       int            `json:"steps"`
	Redundant   int            `json:"redundant"`
	Diverged    int            `json:"diverged"`
	DivMsg      string         `json:"divmsg,omitempty"`
	Children    []Child        `json:"children,omitempty"`
	Found       []Found        `json:"found,omitempty"`
	Outcomes    map[string]int `json:"outcomes,omitempty"`
	Sigs        []uint64       `json:"sigs,omitempty"`
	Sample      *Found         `json:"sample,omitempty"`
	Instances   []Params       `json:"instances,omitempty"`
	MaxDevs     int            `json:"maxdevs"`
	Contended   int            `json:"contended"` // executions with >=1 decision point having >=2 runnable goroutines
	ObsList     []ObsRec       `json:"obslist,omitempty"`
	KnownHits   map[int]int    `json:"knownhits,omitempty"` // finding index -> violating executions fully explained by it
	KnownSample map[int]*Found `json:"knownsample,omitempty"`
	Recycle     bool           `json:"recycle,omitempty"`
	Err         string         `json:"err,omitempty"`
}

type worker struct {
	seenSigs map[uint64]struct{}
	journal  *os.File
	res      *Result
	task     *Task
	maxFound int
}

// Progress is bumped on every execution; the watchdog (outside the bubble) reads it.
var Progress atomic.Int64

// Busy is true while a task is being served.
var Busy atomic.Bool

func (w *worker) journalRun(t *Task, prefix []int) {
	Progress.Add(1)
	if w.journal == nil {
		return
	}
	b, _ := json.Marshal(map[string]any{"scen": t.Scen, "params": t.Params, "prefix": prefix})
	b = append(b, '\n')
	w.journal.Truncate(0)
	w.journal.WriteAt(b, 0)
}

// RunOne performs one execution of scenario s.
func RunOne(s *Scenario, p Params, prefix []int, hash uint64, trace bool) *vs.Exec {
	x := vs.Run(vs.Options{Prefix: prefix, Trace: trace, Horizon: s.Horizon, Settle: s.Settle, CheckHash: hash,
		AtEnd: func(x *vs.Exec) {
			if s.Check != nil {
				s.Check(x, p)
			}
		}},
		func(x *vs.Exec) {
			x.OnCleanup(vnet.Reset)
			if s.Setup != nil {
				s.Setup(x, p)
			}
		},
		func(x *vs.Exec) { x.SetFine(p["fine"] == "1"); x.SetNoTime(p["notime"] == "1"); s.Body(x, p) })
	return x
}

func outcomeKey(x *vs.Exec) string {
	h := sha1.New()
	obs := x.Observations()
	for _, o := range obs {
		h.Write([]byte(o))
		h.Write([]byte{0})
	}
	for _, v := range x.Violations() {
		h.Write([]byte(v.Class + v.Msg))
	}
	return hex.EncodeToString(h.Sum(nil)[:6])
}

func (w *worker) node(s *Scenario, prefix []int, hash uint64, depth int, expand bool) {
	t := w.task
	w.journalRun(t, prefix)
	var x *vs.Exec
	for attempt := 0; ; attempt++ {
		x = RunOne(s, t.Params, prefix, hash, t.Trace)
		if x.Diverged == "" || attempt >= 2 {
			break
		}
	}
	r := w.res
	r.Execs++
	if x.Diverged != "" {
		r.Diverged++
		r.DivMsg = fmt.Sprintf("%s [%s %s prefix=%v]", x.Diverged, t.Scen, t.Params.Key(), prefix)
		if r.Diverged == 1 {
			// diagnose: trace the child and its parent in this worker and report the first difference
			c := RunOne(s, t.Params, prefix, 0, true)
			par := append([]int(nil), prefix...)
			par[len(par)-1] = 0
			pa := RunOne(s, t.Params, par, 0, true)
			n := len(prefix)
			fmt.Fprintf(os.Stderr, "DIVERGENCE %s\n", r.DivMsg)
			for i := 0; i < n && i < len(c.Steps) && i < len(pa.Steps); i++ {
				if c.Steps[i].H != pa.Steps[i].H || c.Steps[i].Alts != pa.Steps[i].Alts {
					fmt.Fprintf(os.Stderr, " first difference child/parent at %d:\n  child : %s | %s\n   %s\n  parent: %s | %s\n   %s\n", i, c.Steps[i].Sig, c.Steps[i].Alts, c.Steps[i].H, pa.Steps[i].Sig, pa.Steps[i].Alts, pa.Steps[i].H)
					break
				}
			}
			if n-1 < len(pa.Steps) {
				fmt.Fprintf(os.Stderr, " parent here at %d: %s | %s\n   %s (expected hash %x)\n", n-1, pa.Steps[n-1].Sig, pa.Steps[n-1].Alts, pa.Steps[n-1].H, hash)
			}
		}
		return
	}
	if x.Redundant {
		r.Redundant++
		return
	}
	r.Steps += len(x.Steps)
	for sg := range x.Sigs() {
		if _, ok := w.seenSigs[sg]; !ok {
			w.seenSigs[sg] = struct{}{}
			r.Sigs = append(r.Sigs, sg)
		}
	}
	if x.Devs > r.MaxDevs {
		r.MaxDevs = x.Devs
	}
	if nt, ok := x.Data["nontrivial"].(bool); ok {
		if nt {
			r.Contended++
		}
	} else {
		for _, st := range x.Steps {
			if st.NAlts >= 2 {
				r.Contended++
				break
			}
		}
	}
	r.Outcomes[outcomeKey(x)]++
	if t.WantObs {
		obs := x.Observations()
		sort.Strings(obs)
		r.ObsList = append(r.ObsList, ObsRec{Scen: t.Scen, Params: t.Params, Obs: obs, Viol: x.Violations()})
	}
	mk := func() Found {
		return Found{Scen: t.Scen, Params: t.Params, Choices: trim(x.Choices()), Viol: x.Violations(),
			Steps: x.Steps, Obs: x.Observations(), Blocked: x.EndBlocked, Faults: x.Faulted, Devs: x.Devs}
	}
	if vv := x.Violations(); len(vv) > 0 && allKnown(t.Known, vv) >= 0 {
		if r.KnownHits == nil {
			r.KnownHits = map[int]int{}
			r.KnownSample = map[int]*Found{}
		}
		for _, v := range vv {
			for i := range t.Known {
				if t.Known[i].match(v) {
					k := t.Known[i].Idx
					r.KnownHits[k]++
					if r.KnownSample[k] == nil {
						f := mk()
						f.Steps = nil
						r.KnownSample[k] = &f
					}
					break
				}
			}
		}
	} else if len(vv) > 0 {
		if len(r.Found) < w.maxFound {
			f := mk()
			if !t.Trace {
				f.Steps = nil
			}
			r.Found = append(r.Found, f)
		}
	} else if r.Sample == nil || (x.Devs > r.Sample.Devs) {
		f := mk()
		if !t.Trace {
			f.Steps = nil
		}
		if len(f.Obs) > 12 {
			f.Obs = f.Obs[:12]
		}
		r.Sample = &f
	}
	if depth <= 0 {
		return
	}
	ch := x.Choices()
	for i := len(prefix); i < len(x.Steps); i++ {
		for _, a := range x.ChildAlts(i) {
			cp := make([]int, i+1)
			copy(cp, ch[:i])
			cp[i] = a
			h := x.HashAfter(i)
			if expand {
				r.Children = append(r.Children, Child{Prefix: cp, Hash: h})
			} else {
				w.node(s, cp, h, depth-1, false)
			}
		}
	}
}

// allKnown returns the index of a known finding when every violation of the
// execution is matched by listed findings (the index of the first one), else -1.
func allKnown(ks []Known, vv []vs.Violation) int {
	first := -1
	for _, v := range vv {
		ok := false
		for i := range ks {
			if ks[i].match(v) {
				ok = true
				if first < 0 {
					first = ks[i].Idx
				}
				break
			}
		}
		if !ok {
			return -1
		}
	}
	return first
}

func trim(c []int) []int {
	n := len(c)
	for n > 0 && c[n-1] == 0 {
		n--
	}
	return c[:n]
}

// WorkerMain serves tasks read from stdin (JSON lines) until EOF. It must be
// called from the root goroutine of a synctest bubble and never returns
// normally (it exits the process).
func WorkerMain() {
	vs.SetInBubble()
	w := &worker{seenSigs: map[uint64]struct{}{}, maxFound: 5}
	if jf := os.Getenv("VERIF_JOURNAL"); jf != "" {
		f, err := os.OpenFile(jf, os.O_CREATE|os.O_RDWR|os.O_TRUNC, 0o644)
		if err == nil {
			w.journal = f
		}
	}
	in := bufio.NewReaderSize(os.Stdin, 1<<20)
	out := bufio.NewWriterSize(os.Stdout, 1<<20)
	enc := json.NewEncoder(out)
	total := 0
	for {
		line, err := in.ReadBytes('\n')
		if len(line) == 0 && err != nil {
			break
		}
		var t Task
		if e := json.Unmarshal(line, &t); e != nil {
			fmt.Fprintf(os.Stderr, "worker: bad task: %v\n", e)
			os.Exit(4)
		}
		Busy.Store(true)
		res := &Result{ID: t.ID, Outcomes: map[string]int{}}
		s := Get(t.Scen)
		switch {
		case s == nil:
			res.Err = "unknown scenario " + t.Scen
		case t.Instances != "":
			res.Instances = s.Instances(t.Instances)
		case len(t.Batch) > 0:
			w.res = res
			for _, ps := range t.Batch {
				bt := t
				bt.Params = ps
				bt.Batch = nil
				w.task = &bt
				w.node(s, nil, 0, 0, false)
			}
		default:
			w.res, w.task = res, &t
			w.node(s, t.Prefix, t.Hash, t.Depth, t.Expand)
		}
		total += res.Execs
		if runtime.NumGoroutine() > 1500 {
			res.Recycle = true
		}
		enc.Encode(res)
		out.Flush()
		Busy.Store(false)
		if res.Recycle {
			break
		}
	}
	out.Flush()
	os.Exit(0)
}

// SigBytes encodes signatures compactly (unused helper kept for tools).
func SigBytes(s []uint64) []byte {
	b := make([]byte, 8*len(s))
	for i, v := range s {
		binary.LittleEndian.PutUint64(b[8*i:], v)
	}
	return b
}
