// Package vsyncd ("durable sync") replaces package sync in the few
// *dependency* packages whose locks can be held while they call back into
// instrumented go-plugin code (google.golang.org/grpc: Server.mu is held
// around Listener.Close). Inside a bubble its locks are channel based, so a
// goroutine waiting for them is durably blocked and cannot stall
// synctest.Wait while the holder is parked at a scheduling point. They are
// never scheduling points themselves. Outside a bubble they are package sync.
package vsyncd

import (
	"sync"
	"sync/atomic"

	"verif/engine/vs"
)

type Locker = sync.Locker
type Pool = sync.Pool
type Map = sync.Map
type Cond = sync.Cond
type WaitGroup = sync.WaitGroup

func NewCond(l Locker) *Cond { return sync.NewCond(l) }

func OnceFunc(f func()) func() {
	var o Once
	return func() { o.Do(f) }
}

type Mutex struct {
	real sync.Mutex
	sem  atomic.Pointer[chan struct{}]
}

func (m *Mutex) ch() chan struct{} {
	if p := m.sem.Load(); p != nil {
		return *p
	}
	c := make(chan struct{}, 1)
	if m.sem.CompareAndSwap(nil, &c) {
		return c
	}
	return *m.sem.Load()
}

func (m *Mutex) Lock() {
	if !vs.InBubble() {
		m.real.Lock()
		return
	}
	m.ch() <- struct{}{}
}

func (m *Mutex) TryLock() bool {
	if !vs.InBubble() {
		return m.real.TryLock()
	}
	select {
	case m.ch() <- struct{}{}:
		return true
	default:
		return false
	}
}

func (m *Mutex) Unlock() {
	if !vs.InBubble() {
		m.real.Unlock()
		return
	}
	select {
	case <-m.ch():
	default:
		panic("vsyncd: unlock of unlocked mutex")
	}
}

// RWMutex: readers share, writers exclude; waiting is on a channel.
type RWMutex struct {
	real    sync.RWMutex
	mu      sync.Mutex // brief, never held while blocking
	readers int
	writer  bool
	wait    chan struct{}
}

func (m *RWMutex) waitCh() chan struct{} {
	if m.wait == nil {
		m.wait = make(chan struct{})
	}
	return m.wait
}

func (m *RWMutex) change() {
	if m.wait != nil {
		close(m.wait)
		m.wait = nil
	}
}

func (m *RWMutex) Lock() {
	if !vs.InBubble() {
		m.real.Lock()
		return
	}
	for {
		m.mu.Lock()
		if !m.writer && m.readers == 0 {
			m.writer = true
			m.mu.Unlock()
			return
		}
		c := m.waitCh()
		m.mu.Unlock()
		<-c
	}
}

func (m *RWMutex) Unlock() {
	if !vs.InBubble() {
		m.real.Unlock()
		return
	}
	m.mu.Lock()
	m.writer = false
	m.change()
	m.mu.Unlock()
}

func (m *RWMutex) RLock() {
	if !vs.InBubble() {
		m.real.RLock()
		return
	}
	for {
		m.mu.Lock()
		if !m.writer {
			m.readers++
			m.mu.Unlock()
			return
		}
		c := m.waitCh()
		m.mu.Unlock()
		<-c
	}
}

func (m *RWMutex) RUnlock() {
	if !vs.InBubble() {
		m.real.RUnlock()
		return
	}
	m.mu.Lock()
	m.readers--
	m.change()
	m.mu.Unlock()
}

func (m *RWMutex) RLocker() Locker { return (*rlocker)(m) }

type rlocker RWMutex

func (r *rlocker) Lock()   { (*RWMutex)(r).RLock() }
func (r *rlocker) Unlock() { (*RWMutex)(r).RUnlock() }

type Once struct {
	m    Mutex
	done atomic.Bool
}

func (o *Once) Do(f func()) {
	if o.done.Load() {
		return
	}
	o.m.Lock()
	defer o.m.Unlock()
	if !o.done.Load() {
		defer o.done.Store(true)
		f()
	}
}

func OnceValue[T any](f func() T) func() T {
	var o Once
	var v T
	return func() T {
		o.Do(func() { v = f() })
		return v
	}
}

func OnceValues[T1, T2 any](f func() (T1, T2)) func() (T1, T2) {
	var o Once
	var v1 T1
	var v2 T2
	return func() (T1, T2) {
		o.Do(func() { v1, v2 = f() })
		return v1, v2
	}
}
