// Package vnet replaces package net in instrumented go-plugin code. Inside a
// controlled execution Listen/Dial use an in-memory registry of listeners and
// buffered duplex byte pipes that model Unix/TCP stream sockets (reliable,
// ordered, finite buffer, EOF on close, deadlines); every endpoint belongs to
// the failure domain of the goroutine that created it so that a crash closes
// it and a freeze stops its reads. Outside an execution it is package net.
package vnet

import (
	"errors"
	"fmt"
	"io"
	"net"
	"os"
	"sort"
	"strings"
	"sync"
	"sync/atomic"
	"syscall"
	"time"

	"verif/engine/vs"
)

type (
	Conn         = net.Conn
	Listener     = net.Listener
	Addr         = net.Addr
	TCPAddr      = net.TCPAddr
	UnixAddr     = net.UnixAddr
	TCPConn      = net.TCPConn
	UnixConn     = net.UnixConn
	IP           = net.IP
	Error        = net.Error
	OpError      = net.OpError
	Dialer       = net.Dialer
	TCPListener  = net.TCPListener
	UnixListener = net.UnixListener
)

var ErrClosed = net.ErrClosed

func ResolveTCPAddr(n, a string) (*net.TCPAddr, error)   { return net.ResolveTCPAddr(n, a) }
func ResolveUnixAddr(n, a string) (*net.UnixAddr, error) { return net.ResolveUnixAddr(n, a) }
func JoinHostPort(h, p string) string                    { return net.JoinHostPort(h, p) }
func SplitHostPort(hp string) (string, string, error)    { return net.SplitHostPort(hp) }
func Pipe() (net.Conn, net.Conn)                         { return net.Pipe() }
func ParseIP(s string) net.IP                            { return net.ParseIP(s) }

// BufSize is the per-direction socket buffer of a virtual connection.
const BufSize = 208 * 1024

type registry struct {
	mu       sync.Mutex
	ls       map[string]*listener
	nextPort int
	conns    []*conn
	dials    int
	files    []fileRec // socket marker files created since the last Reset
}

var reg = &registry{ls: map[string]*listener{}, nextPort: 20000}

// Namespaces, when on, gives every failure domain its own view of socket paths (a plugin in a
// container): a listener created by domain L is reachable from another domain D only under
// the address ViewPrefix(D)+path, which is what a runner's address translator produces.
var namespaces atomic.Bool

// SetNamespaces switches namespace isolation on or off (reset between executions).
func SetNamespaces(on bool) { namespaces.Store(on) }

// ViewPrefix is the prefix under which domain d sees other domains' socket paths.
func ViewPrefix(d string) string { return "/view-of-" + d }

// Reset closes every virtual endpoint (between executions).
func Reset() {
	namespaces.Store(false)
	reg.mu.Lock()
	ls := reg.ls
	cs := reg.conns
	fs := reg.files
	reg.ls = map[string]*listener{}
	reg.conns = nil
	reg.files = nil
	reg.mu.Unlock()
	for _, f := range fs {
		os.Remove(f.path) // what a crashed domain left behind
	}
	for _, l := range ls {
		l.close(true)
	}
	for _, c := range cs {
		c.Close()
	}
}

type fileRec struct {
	path string
	dom  *vs.Domain
}

// LeftFiles returns the socket files created by domains of execution exec that still exist
// (a listener that was closed properly has unlinked its file; a domain that crashed has not).
// Stragglers of earlier executions have no domain in this one and are not counted.
func LeftFiles(exec int64) []string {
	reg.mu.Lock()
	fs := append([]fileRec(nil), reg.files...)
	reg.mu.Unlock()
	var out []string
	for _, f := range fs {
		if f.dom == nil || f.dom.ExecID() != exec {
			continue
		}
		if _, err := os.Lstat(f.path); err == nil {
			out = append(out, f.dom.Name+" "+f.path)
		}
	}
	return out
}

// Open returns "domain network|address" of every listener of execution exec still registered.
func Open(exec int64) []string {
	reg.mu.Lock()
	defer reg.mu.Unlock()
	var out []string
	for k, l := range reg.ls {
		if l.dom == nil || l.dom.ExecID() != exec {
			continue
		}
		out = append(out, l.dom.Name+" "+k)
	}
	sort.Strings(out)
	return out
}

// Stats returns the number of open listeners and the dial count.
func Stats() (listeners int, dials int) {
	reg.mu.Lock()
	defer reg.mu.Unlock()
	return len(reg.ls), reg.dials
}

// Listening reports whether a virtual listener is registered at the address.
func Listening(network, address string) bool {
	reg.mu.Lock()
	defer reg.mu.Unlock()
	_, ok := reg.ls[network+"|"+address]
	return ok
}

type listener struct {
	network, address string
	addr             net.Addr
	backlog          chan *conn
	done             chan struct{}
	once             sync.Once
	dom              *vs.Domain
	file             string
}

// virtual: inside a bubble nothing may touch the real network (a goroutine
// blocked in real I/O is not durably blocked and would stall the bubble) —
// that includes stragglers running free during teardown.
func virtual() bool { return vs.InBubble() }

func Listen(network, address string) (net.Listener, error) {
	if !virtual() {
		return net.Listen(network, address)
	}
	l := &listener{network: network, backlog: make(chan *conn, 64), done: make(chan struct{}), dom: vs.CurDomain()}
	reg.mu.Lock()
	switch network {
	case "unix":
		if _, ok := reg.ls["unix|"+address]; ok {
			reg.mu.Unlock()
			return nil, &net.OpError{Op: "listen", Net: network, Err: syscall.EADDRINUSE}
		}
		l.address = address
		l.addr = &net.UnixAddr{Name: address, Net: "unix"}
		l.file = address
	case "tcp", "tcp4":
		a, err := net.ResolveTCPAddr(network, address)
		if err != nil {
			reg.mu.Unlock()
			return nil, err
		}
		if a.Port == 0 {
			reg.nextPort++
			a.Port = reg.nextPort
		}
		if a.IP == nil {
			a.IP = net.IPv4(127, 0, 0, 1)
		}
		l.address = a.String()
		l.addr = a
		network = "tcp"
		if _, ok := reg.ls["tcp|"+l.address]; ok {
			reg.mu.Unlock()
			return nil, &net.OpError{Op: "listen", Net: network, Err: syscall.EADDRINUSE}
		}
	default:
		reg.mu.Unlock()
		return nil, fmt.Errorf("vnet: unsupported network %q", network)
	}
	reg.ls[network+"|"+l.address] = l
	reg.mu.Unlock()
	if l.file != "" {
		// marker standing for the socket inode, so that file-removal logic and
		// leak checks see what they would see with a real socket
		if f, err := os.OpenFile(l.file, os.O_CREATE|os.O_EXCL|os.O_WRONLY, 0o600); err == nil {
			f.Close()
			reg.mu.Lock()
			reg.files = append(reg.files, fileRec{l.file, l.dom})
			reg.mu.Unlock()
		} else {
			reg.mu.Lock()
			delete(reg.ls, network+"|"+l.address)
			reg.mu.Unlock()
			return nil, &net.OpError{Op: "listen", Net: network, Err: err}
		}
	}
	if l.dom != nil {
		l.dom.AddKill(func() { l.close(false) })
	}
	return l, nil
}

func (l *listener) Accept() (net.Conn, error) {
	for {
		select {
		case <-l.done:
			return nil, &net.OpError{Op: "accept", Net: l.network, Addr: l.addr, Err: net.ErrClosed}
		default:
		}
		select {
		case c := <-l.backlog:
			return c, nil
		case <-l.done:
		}
	}
}

func (l *listener) close(unlink bool) error {
	err := error(&net.OpError{Op: "close", Net: l.network, Addr: l.addr, Err: net.ErrClosed})
	l.once.Do(func() {
		err = nil
		close(l.done)
		reg.mu.Lock()
		k := l.network + "|" + l.address
		if l.network != "unix" {
			k = "tcp|" + l.address
		}
		if reg.ls[k] == l {
			delete(reg.ls, k)
		}
		reg.mu.Unlock()
		if unlink && l.file != "" {
			os.Remove(l.file) // Go's UnixListener unlinks its socket file on Close
		}
		for {
			select {
			case c := <-l.backlog:
				c.Close()
				continue
			default:
			}
			break
		}
	})
	return err
}

func (l *listener) Close() error   { return l.close(true) }
func (l *listener) Addr() net.Addr { return l.addr }

func Dial(network, address string) (net.Conn, error) {
	if !virtual() {
		return net.Dial(network, address)
	}
	k := network + "|" + address
	if network == "tcp" || network == "tcp4" {
		a, err := net.ResolveTCPAddr(network, address)
		if err != nil {
			return nil, &net.OpError{Op: "dial", Net: network, Err: err}
		}
		if a.IP == nil {
			a.IP = net.IPv4(127, 0, 0, 1)
		}
		k = "tcp|" + a.String()
	}
	cd := vs.CurDomain()
	if namespaces.Load() && network == "unix" && cd != nil {
		// strip this domain's view prefix; without it only the domain's own listeners are visible
		pre := ViewPrefix(cd.Name)
		if strings.HasPrefix(address, pre) {
			k = network + "|" + strings.TrimPrefix(address, pre)
		} else {
			reg.mu.Lock()
			l := reg.ls[k]
			reg.mu.Unlock()
			if l != nil && l.dom != nil && l.dom != cd {
				return nil, &net.OpError{Op: "dial", Net: network, Err: syscall.ENOENT} // another namespace's path
			}
		}
	}
	reg.mu.Lock()
	reg.dials++
	l := reg.ls[k]
	reg.mu.Unlock()
	if l == nil {
		return nil, &net.OpError{Op: "dial", Net: network, Err: syscall.ECONNREFUSED}
	}
	if namespaces.Load() && network == "unix" && cd != nil && l.dom != nil && l.dom != cd && !strings.HasPrefix(address, ViewPrefix(cd.Name)) {
		return nil, &net.OpError{Op: "dial", Net: network, Err: syscall.ENOENT}
	}
	a, b := newPair(l.addr, cd, l.dom)
	select {
	case l.backlog <- b:
	default:
		return nil, &net.OpError{Op: "dial", Net: network, Err: syscall.ECONNREFUSED}
	}
	select {
	case <-l.done:
		a.Close()
		b.Close()
		return nil, &net.OpError{Op: "dial", Net: network, Err: syscall.ECONNREFUSED}
	default:
	}
	return a, nil
}

func DialTimeout(network, address string, _ time.Duration) (net.Conn, error) {
	return Dial(network, address)
}

// half is one direction of a connection.
type half struct {
	mu      sync.Mutex
	buf     []byte
	wclosed bool // no more data will be written (EOF after drain)
	rclosed bool // the reader is gone: writes fail
	sig     chan struct{}
}

func newHalf() *half { return &half{sig: make(chan struct{})} }

func (h *half) notify() {
	close(h.sig)
	h.sig = make(chan struct{})
}

type conn struct {
	rd, wr       *half
	local, peer  net.Addr
	dom          *vs.Domain // owner of this end
	mu           sync.Mutex
	rdl, wdl     time.Time
	dlsig        chan struct{}
	closed       bool
	BytesWritten int64
}

type pipeAddr struct{ s string }

func (a pipeAddr) Network() string { return "vnet" }
func (a pipeAddr) String() string  { return a.s }

// NewPair returns a connected pair of virtual connections owned by the given
// domains (for harnesses that need a raw connection).
func NewPair(da, db *vs.Domain) (net.Conn, net.Conn) {
	if !virtual() {
		// free-running (conformance) mode: a real Unix socket pair
		dir, err := os.MkdirTemp("", "vnetpair")
		if err == nil {
			defer os.RemoveAll(dir)
			if l, err := net.Listen("unix", dir+"/s"); err == nil {
				defer l.Close()
				ch := make(chan net.Conn, 1)
				go func() { c, _ := l.Accept(); ch <- c }()
				if a, err := net.Dial("unix", dir+"/s"); err == nil {
					if b := <-ch; b != nil {
						return a, b
					}
				}
			}
		}
		return net.Pipe()
	}
	return newPair(pipeAddr{"pipe"}, da, db)
}

func newPair(laddr net.Addr, da, db *vs.Domain) (*conn, *conn) {
	h1, h2 := newHalf(), newHalf()
	a := &conn{rd: h1, wr: h2, local: pipeAddr{"client"}, peer: laddr, dom: da, dlsig: make(chan struct{})}
	b := &conn{rd: h2, wr: h1, local: laddr, peer: pipeAddr{"client"}, dom: db, dlsig: make(chan struct{})}
	reg.mu.Lock()
	reg.conns = append(reg.conns, a, b)
	reg.mu.Unlock()
	if da != nil {
		da.AddKill(func() { a.Close() })
	}
	if db != nil {
		db.AddKill(func() { b.Close() })
	}
	return a, b
}

type timeoutErr struct{}

func (timeoutErr) Error() string   { return "i/o timeout" }
func (timeoutErr) Timeout() bool   { return true }
func (timeoutErr) Temporary() bool { return true }
func (timeoutErr) Is(t error) bool { return t == os.ErrDeadlineExceeded }

func (c *conn) Read(p []byte) (int, error) {
	for {
		c.mu.Lock()
		if c.closed {
			c.mu.Unlock()
			return 0, &net.OpError{Op: "read", Net: "vnet", Err: net.ErrClosed}
		}
		dl := c.rdl
		dls := c.dlsig
		c.mu.Unlock()
		frozen := c.dom != nil && c.dom.Frozen.Load()
		h := c.rd
		h.mu.Lock()
		if !frozen {
			if len(h.buf) > 0 {
				n := copy(p, h.buf)
				h.buf = h.buf[n:]
				if len(h.buf) == 0 {
					h.buf = nil
				}
				h.notify()
				h.mu.Unlock()
				return n, nil
			}
			if h.wclosed {
				h.mu.Unlock()
				return 0, io.EOF
			}
			if len(p) == 0 {
				h.mu.Unlock()
				return 0, nil
			}
		}
		sig := h.sig
		h.mu.Unlock()
		if err := wait(sig, dls, dl); err != nil {
			return 0, &net.OpError{Op: "read", Net: "vnet", Err: err}
		}
	}
}

func wait(sig, dls chan struct{}, dl time.Time) error {
	if dl.IsZero() {
		select {
		case <-sig:
		case <-dls:
		}
		return nil
	}
	d := time.Until(dl)
	if d <= 0 {
		return timeoutErr{}
	}
	t := time.NewTimer(d)
	defer t.Stop()
	select {
	case <-sig:
	case <-dls:
	case <-t.C:
		return timeoutErr{}
	}
	return nil
}

func (c *conn) Write(p []byte) (int, error) {
	total := 0
	for len(p) > 0 {
		c.mu.Lock()
		if c.closed {
			c.mu.Unlock()
			return total, &net.OpError{Op: "write", Net: "vnet", Err: net.ErrClosed}
		}
		dl := c.wdl
		dls := c.dlsig
		c.mu.Unlock()
		h := c.wr
		if c.dom != nil && c.dom.Frozen.Load() {
			// a stopped process writes nothing
			if err := wait(h.sig, dls, dl); err != nil {
				return total, &net.OpError{Op: "write", Net: "vnet", Err: err}
			}
			continue
		}
		h.mu.Lock()
		if h.rclosed || h.wclosed {
			h.mu.Unlock()
			return total, &net.OpError{Op: "write", Net: "vnet", Err: syscall.EPIPE}
		}
		if room := BufSize - len(h.buf); room > 0 {
			n := len(p)
			if n > room {
				n = room
			}
			h.buf = append(h.buf, p[:n]...)
			p = p[n:]
			total += n
			c.BytesWritten += int64(n)
			h.notify()
			h.mu.Unlock()
			continue
		}
		sig := h.sig
		h.mu.Unlock()
		if err := wait(sig, dls, dl); err != nil {
			return total, &net.OpError{Op: "write", Net: "vnet", Err: err}
		}
	}
	return total, nil
}

func (c *conn) Close() error {
	c.mu.Lock()
	if c.closed {
		c.mu.Unlock()
		return &net.OpError{Op: "close", Net: "vnet", Err: net.ErrClosed}
	}
	c.closed = true
	close(c.dlsig)
	c.dlsig = make(chan struct{})
	c.mu.Unlock()
	c.wr.mu.Lock()
	c.wr.wclosed = true
	c.wr.notify()
	c.wr.mu.Unlock()
	c.rd.mu.Lock()
	c.rd.rclosed = true
	c.rd.buf = nil
	c.rd.notify()
	c.rd.mu.Unlock()
	return nil
}

// CloseWrite half-closes the connection (used by TLS close_notify paths).
func (c *conn) CloseWrite() error {
	c.wr.mu.Lock()
	c.wr.wclosed = true
	c.wr.notify()
	c.wr.mu.Unlock()
	return nil
}

func (c *conn) LocalAddr() net.Addr  { return c.local }
func (c *conn) RemoteAddr() net.Addr { return c.peer }
func (c *conn) SetDeadline(t time.Time) error {
	c.mu.Lock()
	c.rdl, c.wdl = t, t
	close(c.dlsig)
	c.dlsig = make(chan struct{})
	c.mu.Unlock()
	return nil
}
func (c *conn) SetReadDeadline(t time.Time) error {
	c.mu.Lock()
	c.rdl = t
	close(c.dlsig)
	c.dlsig = make(chan struct{})
	c.mu.Unlock()
	return nil
}
func (c *conn) SetWriteDeadline(t time.Time) error {
	c.mu.Lock()
	c.wdl = t
	close(c.dlsig)
	c.dlsig = make(chan struct{})
	c.mu.Unlock()
	return nil
}

var _ = errors.New

// Pipe end types for process stdio models.
type pipeR struct {
	h   *half
	dom *vs.Domain
}
type pipeW struct {
	h   *half
	cap int
}

// NewPipe returns a unidirectional buffered pipe (an OS pipe model: capacity
// bytes of buffer, writers block when it is full, EOF after the write end is
// closed and the buffer drained). rdom is the domain that reads from it.
func NewPipe(capacity int, rdom *vs.Domain) (io.ReadCloser, io.WriteCloser) {
	h := newHalf()
	return &pipeR{h: h, dom: rdom}, &pipeW{h: h, cap: capacity}
}

func (p *pipeR) Read(b []byte) (int, error) {
	for {
		h := p.h
		h.mu.Lock()
		if h.rclosed {
			h.mu.Unlock()
			return 0, os.ErrClosed
		}
		if len(h.buf) > 0 {
			n := copy(b, h.buf)
			h.buf = h.buf[n:]
			if len(h.buf) == 0 {
				h.buf = nil
			}
			h.notify()
			h.mu.Unlock()
			return n, nil
		}
		if h.wclosed {
			h.mu.Unlock()
			return 0, io.EOF
		}
		sig := h.sig
		h.mu.Unlock()
		<-sig
	}
}

func (p *pipeR) Close() error {
	p.h.mu.Lock()
	p.h.rclosed = true
	p.h.buf = nil
	p.h.notify()
	p.h.mu.Unlock()
	return nil
}

func (p *pipeW) Write(b []byte) (int, error) {
	total := 0
	for len(b) > 0 {
		h := p.h
		h.mu.Lock()
		if h.rclosed || h.wclosed {
			h.mu.Unlock()
			return total, syscall.EPIPE
		}
		if room := p.cap - len(h.buf); room > 0 {
			n := len(b)
			if n > room {
				n = room
			}
			h.buf = append(h.buf, b[:n]...)
			b = b[n:]
			total += n
			h.notify()
			h.mu.Unlock()
			continue
		}
		sig := h.sig
		h.mu.Unlock()
		<-sig
	}
	return total, nil
}

func (p *pipeW) Close() error {
	p.h.mu.Lock()
	p.h.wclosed = true
	p.h.notify()
	p.h.mu.Unlock()
	return nil
}

// Buffered reports how many bytes sit unread in the pipe.
func Buffered(w io.WriteCloser) int {
	p, ok := w.(*pipeW)
	if !ok {
		return 0
	}
	p.h.mu.Lock()
	defer p.h.mu.Unlock()
	return len(p.h.buf)
}
