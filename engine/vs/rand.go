package vs

import (
	"math/rand"
	"sync"
)

// Rng is the deterministic random source handed to instrumented dependencies.
type Rng = rand.Rand

var (
	rngMu sync.Mutex
	rng   = rand.New(rand.NewSource(1))
)

// Rand runs f with the process-wide deterministic source, which Run re-seeds
// at the start of every execution.
func Rand(f func(r *Rng) any) any {
	rngMu.Lock()
	defer rngMu.Unlock()
	return f(rng)
}

func reseed() {
	rngMu.Lock()
	rng = rand.New(rand.NewSource(1))
	rngMu.Unlock()
}
