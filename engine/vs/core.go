// Package vs is the run-time of the bubble explorer (DESIGN §2.2): scheduling
// points, controlled select, registered timers, fault alternatives and the
// quiescence-stepped scheduler. Instrumented go-plugin code (produced by
// engine/rewrite into a build overlay) calls into this package; outside an
// active execution every entry point degrades to the plain operation.
package vs

import (
	"fmt"
	"hash/fnv"
	"runtime"
	"sort"
	"strconv"
	"strings"
	"sync"
	"sync/atomic"
	"testing/synctest"
	"time"
	"unsafe"
)

// Kind of a parked operation.
type Kind uint8

const (
	KPoint Kind = iota
	KLock
	KSelect
)

// LockState is embedded in vsync primitives so that the explorer can tell
// whether a goroutine parked before Lock is enabled.
type LockState struct {
	Held    atomic.Int32 // >0: write-held; for RW: readers counted separately
	Readers atomic.Int32
}

type parked struct {
	gid    int64
	lid    int
	site   string
	kind   Kind
	lock   *LockState
	rlock  bool // read-lock request
	ncase  int
	hasDef bool
	cases  []Case
	dom    *Domain
	wake   chan int
}

// Domain is a failure domain (host, plugin, intruder...). Goroutines are
// assigned to a domain through a pprof label pointer that the Go runtime
// copies to every goroutine they start, including library goroutines.
type Domain struct {
	Name   string
	ptr    unsafe.Pointer
	Dead   atomic.Bool // crashed: endpoints closed, goroutines never released
	Frozen atomic.Bool // SIGSTOP: goroutines never released, reads never complete
	exec   int64
	OnKill []func() // callbacks run when the domain crashes (close endpoints...)
	mu     sync.Mutex
}

// AltKind enumerates the explorer's alternatives at a decision point.
type AltKind uint8

const (
	AGo AltKind = iota
	ASel
	ATime
	AFault
)

type alt struct {
	kind  AltKind
	p     *parked
	prio  int
	fault int
}

func (a alt) sig() string {
	switch a.kind {
	case AGo:
		return "g" + strconv.Itoa(a.p.lid) + "@" + a.p.site
	case ASel:
		return "s" + strconv.Itoa(a.p.lid) + "@" + a.p.site + "#" + strconv.Itoa(a.prio)
	case ATime:
		return "TIME"
	default:
		return "F" + strconv.Itoa(a.fault)
	}
}

// Fault is a scenario-declared environment fault offered as an alternative
// at every decision point until it has been injected.
type Fault struct {
	Name    string
	Inject  func(x *Exec)
	Enabled func(x *Exec) bool // optional
	done    bool
}

// Step is one recorded decision.
type Step struct {
	NAlts  int    `json:"n"`
	Choice int    `json:"c"`
	Sig    string `json:"s"`           // signature of the chosen alternative
	T      int64  `json:"t"`           // virtual ms since execution start
	Alts   string `json:"a,omitempty"` // all alternatives (only kept when tracing)
	// SelTaken: when the released goroutine was at a select, the clause it took
	// (-1 default, -2 none ready / blocked, -3 not a select)
	SelTaken int    `json:"k,omitempty"`
	H        string `json:"h,omitempty"`
	alts     []alt
}

// Violation is a property violation observed in one execution.
type Violation struct {
	Class string `json:"class"` // S, L, T, PANIC, ENGINE
	Msg   string `json:"msg"`
}

// Exec is one controlled execution.
type Exec struct {
	mu         sync.Mutex
	parkedL    []*parked
	lids       map[int64]int
	nextLid    int
	domains    map[unsafe.Pointer]*Domain
	domByName  map[string]*Domain
	timers     []time.Time
	faults     []*Fault
	free       atomic.Bool
	fine       atomic.Bool // function entries of the code under test are scheduling points too (FinePoint)
	noTime     bool        // no "a timer fires although a goroutine could run" alternatives (harness peers with timers of their own)
	bodyDone   atomic.Bool
	t0         time.Time
	lastLid    int
	prefix     []int // sparse: choice per position (dense slice, zeros beyond)
	Steps      []Step
	Trace      bool
	Devs       int // deviations taken
	TimeDevs   int // TIME deviations taken
	Faulted    []string
	Ended      bool
	FreeRun    bool         // RunFree: real time, no explorer
	Tracked    atomic.Int64 // calls the scenario expects to return (free-running mode waits for them)
	tornDown   bool
	ExecID     int64
	Redundant  bool // a select-priority alternative turned out not to be ready
	Diverged   string
	obs        []string
	viol       []Violation
	cleanups   []func()
	Horizon    time.Duration
	Settle     time.Duration
	sigs       map[uint64]struct{}
	hashAt     []uint64 // rolling hash before each position
	roll       uint64
	EndBlocked []string // description of goroutines still parked at the end
	MaxSteps   int
	stuck      bool
	selTaken   map[*parked]int
	// select bookkeeping: explorer asked for prio k on parked p; the goroutine reports the case taken
	pendingSel *selReq
	wg         sync.WaitGroup
	Data       map[string]any
	closed     map[any]struct{}
	timerChans map[uintptr]timerChan
	atomic     atomic.Bool
	prevParked map[*parked]bool
}

type timerChan struct {
	ch <-chan time.Time // keeps the channel alive so that its address is not reused
	dl time.Time
}

func (x *Exec) markClosed(ch any) {
	x.mu.Lock()
	x.closed[ch] = struct{}{}
	x.mu.Unlock()
}

func (x *Exec) isClosed(ch any) bool {
	x.mu.Lock()
	_, ok := x.closed[ch]
	x.mu.Unlock()
	return ok
}

func (x *Exec) timerDeadline(p uintptr) (time.Time, bool) {
	x.mu.Lock()
	t, ok := x.timerChans[p]
	x.mu.Unlock()
	return t.dl, ok
}

// Hold makes the execution atomic from here on: the explorer keeps scheduling
// canonically without offering alternatives or recording decision points
// (used around scenario set-up that is not the subject of the check).
func (x *Exec) Hold() { x.atomic.Store(true) }

// Release ends the atomic section started by Hold.
func (x *Exec) Release() {
	x.atomic.Store(false)
	Point("release")
}

type selReq struct {
	p     *parked
	prio  int
	taken int
	done  bool
}

var cur atomic.Pointer[Exec]
var execCounter atomic.Int64

// Active reports whether a controlled execution is in progress.
func Active() bool { return cur.Load() != nil }

// Cur returns the current execution or nil.
func Cur() *Exec { return cur.Load() }

func goid() int64 {
	var buf [40]byte
	n := runtime.Stack(buf[:], false)
	// "goroutine 123 ["
	s := buf[10:n]
	var id int64
	for _, c := range s {
		if c < '0' || c > '9' {
			break
		}
		id = id*10 + int64(c-'0')
	}
	return id
}

// Point is a scheduling point: the calling goroutine parks until the
// explorer releases it.
func Point(site string) {
	x := cur.Load()
	if x == nil {
		return
	}
	x.park(&parked{site: site, kind: KPoint})
}

// FinePoint is the scheduling point the rewriter puts at the entry of every function of the code under test (and of
// a few library entry points that consume caller-owned arguments). It is inert unless the execution asked for
// fine-grained preemption (SetFine): then a goroutine can be preempted between any two calls, which exposes
// read-modify-write sequences on shared data that involve no lock, channel or atomic operation at all.
func FinePoint(site string) {
	x := cur.Load()
	if x == nil || !x.fine.Load() {
		return
	}
	x.park(&parked{site: site, kind: KPoint})
}

// SetNoTime removes the timer-deviation alternatives from this execution's decision points.
func (x *Exec) SetNoTime(on bool) { x.noTime = on }

// SetFine switches fine-grained preemption points on or off for this execution.
func (x *Exec) SetFine(on bool) { x.fine.Store(on) }

// PointLock parks before acquiring a lock described by ls.
func PointLock(site string, ls *LockState, read bool) {
	x := cur.Load()
	if x == nil {
		return
	}
	x.park(&parked{site: site, kind: KLock, lock: ls, rlock: read})
}

func (x *Exec) park(p *parked) int {
	if x.free.Load() {
		return 0
	}
	d := x.domainOf()
	if d == nil {
		// goroutine of an earlier execution (or outside any domain): never controlled
		return 0
	}
	p.dom = d
	p.gid = goid()
	p.wake = make(chan int, 1)
	x.mu.Lock()
	if x.free.Load() {
		x.mu.Unlock()
		return 0
	}
	x.parkedL = append(x.parkedL, p)
	x.mu.Unlock()
	return <-p.wake
}

// Put stores a value in Data under the execution's lock. Harness goroutines must use it for writes: they
// usually run one at a time, but not during teardown, and a goroutine can be descheduled in the middle of a
// map write (GC assist), which makes a second writer die with "concurrent map writes".
func (x *Exec) Put(k string, v any) {
	x.mu.Lock()
	x.Data[k] = v
	x.mu.Unlock()
}

// Obs appends an observation to the execution's log (part of its outcome).
func (x *Exec) Obs(format string, a ...any) {
	s := fmt.Sprintf(format, a...)
	x.mu.Lock()
	x.obs = append(x.obs, s)
	x.mu.Unlock()
}

// Observations returns a copy of the observation log.
func (x *Exec) Observations() []string {
	x.mu.Lock()
	defer x.mu.Unlock()
	return append([]string(nil), x.obs...)
}

// Fail records a violation.
func (x *Exec) Fail(class, format string, a ...any) {
	s := fmt.Sprintf(format, a...)
	x.mu.Lock()
	x.viol = append(x.viol, Violation{class, s})
	x.mu.Unlock()
}

// Violations returns the violations recorded so far.
func (x *Exec) Violations() []Violation {
	x.mu.Lock()
	defer x.mu.Unlock()
	return append([]Violation(nil), x.viol...)
}

// Now is the virtual time since the execution started.
func (x *Exec) Now() time.Duration { return time.Since(x.t0) }

// OnCleanup registers a function run at teardown (free-running).
func (x *Exec) OnCleanup(f func()) {
	x.mu.Lock()
	if x.tornDown {
		// registered by a straggler after teardown: run at once
		x.mu.Unlock()
		go f()
		return
	}
	x.cleanups = append(x.cleanups, f)
	x.mu.Unlock()
}

// Over reports whether the execution has ended (teardown started).
func (x *Exec) Over() bool { return x.free.Load() }

// AddFault declares a fault alternative.
func (x *Exec) AddFault(f *Fault) { x.mu.Lock(); x.faults = append(x.faults, f); x.mu.Unlock() }

// BodyDone reports whether the scenario body returned.
func (x *Exec) BodyDone() bool { return x.bodyDone.Load() }

// Go starts a scenario goroutine in the named domain.
func (x *Exec) Go(dom string, f func()) {
	d := x.Domain(dom)
	x.wg.Add(1)
	go func() {
		defer x.wg.Done()
		d.enter()
		Point("start")
		f()
	}()
}

// Options for one execution.
type Options struct {
	Prefix    []int
	Trace     bool
	Horizon   time.Duration
	Settle    time.Duration
	MaxSteps  int
	CheckHash uint64        // expected rolling hash at position len(Prefix)-1 (0 = unchecked)
	AtEnd     func(x *Exec) // called at the end of the execution, before teardown
}

// Run performs one controlled execution of body (which runs in domain
// "host") and returns it. Must be called from the bubble's root goroutine.
func newExec(opt Options) *Exec {
	return &Exec{
		lids:       map[int64]int{},
		domains:    map[unsafe.Pointer]*Domain{},
		domByName:  map[string]*Domain{},
		prefix:     opt.Prefix,
		Trace:      opt.Trace,
		Horizon:    opt.Horizon,
		Settle:     opt.Settle,
		MaxSteps:   opt.MaxSteps,
		sigs:       map[uint64]struct{}{},
		lastLid:    -1,
		Data:       map[string]any{},
		closed:     map[any]struct{}{},
		timerChans: map[uintptr]timerChan{},
	}
}

// RunFree performs one FREE-RUNNING execution of body: no bubble, no explorer, real time,
// real sockets (vnet falls back to package net), scheduling points are no-ops. It is the
// conformance side of the environment model: the observations of the default schedule of a
// scenario inside the bubble are compared with what the same driver observes here.
func RunFree(opt Options, setup func(x *Exec), body func(x *Exec), wait time.Duration) *Exec {
	x := newExec(opt)
	x.FreeRun = true
	x.free.Store(true)
	x.t0 = time.Now()
	x.ExecID = execCounter.Add(1)
	if setup != nil {
		setup(x)
	}
	done := make(chan struct{})
	x.Go("host", func() {
		defer close(done)
		defer x.bodyDone.Store(true)
		body(x)
	})
	deadline := time.Now().Add(wait)
	select {
	case <-done:
	case <-time.After(wait):
	}
	// the body may only have started tracked calls: wait until they are done, then a short settle
	for x.Tracked.Load() > 0 && time.Now().Before(deadline) {
		time.Sleep(20 * time.Millisecond)
	}
	time.Sleep(300 * time.Millisecond)
	if opt.AtEnd != nil {
		x.Ended = true
		opt.AtEnd(x)
	}
	x.mu.Lock()
	cl := x.cleanups
	x.cleanups = nil
	x.tornDown = true
	x.mu.Unlock()
	for i := len(cl) - 1; i >= 0; i-- {
		go cl[i]()
	}
	return x
}

func Run(opt Options, setup func(x *Exec), body func(x *Exec)) *Exec {
	x := newExec(opt)
	if x.Horizon == 0 {
		x.Horizon = 120 * time.Second
	}
	if x.Settle == 0 {
		x.Settle = 11 * time.Second
	}
	if x.MaxSteps == 0 {
		x.MaxSteps = 20000
	}
	x.t0 = time.Now()
	reseed()
	x.ExecID = execCounter.Add(1)
	if setup != nil {
		setup(x)
	}
	cur.Store(x)
	x.Go("host", func() {
		defer x.bodyDone.Store(true)
		body(x)
	})
	x.loop(opt)
	if opt.AtEnd != nil && x.Diverged == "" && !x.Redundant {
		x.Ended = true
		opt.AtEnd(x)
	}
	// teardown: everything runs free from here on
	x.free.Store(true)
	x.mu.Lock()
	pl := x.parkedL
	x.parkedL = nil
	cl := x.cleanups
	x.cleanups = nil
	x.tornDown = true
	x.mu.Unlock()
	cur.Store(nil)
	for _, p := range pl {
		p.wake <- 0
	}
	for i := len(cl) - 1; i >= 0; i-- {
		go cl[i]() // free-running, uncontrolled: may block without stalling the teardown
	}
	synctest.Wait()
	// let stale timers (5 s broker waits, 2 s grace...) of this execution expire now
	time.Sleep(70 * time.Second)
	synctest.Wait()
	return x
}

func (x *Exec) snapshot() []*parked {
	x.mu.Lock()
	defer x.mu.Unlock()
	// name new goroutines canonically: ascending goid among those first seen now
	var fresh []*parked
	for _, p := range x.parkedL {
		if _, ok := x.lids[p.gid]; !ok {
			fresh = append(fresh, p)
		}
	}
	// canonical naming: by the site they first park at, then by creation order (goid).
	// (Goroutines spawned by different library goroutines may be created in either
	// order; their first go-plugin site identifies them.)
	sort.Slice(fresh, func(i, j int) bool {
		if fresh[i].site != fresh[j].site {
			return fresh[i].site < fresh[j].site
		}
		return fresh[i].gid < fresh[j].gid
	})
	for _, p := range fresh {
		if _, ok := x.lids[p.gid]; !ok {
			x.lids[p.gid] = x.nextLid
			x.nextLid++
		}
	}
	out := make([]*parked, len(x.parkedL))
	copy(out, x.parkedL)
	for _, p := range out {
		p.lid = x.lids[p.gid]
	}
	// canonical order: by site, then by name. Symmetric goroutines (same code, e.g. two
	// concurrent Kill calls) may swap roles between runs because of choices made inside
	// uninstrumented libraries; ordering by site makes a decision list mean "the goroutine
	// at this site", which is invariant under such swaps.
	sort.Slice(out, func(i, j int) bool {
		if out[i].site != out[j].site {
			return out[i].site < out[j].site
		}
		return out[i].lid < out[j].lid
	})
	return out
}

func (x *Exec) enabled(p *parked) bool {
	if p.dom.Dead.Load() || p.dom.Frozen.Load() {
		return false
	}
	if p.kind == KLock {
		if p.rlock {
			return p.lock.Held.Load() == 0
		}
		return p.lock.Held.Load() == 0 && p.lock.Readers.Load() == 0
	}
	return true
}

func (x *Exec) pendingTimer() (time.Time, bool) {
	now := time.Now()
	x.mu.Lock()
	defer x.mu.Unlock()
	k := 0
	for _, t := range x.timers {
		if t.After(now) {
			x.timers[k] = t
			k++
		}
	}
	x.timers = x.timers[:k]
	if k == 0 {
		return time.Time{}, false
	}
	min := x.timers[0]
	for _, t := range x.timers[1:] {
		if t.Before(min) {
			min = t
		}
	}
	return min, true
}

func (x *Exec) registerTimer(d time.Duration) {
	x.mu.Lock()
	x.timers = append(x.timers, time.Now().Add(d))
	x.mu.Unlock()
}

func (x *Exec) remove(p *parked) {
	x.mu.Lock()
	for i, q := range x.parkedL {
		if q == p {
			x.parkedL = append(x.parkedL[:i], x.parkedL[i+1:]...)
			break
		}
	}
	x.mu.Unlock()
}

func (x *Exec) loop(opt Options) {
	idle := time.Duration(0)
	settled := false
	for {
		synctest.Wait()
		if ps := x.pendingSel; ps != nil {
			x.pendingSel = nil
			tk := -2
			if ps.done {
				tk = ps.taken
			}
			x.Steps[len(x.Steps)-1].SelTaken = tk
			if ps.prio > 0 && tk != ps.prio {
				// the prioritised case was not ready: this execution duplicates its parent
				x.Redundant = true
				return
			}
		}
		if x.Now() > x.Horizon+x.Settle {
			x.finish(true)
			return
		}
		if len(x.Steps) >= x.MaxSteps {
			x.Fail("ENGINE", "step cap %d reached", x.MaxSteps)
			x.stuck = true
			x.finish(true)
			return
		}
		ps := x.snapshot()
		var en []*parked
		for _, p := range ps {
			if x.enabled(p) {
				en = append(en, p)
			}
		}
		if len(en) == 0 {
			// nothing can run: let time pass (maximal progress; not a decision)
			if t, ok := x.pendingTimer(); ok {
				time.Sleep(time.Until(t))
				continue
			}
			if x.bodyDone.Load() && len(ps) == 0 {
				if settled {
					x.finish(false)
					return
				}
				settled = true
				time.Sleep(x.Settle)
				continue
			}
			if idle >= x.Horizon {
				x.finish(true)
				return
			}
			q := time.Second
			idle += q
			time.Sleep(q)
			continue
		}
		idle = 0
		settled = false
		// canonical order: by site (see snapshot); the goroutine that ran last goes first when
		// it is the only one that newly parked in this step (it simply continued). When several
		// goroutines parked in the same step their roles may have been assigned by a choice inside
		// an uninstrumented library (same-instant timers, map order), so the site order decides.
		fresh := 0
		for _, p := range ps {
			if !x.prevParked[p] {
				fresh++
			}
		}
		if fresh <= 1 {
			for i, p := range en {
				if p.lid == x.lastLid && !x.prevParked[p] && i != 0 {
					copy(en[1:i+1], en[:i])
					en[0] = p
					break
				}
			}
		}
		x.prevParked = make(map[*parked]bool, len(ps))
		for _, p := range ps {
			x.prevParked[p] = true
		}
		var alts []alt
		for _, p := range en {
			alts = append(alts, alt{kind: AGo, p: p})
		}
		if x.atomic.Load() {
			// atomic section: canonical choice, no decision point
			a := alts[0]
			x.lastLid = a.p.lid
			x.remove(a.p)
			a.p.wake <- 0
			continue
		}
		for _, p := range en {
			if p.kind == KSelect {
				// offer "prefer clause k" only when k may be ready and an earlier
				// clause may be ready too (otherwise the default order takes k anyway)
				earlier := false
				for k := 0; k < p.ncase; k++ {
					st := p.cases[k].status(x)
					if st == 0 {
						continue
					}
					if earlier && k > 0 {
						alts = append(alts, alt{kind: ASel, p: p, prio: k})
					}
					earlier = true
				}
			}
		}
		if _, ok := x.pendingTimer(); ok && !x.noTime {
			alts = append(alts, alt{kind: ATime})
		}
		for i, f := range x.faults {
			if !f.done && (f.Enabled == nil || f.Enabled(x)) {
				alts = append(alts, alt{kind: AFault, fault: i})
			}
		}
		pos := len(x.Steps)
		// state signature / rolling hash
		h := fnv.New64a()
		for _, p := range ps {
			h.Write([]byte(p.site))
			h.Write([]byte{byte(p.kind), 0})
		}
		h.Write([]byte(strconv.Itoa(len(alts))))
		sg := h.Sum64()
		x.sigs[sg^uint64(len(x.obs))*1099511628211] = struct{}{}
		x.hashAt = append(x.hashAt, x.roll)
		x.roll = x.roll*1099511628211 ^ sg
		if opt.CheckHash != 0 && pos == len(x.prefix)-1 && x.roll != opt.CheckHash {
			x.Diverged = fmt.Sprintf("replay diverged at position %d (hash %x, expected %x)", pos, x.roll, opt.CheckHash)
			return
		}
		choice := 0
		if pos < len(x.prefix) {
			choice = x.prefix[pos]
			if choice >= len(alts) {
				x.Diverged = fmt.Sprintf("replay diverged at position %d: choice %d of %d alternatives", pos, choice, len(alts))
				return
			}
		}
		a := alts[choice]
		st := Step{NAlts: len(alts), Choice: choice, Sig: a.sig(), T: int64(x.Now() / time.Millisecond), SelTaken: -3, alts: alts}
		if x.Trace {
			var sb strings.Builder
			for i, b := range alts {
				if i > 0 {
					sb.WriteByte(' ')
				}
				sb.WriteString(b.sig())
			}
			st.Alts = sb.String()
			st.H = fmt.Sprintf("%x", x.roll)
			var pb strings.Builder
			for _, p := range ps {
				fmt.Fprintf(&pb, "g%d@%s/%d ", p.lid, p.site, p.kind)
			}
			st.H += " " + pb.String()
		}
		x.Steps = append(x.Steps, st)
		if choice != 0 {
			x.Devs++
		}
		switch a.kind {
		case AGo:
			x.lastLid = a.p.lid
			x.remove(a.p)
			if a.p.kind == KSelect {
				x.pendingSel = &selReq{p: a.p, prio: 0}
			}
			a.p.wake <- 0
		case ASel:
			x.lastLid = a.p.lid
			x.remove(a.p)
			x.pendingSel = &selReq{p: a.p, prio: a.prio}
			a.p.wake <- a.prio
		case ATime:
			x.TimeDevs++
			t, _ := x.pendingTimer()
			time.Sleep(time.Until(t))
		case AFault:
			f := x.faults[a.fault]
			f.done = true
			x.Faulted = append(x.Faulted, f.Name)
			f.Inject(x)
		}
	}
}

func (x *Exec) finish(horizon bool) {
	ps := x.snapshot()
	for _, p := range ps {
		if p.dom.Dead.Load() || p.dom.Frozen.Load() {
			continue // goroutines of a crashed / stopped process are not "blocked", they are gone
		}
		st := "parked"
		if !x.enabled(p) {
			st = "disabled"
		}
		x.EndBlocked = append(x.EndBlocked, fmt.Sprintf("g%d[%s] %s at %s", p.lid, p.dom.Name, st, p.site))
	}
}

// Alts returns, for each recorded step i >= from, the number of alternatives.
func (x *Exec) StateSigs() int { return len(x.sigs) }

// HashAfter returns the rolling hash after position i.
func (x *Exec) HashAfter(i int) uint64 {
	if i+1 < len(x.hashAt) {
		return x.hashAt[i+1]
	}
	return x.roll
}

// ReportSelect is called by a select shim after it learned which case ran.
func (x *Exec) reportSelect(p *parked, taken int) {
	if ps := x.pendingSel; ps != nil && ps.p == p {
		ps.taken = taken
		ps.done = true
	}
}

// Controlled reports whether the calling goroutine is under the explorer's
// control in this execution (execution not torn down, goroutine in a domain).
func (x *Exec) Controlled() bool {
	return !x.free.Load() && x.domainOf() != nil
}

// ChildAlts returns the alternative indices worth exploring at step i (all
// non-zero alternatives minus select priorities already known not to be
// ready from this execution's own observation).
func (x *Exec) ChildAlts(i int) []int {
	st := &x.Steps[i]
	var out []int
	var rel *parked
	if c := st.alts[st.Choice]; c.kind == AGo && c.p.kind == KSelect {
		rel = c.p
	}
	for a := 0; a < st.NAlts; a++ {
		if a == st.Choice {
			continue
		}
		al := st.alts[a]
		if al.kind == ASel && rel != nil && al.p == rel {
			if st.SelTaken == -2 || st.SelTaken == -1 || al.prio <= st.SelTaken {
				continue
			}
		}
		out = append(out, a)
	}
	return out
}

// Choices returns the dense list of choices made.
func (x *Exec) Choices() []int {
	out := make([]int, len(x.Steps))
	for i, s := range x.Steps {
		out[i] = s.Choice
	}
	return out
}

// Sigs returns the set of state signatures seen.
func (x *Exec) Sigs() map[uint64]struct{} { return x.sigs }

// Stuck reports an engine-level abort (step cap).
func (x *Exec) Stuck() bool { return x.stuck }

// Quiesce continues the execution canonically (no branching, no recording)
// for d of virtual time: used by end-of-execution checks after they closed
// things, so that goroutines can unwind before leaks are counted.
func (x *Exec) Quiesce(d time.Duration) {
	if x.FreeRun {
		if d > 5600*time.Millisecond {
			d = 5600 * time.Millisecond // just past go-plugin's 5 s waits, in real time
		}
		time.Sleep(d)
		return
	}
	end := time.Now().Add(d)
	for n := 0; n < 100000; n++ {
		synctest.Wait()
		ps := x.snapshot()
		var p *parked
		for _, q := range ps {
			if x.enabled(q) {
				p = q
				break
			}
		}
		if p != nil {
			x.remove(p)
			p.wake <- 0
			continue
		}
		rem := time.Until(end)
		if rem <= 0 {
			return
		}
		if t, ok := x.pendingTimer(); ok && time.Until(t) < rem {
			rem = time.Until(t)
		}
		time.Sleep(rem)
	}
}

var inBubble atomic.Bool

// SetInBubble is called by the worker once it runs inside its synctest bubble.
func SetInBubble() { inBubble.Store(true) }

// InBubble reports whether the process runs its executions inside a bubble.
func InBubble() bool { return inBubble.Load() }

// GoFree runs f in a goroutine of the host domain during an end-of-execution
// check (so that its scheduling points are served by Quiesce).
func (x *Exec) GoFree(f func()) {
	d := x.Domain("host")
	go func() {
		d.enter()
		f()
	}()
}
