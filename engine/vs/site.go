package vs

import (
	"path/filepath"
	"runtime"
	"strconv"
	"sync"
)

var siteCache sync.Map

// CallerSite names the call site `skip` frames above the caller as
// "L:file.go:line" (cached per pc).
func CallerSite(skip int) string {
	var pcs [1]uintptr
	if runtime.Callers(skip+1, pcs[:]) == 0 {
		return "?"
	}
	if s, ok := siteCache.Load(pcs[0]); ok {
		return s.(string)
	}
	fr, _ := runtime.CallersFrames(pcs[:]).Next()
	s := filepath.Base(fr.File) + ":" + strconv.Itoa(fr.Line)
	siteCache.Store(pcs[0], s)
	return s
}
