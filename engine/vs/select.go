package vs

import (
	"reflect"
	"time"
)

// Case is one communication clause of a rewritten select statement.
type Case interface {
	rcase() reflect.SelectCase
	try() bool
	set(v reflect.Value, ok bool)
	// status: 1 known ready, 0 known not ready, 2 unknown
	status(x *Exec) int
}

func chanStatus(x *Exec, ch reflect.Value, recv bool) int {
	if ch.IsNil() {
		return 0
	}
	key := ch.Interface()
	if recv {
		if x.isClosed(key) {
			return 1
		}
		if dl, ok := x.timerDeadline(ch.Pointer()); ok {
			if time.Now().Before(dl) {
				return 0
			}
			return 1
		}
		if ch.Cap() > 0 {
			if ch.Len() > 0 {
				return 1
			}
			return 2 // could also be closed by uninstrumented code
		}
		return 2
	}
	if x.isClosed(key) {
		return 1 // send on closed channel panics: certainly "ready"
	}
	if ch.Cap() > 0 {
		if ch.Len() < ch.Cap() {
			return 1
		}
		return 0
	}
	return 2
}

// RecvCase is `case v, ok = <-ch`.
type RecvCase[T any] struct {
	ch <-chan T
	v  T
	ok bool
}

// R builds a receive clause.
func R[T any](ch <-chan T) *RecvCase[T] { return &RecvCase[T]{ch: ch} }

func (c *RecvCase[T]) rcase() reflect.SelectCase {
	return reflect.SelectCase{Dir: reflect.SelectRecv, Chan: reflect.ValueOf(c.ch)}
}
func (c *RecvCase[T]) status(x *Exec) int { return chanStatus(x, reflect.ValueOf(c.ch), true) }
func (c *RecvCase[T]) try() bool {
	if c.ch == nil {
		return false
	}
	select {
	case c.v, c.ok = <-c.ch:
		return true
	default:
		return false
	}
}
func (c *RecvCase[T]) set(v reflect.Value, ok bool) {
	c.ok = ok
	if ok {
		reflect.ValueOf(&c.v).Elem().Set(v)
	} else {
		var z T
		c.v = z
	}
}

// V returns the received value.
func (c *RecvCase[T]) V() T { return c.v }

// V2 returns the received value and the ok flag.
func (c *RecvCase[T]) V2() (T, bool) { return c.v, c.ok }

// SendBuilder carries the channel of a send clause until With supplies the value.
type SendBuilder[T any] struct{ ch chan<- T }

// S starts a send clause.
func S[T any](ch chan<- T) SendBuilder[T] { return SendBuilder[T]{ch} }

// SendCase is `case ch <- v`.
type SendCase[T any] struct {
	ch chan<- T
	v  T
}

// With completes a send clause.
func (b SendBuilder[T]) With(v T) *SendCase[T] { return &SendCase[T]{b.ch, v} }

func (c *SendCase[T]) rcase() reflect.SelectCase {
	return reflect.SelectCase{Dir: reflect.SelectSend, Chan: reflect.ValueOf(c.ch), Send: reflect.ValueOf(&c.v).Elem()}
}
func (c *SendCase[T]) status(x *Exec) int { return chanStatus(x, reflect.ValueOf(c.ch), false) }
func (c *SendCase[T]) try() bool {
	if c.ch == nil {
		return false
	}
	select {
	case c.ch <- c.v:
		return true
	default:
		return false
	}
}
func (c *SendCase[T]) set(reflect.Value, bool) {}

// Select implements a rewritten select statement. It returns the index of
// the clause that ran, or -1 for the default clause.
func Select(site string, hasDefault bool, cases ...Case) int {
	x := cur.Load()
	prio := 0
	var p *parked
	if x != nil && !x.free.Load() {
		p = &parked{site: site, kind: KSelect, ncase: len(cases), hasDef: hasDefault, cases: cases}
		prio = x.park(p)
	}
	if prio > 0 && prio < len(cases) {
		if cases[prio].try() {
			if x != nil {
				x.reportSelect(p, prio)
			}
			return prio
		}
	}
	for i, c := range cases {
		if i == prio && prio > 0 {
			continue
		}
		if c.try() {
			if x != nil {
				x.reportSelect(p, i)
			}
			return i
		}
	}
	if hasDefault {
		if x != nil {
			x.reportSelect(p, -1)
		}
		return -1
	}
	rc := make([]reflect.SelectCase, len(cases))
	for i, c := range cases {
		rc[i] = c.rcase()
	}
	i, v, ok := reflect.Select(rc)
	cases[i].set(v, ok)
	return i
}

// Close is close(ch) with double-close detection: closing a closed channel is
// recorded as a violation of the current execution instead of killing the
// worker process.
func Close(site string, ch any) {
	x := cur.Load()
	if x != nil {
		x.park(&parked{site: site, kind: KPoint})
		if !x.free.Load() {
			x.markClosed(ch)
		}
	}
	defer func() {
		if r := recover(); r != nil {
			if x != nil && !x.free.Load() {
				x.Fail("S", "close of closed/nil channel at %s: %v", site, r)
				return
			}
			panic(r)
		}
	}()
	reflect.ValueOf(ch).Close()
}
