package vs

import (
	"bytes"
	"context"
	"runtime/pprof"
	"strconv"
	"strings"
	"unsafe"
)

//go:linkname getProfLabel runtime/pprof.runtime_getProfLabel
func getProfLabel() unsafe.Pointer

// Domain returns (creating it if needed) the failure domain with this name.
func (x *Exec) Domain(name string) *Domain {
	x.mu.Lock()
	defer x.mu.Unlock()
	if d, ok := x.domByName[name]; ok {
		return d
	}
	d := &Domain{Name: name, exec: x.ExecID}
	x.domByName[name] = d
	return d
}

// enter makes the calling goroutine (and everything it starts) a member of d.
func (d *Domain) enter() {
	x := cur.Load()
	pprof.SetGoroutineLabels(pprof.WithLabels(context.Background(), pprof.Labels("vdom", d.Name, "vexec", strconv.FormatInt(d.exec, 10))))
	p := getProfLabel()
	if x != nil {
		x.mu.Lock()
		x.domains[p] = d
		x.mu.Unlock()
	}
}

// Enter is enter for harness code that starts goroutines itself.
func (d *Domain) Enter() { d.enter() }

func (x *Exec) domainOf() *Domain {
	p := getProfLabel()
	if p == nil {
		return nil
	}
	x.mu.Lock()
	d := x.domains[p]
	x.mu.Unlock()
	return d
}

// CurDomain returns the domain of the calling goroutine in the current
// execution, or nil.
func CurDomain() *Domain {
	x := cur.Load()
	if x == nil {
		return nil
	}
	return x.domainOf()
}

// ExecID is the execution the domain belongs to.
func (d *Domain) ExecID() int64 { return d.exec }

// Crash marks the domain dead and runs its kill callbacks (which close its
// endpoints, as the kernel does for a dead process).
func (d *Domain) Crash() {
	if d.Dead.Swap(true) {
		return
	}
	d.mu.Lock()
	cbs := d.OnKill
	d.OnKill = nil
	d.mu.Unlock()
	for _, f := range cbs {
		f()
	}
}

// Freeze stops the domain (SIGSTOP): goroutines are never released again and
// reads on its endpoints never complete.
func (d *Domain) Freeze() { d.Frozen.Store(true) }

// AddKill registers a callback for Crash; if already dead it runs at once.
func (d *Domain) AddKill(f func()) {
	d.mu.Lock()
	if d.Dead.Load() {
		d.mu.Unlock()
		f()
		return
	}
	d.OnKill = append(d.OnKill, f)
	d.mu.Unlock()
}

// Goroutines returns one entry per goroutine (stack group) of this execution
// whose stack mentions `frame`, as "domain: top frames". It reads the
// goroutine profile, whose entries carry the pprof labels set by enter.
func (x *Exec) Goroutines(frame string) []string {
	var buf bytes.Buffer
	pprof.Lookup("goroutine").WriteTo(&buf, 1)
	want := `"vexec":"` + strconv.FormatInt(x.ExecID, 10) + `"`
	var out []string
	for _, blk := range strings.Split(buf.String(), "\n\n") {
		if !strings.Contains(blk, want) || !strings.Contains(blk, frame) {
			continue
		}
		lines := strings.Split(blk, "\n")
		n := 1
		if f := strings.Fields(lines[0]); len(f) > 0 {
			if v, err := strconv.Atoi(f[0]); err == nil {
				n = v
			}
		}
		dom := "?"
		var fr []string
		for _, l := range lines {
			if strings.HasPrefix(l, "# labels:") {
				if i := strings.Index(l, `"vdom":"`); i >= 0 {
					r := l[i+8:]
					dom = r[:strings.IndexByte(r, '"')]
				}
				continue
			}
			if strings.HasPrefix(l, "#\t") {
				f := strings.Fields(l)
				if len(f) >= 3 && strings.Contains(f[2], frame) {
					fn := f[2]
					if k := strings.LastIndexByte(fn, '+'); k > 0 {
						fn = fn[:k]
					}
					fr = append(fr, fn[strings.LastIndexByte(fn, '/')+1:])
				}
			}
		}
		for i := 0; i < n; i++ {
			out = append(out, dom+": "+strings.Join(fr, " < "))
		}
	}
	return out
}
