package vs

import (
	"reflect"
	"time"
)

// After is time.After whose deadline is known to the explorer, so that
// "the timer fires now" can be a scheduling decision.
func After(site string, d time.Duration) <-chan time.Time {
	if x := cur.Load(); x != nil && !x.free.Load() && x.domainOf() != nil {
		x.registerTimer(d)
		ch := time.After(d)
		x.mu.Lock()
		x.timerChans[reflect.ValueOf(ch).Pointer()] = timerChan{ch, time.Now().Add(d)}
		x.mu.Unlock()
		return ch
	}
	return time.After(d)
}

// Sleep is time.Sleep with a registered deadline.
func Sleep(site string, d time.Duration) {
	if x := cur.Load(); x != nil && !x.free.Load() && x.domainOf() != nil {
		x.registerTimer(d)
	}
	time.Sleep(d)
}

// NewTimer is time.NewTimer with a registered deadline.
func NewTimer(site string, d time.Duration) *time.Timer {
	if x := cur.Load(); x != nil && !x.free.Load() && x.domainOf() != nil {
		x.registerTimer(d)
	}
	return time.NewTimer(d)
}

// NewTicker is time.NewTicker; only the first tick is registered.
func NewTicker(site string, d time.Duration) *time.Ticker {
	if x := cur.Load(); x != nil && !x.free.Load() && x.domainOf() != nil {
		x.registerTimer(d)
	}
	return time.NewTicker(d)
}

// AfterFunc is time.AfterFunc with a registered deadline; the callback runs as a member of the domain that
// armed the timer (a goroutine started by the runtime carries no labels) and parks before it does anything.
func AfterFunc(site string, d time.Duration, f func()) *time.Timer {
	if x := cur.Load(); x != nil && !x.free.Load() {
		if dom := x.domainOf(); dom != nil {
			x.registerTimer(d)
			return time.AfterFunc(d, func() {
				dom.enter()
				Point("afterfunc:" + site)
				f()
			})
		}
	}
	return time.AfterFunc(d, f)
}

// Pause is a harness-level sleep: registered, so the gap can also be cut
// short by nothing but time itself.
func (x *Exec) Pause(d time.Duration) {
	if d <= 0 {
		return
	}
	x.registerTimer(d)
	time.Sleep(d)
	// several sleepers may wake at the same virtual instant in an order the
	// runtime picks; park so that the explorer orders what they do next
	Point("pause")
}
